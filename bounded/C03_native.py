"""Bounded stand-in for C03 (EKOs do not depend on parallel schedule, target order or co-computed targets): the REAL solver is run on a tiny card pair in several
configurations and the operators are compared bitwise per target.  Runs natively.  Prints one JSON line per obligation.

Contract
  same_operators(config)   eko.solve on the configuration gives, for every target it contains, bitwise the operator (and error) of the reference run
                           (n_integration_cores = 1, targets (3, 4), (10, 5), (100, 5) in that order)
Configurations: n_integration_cores in {2, 3, -1}; the permutations of the three targets; every non-empty proper subset of the targets (targets sharing all, some or no path
sections with the others).  Quick tier: cores {2, -1}, two permutations, three subsets.  Card: NLO QCD, 5 grid points, initial point (1.65 GeV, nf = 4), one threshold crossing.
A second card (expanded scale variation, xif = 2) has a target exactly on the bottom matching scale and one beyond it: both orders and each target alone.
Not covered: other cards; a machine with a different number of CPUs (n_integration_cores = -k depends on it).
"""
import itertools
import json
import os
import pathlib
import shutil
import tempfile

import deal
import numpy as np

import eko
from eko import interpolation
from ekobox import cards

OUT = []
BASE = pathlib.Path(tempfile.mkdtemp(prefix="eko-c03-"))
TARGETS = [(3.0, 4), (10.0, 5), (100.0, 5)]
QUICK = os.environ.get("VERIF_TIER", "quick") == "quick"


def emit(name, ok, detail="", fn=""):
    OUT.append(dict(name=name, ok=bool(ok), detail=str(detail)[:400], fn=fn))


def solve(tag, targets, cores, sv=False):
    th = cards.example.theory()
    th.order = (2, 0)
    op = cards.example.operator()
    op.init = (1.65, 4)
    if sv:      # expanded scale variation: the same stretch of scales is a different part when it ends a path and when a matching follows it
        from eko.io.types import ScaleVariationsMethod
        th.xif = 2.0
        op.configs.scvar_method = ScaleVariationsMethod.EXPANDED
    op.mugrid = list(targets)
    op.xgrid = interpolation.XGrid([1e-2, 0.1, 0.3, 0.6, 1.0])
    op.configs.interpolation_polynomial_degree = 2
    op.configs.n_integration_cores = cores
    path = BASE / f"{tag}.tar"
    eko.solve(th, op, path=path)
    out = {}
    with eko.EKO.read(path) as e:
        for ep in e.evolgrid:
            o = e[ep]
            out[(round(float(np.sqrt(ep[0])), 9), ep[1])] = (o.operator.copy(), None if o.error is None else o.error.copy())
    return out


REF = {}
REF_SV = {}


@deal.ensure(lambda tag, targets, cores, sv=False, result=None: result == [], message="operators depend on the schedule, the order of the targets or the co-computed targets")
def same_operators(tag, targets, cores, sv=False):
    got = solve(tag, targets, cores, sv)
    bad = []
    if set(got) != {(float(m), n) for m, n in targets}:
        bad.append(f"targets in the archive {sorted(got)} instead of {sorted(targets)}")
    for ep, (o, e) in got.items():
        ro, re_ = (REF_SV if sv else REF)[ep]
        if not np.array_equal(o, ro):
            bad.append(f"operator at {ep} differs from the reference run (max {np.max(np.abs(o - ro)):.2e})")
        if (e is None) != (re_ is None) or (e is not None and not np.array_equal(e, re_)):
            bad.append(f"integration error at {ep} differs from the reference run")
    if bad:
        raise AssertionError("; ".join(bad[:3]))
    return bad


def attempt(name, fn_name, f, *args):
    try:
        f(*args)
        emit(name, True, fn=fn_name)
    except Exception as e:
        emit(name, False, f"{type(e).__name__}: {str(e)[:300]}", fn=fn_name)


try:
    REF.update(solve("reference", TARGETS, 1))
    emit("C03.bounded.reference_run_has_all_targets", set(REF) == {(float(m), n) for m, n in TARGETS} and all(np.all(np.isfinite(o)) for o, _ in REF.values()), fn="eko.runner.managed:solve")
    for cores in ((2, -1) if QUICK else (2, 3, -1)):
        attempt(f"C03.bounded.worker_processes[n_integration_cores={cores}]", "eko.evolution_operator:Operator.compute", same_operators, f"cores{cores}", TARGETS, cores)
    perms = [p for p in itertools.permutations(TARGETS) if list(p) != TARGETS]
    for k, p in enumerate(perms[1::2] if QUICK else perms):
        attempt(f"C03.bounded.target_order[{' '.join(f'({m:g},{n})' for m, n in p)}]", "eko.runner.managed:solve", same_operators, f"perm{k}", list(p), 1)
    subsets = [list(s) for r in (1, 2) for s in itertools.combinations(TARGETS, r)]
    for k, sset in enumerate(subsets[::2] if QUICK else subsets):
        attempt(f"C03.bounded.computed_without_the_other_targets[{' '.join(f'({m:g},{n})' for m, n in sset)}]", "eko.runner.managed:solve", same_operators, f"sub{k}", sset, 1)
    # expanded scale variation with xif = 2, a target exactly on the bottom matching scale (still nf = 4) and one beyond it: the stretch up to the matching scale is needed
    # both as the end of a path and as a section followed by the matching
    th0 = cards.example.theory()
    MB = float(th0.heavy.masses.b.value)
    SVT = [(MB, 4), (10.0, 5)]
    REF_SV.update(solve("sv-reference", SVT, 1, True))
    emit("C03.bounded.scale_variation.reference_run_has_all_targets", set(REF_SV) == {(round(float(m), 9), n) for m, n in SVT}, fn="eko.runner.managed:solve")
    attempt("C03.bounded.scale_variation.target_order[beyond the matching scale first]", "eko.runner.managed:solve", same_operators, "sv-perm", SVT[::-1], 1, True)
    attempt("C03.bounded.scale_variation.computed_without_the_other_target[on the matching scale]", "eko.runner.managed:solve", same_operators, "sv-sub0", SVT[:1], 1, True)
    attempt("C03.bounded.scale_variation.computed_without_the_other_target[beyond the matching scale]", "eko.runner.managed:solve", same_operators, "sv-sub1", SVT[1:], 1, True)
except Exception as e:
    import traceback
    emit("C03.bounded.no_unexpected_exception", False, f"{type(e).__name__}: {str(e)[:200]} @ {traceback.extract_tb(e.__traceback__)[-1].name}", fn="(input construction)")
else:
    emit("C03.bounded.no_unexpected_exception", True, fn="(input construction)")
shutil.rmtree(BASE, ignore_errors=True)
for o in OUT:
    print("@@OBL@@" + json.dumps(o))
