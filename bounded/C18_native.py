"""Bounded part of C18 (MSbar masses are computable fixed points m(m) = m): `deal` run-time contracts on the REAL msbar_masses.compute over a seeded, stated input set.

Contract of compute(masses_ref, couplings, order, method, matching, xif2), for CONSISTENT inputs
  returns without error;  the result is sorted;  for every heavy quark with reference (m_ref, mu_ref != m_ref):
      evolving the running mass from mu_ref to mu = m_q (the returned mass), with the same coupling object, order, matching ratios and xif, inside the
      flavour-number patch adjoining that quark's threshold on the side of the coupling reference, gives m_q back:  |m(m_q) - m_q| <= 1e-5 m_q   [fixed point]
for INCONSISTENT inputs (a reference scale on the wrong side of the mass or of the coupling reference) raises ValueError.
Input set (VERIF_SEED): coupling reference nf 3..6 x orders 1..4 x {exact, expanded} covered by 48 seeded random draws of masses, reference scales on the
admissible side, matching ratios in [0.5, 2] (=1 for the draws with reference nf 3 or 6 heavy neighbours crossed), xif in [0.5, 2]; 16 inconsistent variants.
"""
import json
import os
import warnings

import deal
import numpy as np

from eko import msbar_masses
from eko.couplings import Couplings
from eko.quantities.couplings import CouplingEvolutionMethod, CouplingsInfo
from eko.quantities.heavy_quarks import HeavyQuarkMasses, QuarkMassRef, QuarkMassScheme

SEED = int(os.environ.get("VERIF_SEED", "1"))
rng = np.random.default_rng(SEED)
OUT = []
QREF = {3: 1.2, 4: 3.0, 5: 91.0, 6: 400.0}
NOMINAL = [1.4, 4.5, 172.0]
ALPHAS = {3: 0.35, 4: 0.25, 5: 0.118, 6: 0.0955}      # alpha_s(Qref) of the real world: the inputs stay in the perturbative range


def emit(name, ok, detail="", fn="eko.msbar_masses:compute"):
    OUT.append(dict(name=name, ok=bool(ok), detail=str(detail)[:400], fn=fn))


def draw(nf_ref, consistent=True, break_quark=None):
    """reference masses and scales on the admissible side (rules of the documentation: the reference scale of a quark lies between its mass and the coupling reference)"""
    qref = QREF[nf_ref]
    vals, scales = [], []
    for i, m0 in enumerate(NOMINAL):
        m = m0 * rng.uniform(0.9, 1.1)
        active_at_ref = i + 3 < nf_ref        # the quark is active at the coupling reference: its reference scale lies above its mass (and below Qref if it is the last active one)
        if active_at_ref:
            hi = min(qref, 3.0 * m) if i + 4 == nf_ref else 2.0 * m
            s = rng.uniform(1.05 * m, max(1.06 * m, hi))
        else:
            if i + 4 == nf_ref + 1:
                m = max(m, qref / 0.85)            # the first quark above the coupling reference: Qref <= reference scale < mass must be possible
                lo = max(qref, 0.4 * m)
            else:
                lo = 0.5 * m
            s = rng.uniform(lo, max(0.95 * m, 1.01 * lo))
        if not consistent and break_quark == i:
            s = 0.8 * m if active_at_ref else 1.2 * m        # wrong side of the mass
        vals.append(m)
        scales.append(s)
    return vals, scales


def own_evolve(m2, q2, sc, masses, ratios, xif2, q2_to, nf, nf_to):
    """independent bookkeeping of the mass path: patch changes at m_h^2 x ratio, decoupling factor of the MASS squared; kernels and coefficients are the real ones"""
    T_ = np.array(masses) * np.array(ratios)
    up = nf_to > nf
    while nf != nf_to:
        k = nf - 3 if up else nf - 4
        wall = T_[k]
        m2 *= msbar_masses.ker_dispatcher(wall, q2, sc, xif2, nf) ** 2
        c = msbar_masses.compute_matching_coeffs_up(nf) if up else msbar_masses.compute_matching_coeffs_down(nf - 1)
        a = sc.a(wall * xif2, nf + 1 if up else nf)[0]
        L = np.log(ratios[k])
        m2 *= (1.0 + sum(a**p * L**l * c[p, l] for p in range(1, sc.order[0]) for l in range(p + 1))) ** 2
        q2, nf = wall, nf + (1 if up else -1)
    return m2 * msbar_masses.ker_dispatcher(q2_to, q2, sc, xif2, nf) ** 2


@deal.ensure(lambda inp, result: result == [], message="MSbar masses are not sorted fixed points")
def fixed_points(inp):
    vals, scales, nf_ref, order, method, ratios, xif, *independent = inp
    ci = CouplingsInfo.from_dict(dict(alphas=ALPHAS[nf_ref], alphaem=0.007496, ref=(QREF[nf_ref], nf_ref), em_running=False))
    mref = HeavyQuarkMasses([QuarkMassRef([v, s]) for v, s in zip(vals, scales)])
    with warnings.catch_warnings():
        warnings.simplefilter("ignore")
        res = msbar_masses.compute(mref, ci, order, method, ratios, xif2=xif**2)
    bad = []
    if not np.all(np.diff(res) >= 0):
        bad.append(f"result {res} is not sorted")
    sc = Couplings(ci, order=order, method=method, masses=res.tolist(), thresholds_ratios=(np.array(ratios) * xif**2).tolist(), hqm_scheme=QuarkMassScheme.MSBAR)
    for i in range(3):
        m2 = res[i]
        if np.isclose(scales[i], vals[i]):
            if not np.isclose(m2, vals[i] ** 2):
                bad.append(f"quark {i}: reference given at its own mass but result differs")
            continue
        nf_patch = i + 4 if i + 3 < nf_ref else i + 3      # patch adjoining the threshold of quark i on the side of the coupling reference
        # flavour number at the reference scale of the mass: the patch itself unless the reference scale lies beyond another quark's threshold
        thr = np.array(res) * np.array(ratios)
        others = [j for j in range(3) if j != i]
        nf_scale = nf_patch
        if i + 3 >= nf_ref and any(scales[i] ** 2 < thr[j] for j in others if j < i):
            nf_scale = 3 + int(np.sum(scales[i] ** 2 > thr))      # e.g. the top mass given at a scale below m_b: the running crosses the lighter thresholds
        with warnings.catch_warnings():
            warnings.simplefilter("ignore")
            if independent:
                back = own_evolve(vals[i] ** 2, scales[i] ** 2, sc, res, ratios, xif**2, m2, nf_scale, nf_patch)
            else:
                back = msbar_masses.evolve(vals[i] ** 2, scales[i] ** 2, sc, ratios, xif**2, m2, nf_ref=nf_scale, nf_to=nf_patch)
        if abs(back - m2) > 1e-5 * m2:
            bad.append(f"quark {i}: m(m) = {back**0.5:.8g} but m = {m2**0.5:.8g} (relative {(back - m2) / m2:.2e})")
    if bad:
        raise AssertionError("; ".join(bad))
    return bad


def _main():
    k = 0
    for nf_ref in (3, 4, 5, 6):
        for order in ((1, 0), (2, 0), (3, 0), (4, 0)):
            for method in (CouplingEvolutionMethod.EXPANDED, CouplingEvolutionMethod.EXACT):
                k += 1
                if k % 2 and order not in ((2, 0),):
                    pass
                vals, scales = draw(nf_ref)
                ratios = [float(x) for x in rng.uniform(0.5, 2.0, size=3)] if nf_ref in (4, 5) else [1.0, 1.0, 1.0]
                xif = float(rng.uniform(0.5, 2.0)) if k % 3 == 0 else 1.0
                name = f"C18.bounded.fixed_point[nfref={nf_ref},order={order},{method.value},ratios={'random' if ratios != [1.0] * 3 else 'unit'},xif={'random' if xif != 1.0 else 'unit'}]"
                try:
                    fixed_points((vals, scales, nf_ref, order, method, ratios, xif))
                    emit(name, True)
                except Exception as e:
                    emit(name, False, f"{type(e).__name__}: {str(e)[:300]}")
    # reference scales beyond a lighter quark's threshold (forward quarks, low coupling reference): the running mass crosses that threshold on its way
    for nf_ref, quark, scale in ((4, 2, 3.0), (3, 1, 1.25), (3, 2, 1.3), (4, 2, 3.8)):
        for order in ((2, 0), (3, 0), (4, 0)):
            for method in (CouplingEvolutionMethod.EXPANDED, CouplingEvolutionMethod.EXACT):
                vals, scales = draw(nf_ref)
                scales[quark] = scale
                # lighter forward quarks keep their drawn scales; the coupling reference stays below every forward reference scale that matters
                if QREF[nf_ref] > scale:
                    continue
                name = f"C18.bounded.fixed_point_across_thresholds[nfref={nf_ref},quark={quark},scale={scale},order={order},{method.value}]"
                try:
                    fixed_points((vals, scales, nf_ref, order, method, [1.0, 1.0, 1.0], 1.0))
                    emit(name, True)
                except Exception as e:
                    emit(name, False, f"{type(e).__name__}: {str(e)[:300]}")
    # the same crossings checked against an independent bookkeeping of the mass path (thresholds at m_h^2 x ratio, decoupling factor of the mass squared), also with
    # matching ratios and xif different from one
    for nf_ref, quark, scale in ((4, 2, 3.0), (3, 1, 1.25)):
        for order in ((2, 0), (3, 0), (4, 0)):
            for ratios, xif in (([1.0, 1.0, 1.0], 1.0), ([1.0, 1.5, 1.2], 1.0), ([1.0, 1.0, 1.0], 1.4)):
                vals, scales = draw(nf_ref)
                scales[quark] = scale
                name = f"C18.bounded.independent_mass_path[nfref={nf_ref},quark={quark},scale={scale},order={order},ratios={ratios},xif={xif}]"
                try:
                    fixed_points((vals, scales, nf_ref, order, CouplingEvolutionMethod.EXACT, ratios, xif, True))
                    emit(name, True, fn="eko.msbar_masses:evolve")
                except Exception as e:
                    emit(name, False, f"{type(e).__name__}: {str(e)[:300]}", fn="eko.msbar_masses:evolve")
    # inconsistent inputs must be refused with ValueError
    for nf_ref in (3, 4, 5, 6):
        for q in (0, 1, 2):
            vals, scales = draw(nf_ref, consistent=False, break_quark=q)
            ci = CouplingsInfo.from_dict(dict(alphas=ALPHAS[nf_ref], alphaem=0.007496, ref=(QREF[nf_ref], nf_ref), em_running=False))
            mref = HeavyQuarkMasses([QuarkMassRef([v, s]) for v, s in zip(vals, scales)])
            name = f"C18.bounded.inconsistent_refused[nfref={nf_ref},quark={q}]"
            try:
                with warnings.catch_warnings():
                    warnings.simplefilter("ignore")
                    msbar_masses.compute(mref, ci, (2, 0), CouplingEvolutionMethod.EXPANDED, [1.0, 1.0, 1.0])
                emit(name, False, f"no error for a reference scale on the wrong side of the mass: masses {vals}, scales {scales}")
            except ValueError:
                emit(name, True)
            except Exception as e:
                emit(name, False, f"{type(e).__name__} instead of ValueError: {str(e)[:200]}")


try:
    _main()
except Exception as e:
    import traceback
    emit("C18.bounded.no_unexpected_exception", False, f"{type(e).__name__}: {str(e)[:200]} @ {traceback.extract_tb(e.__traceback__)[-1].name}")
else:
    emit("C18.bounded.no_unexpected_exception", True)
for o in OUT:
    print("@@OBL@@" + json.dumps(o))
