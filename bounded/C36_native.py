"""Bounded stand-in for C36 (archives round-trip all their content): contracts stated with `deal` on wrappers of the REAL functions, checked at run time over a
stated finite input set.  Runs natively (no import hook) on a temporary directory that is removed afterwards.  Prints one JSON line per obligation.

Input set (VERIF_SEED seeds the random arrays):
  arrays   shapes (1,1,1,1), (2,3,2,3), (14,8,14,8); values: random normal, and a special array holding 0.0, -0.0, inf, -inf, quiet nan, nan with payload, denormal min, max
  errors   absent / present
  points   0, 1, 3, 6 evolution points; scales as Python float, Python int, numpy.float64, numpy.float32, numpy.int64, and two float64 scales one ulp apart
  cards    the example theory / operator cards and 3 variations (order, xif, mugrid as numpy numbers)
"""
import json
import os
import pathlib
import shutil
import sys
import tempfile

import deal
import numpy as np

from eko.io import items, struct
from eko.io.access import AccessConfigs
from eko.io.inventory import Inventory
from eko.io.items import Evolution, Matching, Target

SEED = int(os.environ.get("VERIF_SEED", "1"))
rng = np.random.default_rng(SEED)
OUT = []


def emit(name, ok, detail="", fn=""):
    OUT.append(dict(name=name, ok=bool(ok), detail=str(detail)[:400], fn=fn))


def bits(a):
    return None if a is None else (np.asarray(a).shape, np.asarray(a).dtype.str, np.asarray(a).tobytes())


def same(a, b):
    """structural equality with nan == nan (card fields such as the unset scale of a pole mass are nan)"""
    if isinstance(a, dict) and isinstance(b, dict):
        return a.keys() == b.keys() and all(same(a[k], b[k]) for k in a)
    if isinstance(a, (list, tuple)) and isinstance(b, (list, tuple)):
        return len(a) == len(b) and all(same(x, y) for x, y in zip(a, b))
    if isinstance(a, float) and isinstance(b, float) and a != a and b != b:
        return True
    return a == b and type(a) is type(b) or (isinstance(a, (int, float)) and isinstance(b, (int, float)) and not isinstance(a, bool) and not isinstance(b, bool) and a == b)


def special(shape):
    vals = np.array([0.0, -0.0, np.inf, -np.inf, np.nan, np.frombuffer(np.uint64(0x7FF8000000000123).tobytes(), dtype=np.float64)[0], 5e-324, np.finfo(float).max])
    n = int(np.prod(shape))
    return np.resize(vals, n).reshape(shape)


def _main():
    ARRAYS = []
    for shape in ((1, 1, 1, 1), (2, 3, 2, 3), (14, 8, 14, 8)):
        ARRAYS.append(("random" + str(shape), rng.normal(size=shape)))
        ARRAYS.append(("special" + str(shape), special(shape)))


    # ---- contract 1: Operator.save / Operator.load are inverse on the bits ------------------------------------------------------------------------------
    @deal.ensure(lambda op, result: bits(result.operator) == bits(op.operator) and bits(result.error) == bits(op.error), message="load(save(op)) differs from op on the bit level")
    def roundtrip_operator(op):
        import io
        stream = io.BytesIO()
        no_err = op.save(stream)
        assert no_err == (op.error is None)
        stream.seek(0)
        return items.Operator.load(stream)


    for nm, arr in ARRAYS:
        for err in (None, np.abs(arr) if "random" in nm else special(arr.shape)):
            name = f"C36.bounded.operator_roundtrip[{nm},error={'yes' if err is not None else 'no'}]"
            try:
                roundtrip_operator(items.Operator(arr, err))
                emit(name, True, fn="eko.io.items:Operator.save/load")
            except Exception as e:
                emit(name, False, f"{type(e).__name__}: {e}", fn="eko.io.items:Operator.save/load")

    base = pathlib.Path(tempfile.mkdtemp(prefix="c36-"))
    try:
        # ---- contract 2: a header written by Inventory.__setitem__ is read back by Inventory.sync as an equal header, for every number kind ------------------
        x = 37.5
        KINDS = [("float", 10.0), ("int", 20), ("np.float64", np.float64(30.0)), ("np.float32", np.float32(40.0)), ("np.int64", np.int64(50)),
                 ("ulp_low", x), ("ulp_high", float(np.nextafter(x, np.inf))), ("np.float64_ulp", np.nextafter(np.float64(77.7), np.inf))]

        @deal.ensure(lambda header, op, dirname, result: result[0] == header and bits(result[1].operator) == bits(op.operator), message="header / operator not read back by a fresh inventory")
        def store_and_reopen(header, op, dirname):
            d = base / dirname
            d.mkdir(exist_ok=True)
            acc = AccessConfigs(base / "unused.tar", False, True)
            Inventory(d, acc, type(header), name="inv")[header] = op
            inv2 = Inventory(d, acc, type(header), name="inv")
            inv2.sync()
            found = [h for h in inv2.cache if h == header]
            assert len(found) == 1, f"{len(found)} headers equal to {header} after sync ({list(inv2.cache)})"
            return found[0], inv2[found[0]]

        small = items.Operator(rng.normal(size=(1, 2, 1, 2)))
        for kn, val in KINDS:
            for hname, mk in (("Target", lambda v: Target(v, 4)), ("Evolution", lambda v: Evolution(v, 100.0, 4, False)), ("Matching", lambda v: Matching(v, 5, True))):
                name = f"C36.bounded.header_roundtrip[{hname},scale as {kn}]"
                try:
                    store_and_reopen(mk(val), small, f"h-{hname}-{kn}")
                    emit(name, True, fn="eko.io.inventory:Inventory.__setitem__/sync")
                except Exception as e:
                    emit(name, False, f"{type(e).__name__}: {str(e)[:250]}", fn="eko.io.inventory:Inventory.__setitem__/sync")
        # scales one ulp apart are different points
        d = base / "ulp"
        d.mkdir()
        acc = AccessConfigs(base / "unused.tar", False, True)
        inv = Inventory(d, acc, Target, name="ulp")
        a, b = Target(x, 4), Target(float(np.nextafter(x, np.inf)), 4)
        opa, opb = items.Operator(np.zeros((1, 1, 1, 1))), items.Operator(np.ones((1, 1, 1, 1)))
        try:
            inv[a], inv[b] = opa, opb
            inv2 = Inventory(d, acc, Target, name="ulp")
            inv2.sync()
            ok = len(inv2.cache) == 2 and inv2[a].operator[0, 0, 0, 0] == 0.0 and inv2[b].operator[0, 0, 0, 0] == 1.0
            emit("C36.bounded.scales_one_ulp_apart_are_distinct_points", ok, f"{list(inv2.cache)}", fn="eko.io.inventory:encode")
        except Exception as e:
            emit("C36.bounded.scales_one_ulp_apart_are_distinct_points", False, f"{type(e).__name__}: {e}", fn="eko.io.inventory:encode")

        # ---- contract 3: whole archives -----------------------------------------------------------------------------------------------------------------
        from ekobox.cards import example

        def cards(variant):
            th, op = example.theory(), example.operator()
            if variant == 1:
                th.order = (3, 0)
                th.xif = 2.0
            if variant == 2:
                op.mugrid = [(float(np.float64(10.0)), 5), (100.0, 5)]
            if variant == 3:
                th.order = (2, 1)
                th.couplings.em_running = True
            return th, op

        @deal.ensure(lambda path, th, op, content, result: result == [], message="archive content after close + read differs")
        def write_and_read(path, th, op, content):
            problems = []
            with struct.EKO.create(path) as builder:
                eko = builder.load_cards(th, op).build()
                for ep, o in content.items():
                    eko[ep] = o
            with struct.EKO.read(path) as back:
                got = {(float(ep[0]), int(ep[1])) for ep in back}
                want = {(float(ep[0]), int(ep[1])) for ep in content}
                if got != want:
                    problems.append(f"evolution points {sorted(got)} != {sorted(want)}")
                for ep, o in content.items():
                    key = (float(ep[0]), int(ep[1]))
                    if key in got:
                        r = back[key]
                        if bits(r.operator) != bits(o.operator) or bits(r.error) != bits(o.error):
                            problems.append(f"operator at {key} differs bitwise")
                if not same(back.theory_card.raw, th.raw):
                    problems.append(f"theory card differs: {[k for k in th.raw if not same(back.theory_card.raw.get(k), th.raw[k])]}")
                if not same(back.operator_card.raw, op.raw):
                    problems.append(f"operator card differs: {[k for k in op.raw if not same(back.operator_card.raw.get(k), op.raw[k])]}")
                if not same(back.metadata.raw, eko.metadata.raw):
                    problems.append("metadata differ")
            if problems:
                raise AssertionError("; ".join(problems))
            return problems

        scales_pool = [10.0, 20, np.float64(30.0), np.float32(40.0), np.int64(50), x, float(np.nextafter(x, np.inf))]
        for variant in (0, 1, 2, 3):
            for npts in (0, 1, 3, 6):
                for err in (False, True):
                    if npts == 0 and err:
                        continue
                    th, op = cards(variant)
                    content = {}
                    for i in range(npts):
                        arr = ARRAYS[(i + variant) % len(ARRAYS)][1]
                        arr = arr if arr.shape[0] == arr.shape[2] and arr.shape[1] == arr.shape[3] else arr
                        content[(scales_pool[(i + variant) % len(scales_pool)], 4 + (i % 2))] = items.Operator(arr, np.abs(arr) if err else None)
                    name = f"C36.bounded.archive_roundtrip[cards={variant},points={npts},errors={err}]"
                    path = base / f"a-{variant}-{npts}-{int(err)}.tar"
                    try:
                        write_and_read(path, th, op, content)
                        emit(name, True, fn="eko.io.struct:EKO.dump/read")
                    except Exception as e:
                        emit(name, False, f"{type(e).__name__}: {str(e)[:300]}", fn="eko.io.struct:EKO.dump/read")

        # ---- contract 4: re-editing preserves everything not explicitly changed ------------------------------------------------------------------------------
        th, op = cards(0)
        path = base / "edit.tar"
        content = {(10.0, 4): items.Operator(ARRAYS[0][1]), (20.0, 5): items.Operator(ARRAYS[2][1], np.abs(ARRAYS[2][1])), (30.0, 5): items.Operator(ARRAYS[3][1])}
        try:
            with struct.EKO.create(path) as builder:
                eko = builder.load_cards(th, op).build()
                for ep, o in content.items():
                    eko[ep] = o
            with struct.EKO.edit(path) as ed:
                ed[(20.0, 5)] = items.Operator(ARRAYS[4][1])
                ed[(40.0, 5)] = items.Operator(ARRAYS[1][1])
            content[(20.0, 5)] = items.Operator(ARRAYS[4][1])
            content[(40.0, 5)] = items.Operator(ARRAYS[1][1])
            bad = []
            with struct.EKO.read(path) as back:
                if {tuple(e) for e in back} != set(content):
                    bad.append(f"points {sorted(back)}")
                for ep, o in content.items():
                    r = back[ep]
                    if bits(r.operator) != bits(o.operator) or bits(r.error) != bits(o.error):
                        bad.append(f"operator {ep} differs")
                if not same(back.theory_card.raw, th.raw) or not same(back.operator_card.raw, op.raw):
                    bad.append("cards differ after the edit session")
            emit("C36.bounded.edit_preserves_the_rest", not bad, "; ".join(bad), fn="eko.io.struct:EKO.edit/close")
        except Exception as e:
            emit("C36.bounded.edit_preserves_the_rest", False, f"{type(e).__name__}: {str(e)[:300]}", fn="eko.io.struct:EKO.edit/close")
    finally:
        shutil.rmtree(base, ignore_errors=True)


try:
    _main()
except Exception as e:      # the real code fails while the inputs of the contracts are being built / used outside a contract: a failed obligation, not a crash of the checker
    import traceback
    emit("C36.bounded.no_unexpected_exception", False, f"{type(e).__name__}: {str(e)[:200]} @ {traceback.extract_tb(e.__traceback__)[-1].name}", fn="(input construction)")
else:
    emit("C36.bounded.no_unexpected_exception", True, fn="(input construction)")
for o in OUT:
    print("@@OBL@@" + json.dumps(o))
