"""Bounded stand-in for C40 (runcards and dict-like structures round-trip through their raw form): `deal` run-time contracts on the REAL functions over an
enumerated input set.  Runs natively (no import hook).  Prints one JSON line per obligation.

Contracts
  plain(c)      c.raw consists of plain data only (dict / list / str / bool / int / float / None) and yaml.safe_load(yaml.safe_dump(c.raw)) == c.raw
  roundtrip(c)  type(c).from_dict(yaml.safe_load(yaml.safe_dump(c.raw))) has the same field values as c (arrays by value, XGrid by nodes AND log flag)
  settings(op)  the dispatcher built by runner.commons.interpolator(op) uses op.xgrid's nodes, op.configs.interpolation_polynomial_degree and
                op.configs.interpolation_is_log
Input set: the example theory card x {orders (1,0),(3,0),(4,0),(2,1),(3,2)} x {POLE, MSBAR with scales} x 3 N3LO variation tuples x xif given as float /
numpy.float64; the example operator card x every EvolutionMethod x every ScaleVariationsMethod (and None) x every InversionMethod (and None) [covering
sample: each enum value at least once with two companions] x {log grid, linear grid} x mugrid given with Python / NumPy numbers; four ad-hoc DictLike
classes with array, tuple, enum, nested, optional and NumPy-scalar fields.
"""
import dataclasses
import enum
import json
import math
import os
import typing

import deal
import numpy as np
import yaml

from eko import interpolation
from eko.io import dictlike, runcards
from eko.io.types import EvolutionMethod, InversionMethod, ScaleVariationsMethod
from eko.quantities.heavy_quarks import QuarkMassScheme
from eko.runner import commons
from ekobox.cards import example

OUT = []


def emit(name, ok, detail="", fn=""):
    OUT.append(dict(name=name, ok=bool(ok), detail=str(detail)[:400], fn=fn))


PLAIN = (dict, list, str, bool, int, float, type(None))


def not_plain(x, path="raw"):
    if type(x) not in PLAIN:
        return [f"{path}: {type(x).__module__}.{type(x).__name__}"]
    out = []
    if isinstance(x, dict):
        for k, v in x.items():
            if type(k) is not str:
                out.append(f"{path}: key {k!r}")
            out += not_plain(v, f"{path}.{k}")
    elif isinstance(x, list):
        for i, v in enumerate(x):
            out += not_plain(v, f"{path}[{i}]")
    return out


def same(a, b):
    if isinstance(a, dict) and isinstance(b, dict):
        return a.keys() == b.keys() and all(same(a[k], b[k]) for k in a)
    if isinstance(a, (list, tuple)) and isinstance(b, (list, tuple)):
        return len(a) == len(b) and all(same(x, y) for x, y in zip(a, b))
    if isinstance(a, float) and isinstance(b, float) and math.isnan(a) and math.isnan(b):
        return True
    return a == b


def same_value(a, b, path="obj"):
    """field-wise comparison of two structures; returns the list of differences"""
    if isinstance(a, interpolation.XGrid) or isinstance(b, interpolation.XGrid):
        if not (isinstance(a, interpolation.XGrid) and isinstance(b, interpolation.XGrid)):
            return [f"{path}: {type(a).__name__} vs {type(b).__name__}"]
        d = []
        if a.log != b.log:
            d.append(f"{path}.log: {a.log} vs {b.log}")
        if len(a) != len(b) or not np.array_equal(a.raw, b.raw):
            d.append(f"{path}.grid differs")
        return d
    if dataclasses.is_dataclass(a) and dataclasses.is_dataclass(b) and type(a) is type(b):
        d = []
        for f in dataclasses.fields(a):
            d += same_value(getattr(a, f.name), getattr(b, f.name), f"{path}.{f.name}")
        return d
    if isinstance(a, np.ndarray) or isinstance(b, np.ndarray):
        return [] if np.array_equal(np.asarray(a), np.asarray(b), equal_nan=True) else [f"{path}: arrays differ"]
    if isinstance(a, (list, tuple)) and isinstance(b, (list, tuple)):
        if len(a) != len(b):
            return [f"{path}: length {len(a)} vs {len(b)}"]
        d = []
        for i, (x, y) in enumerate(zip(a, b)):
            d += same_value(x, y, f"{path}[{i}]")
        return d
    if isinstance(a, float) and isinstance(b, float) and math.isnan(a) and math.isnan(b):
        return []
    return [] if a == b else [f"{path}: {a!r} vs {b!r}"]


@deal.ensure(lambda c, result: result == [], message="raw form is not plain safe-YAML data")
def plain(c):
    raw = c.raw
    bad = not_plain(raw)
    if bad:
        raise AssertionError("not plain: " + "; ".join(bad[:3]))
    back = yaml.safe_load(yaml.safe_dump(raw))
    if not same(back, raw):
        raise AssertionError("safe_load(safe_dump(raw)) != raw")
    return bad


@deal.ensure(lambda c, result: result == [], message="from_dict(raw) differs from the original")
def roundtrip(c):
    back = type(c).from_dict(yaml.safe_load(yaml.safe_dump(c.raw)))
    d = same_value(c, back)
    if d:
        raise AssertionError("; ".join(d[:3]))
    return d


@deal.ensure(lambda op, result: result == [], message="interpolator does not use the declared settings")
def settings(op):
    disp = commons.interpolator(op)
    d = []
    if bool(disp.log) != bool(op.configs.interpolation_is_log):
        d.append(f"dispatcher.log = {disp.log}, card declares interpolation_is_log = {op.configs.interpolation_is_log}")
    if disp.polynomial_degree != op.configs.interpolation_polynomial_degree:
        d.append("polynomial degree differs")
    if not np.array_equal(disp.xgrid.raw, op.xgrid.raw):
        d.append("grid nodes differ")
    if d:
        raise AssertionError("; ".join(d))
    return d


def attempt(name, fn_name, f, c):
    try:
        f(c)
        emit(name, True, fn=fn_name)
    except Exception as e:
        emit(name, False, f"{type(e).__name__}: {str(e)[:300]}", fn=fn_name)


def _main():
    # ---- theory cards ---------------------------------------------------------------------------------------------------------------------------------
    n = 0
    for order in ((1, 0), (3, 0), (4, 0), (2, 1), (3, 2)):
        for scheme in ("pole", "msbar"):
            for var in ((0,) * 7, (1, 2, 0, 1, 2, 0, 1), tuple(np.int64(v) for v in (2, 2, 2, 2, 0, 0, 0))):
                for xif in (1.0, np.float64(2.0)):
                    n += 1
                    if n % 3 and order != (1, 0):
                        continue          # covering sample
                    th = example.theory()
                    th.order, th.xif, th.n3lo_ad_variation = order, xif, var
                    if order == (3, 0):
                        th.use_fhmruvv = None          # an Optional[bool] field left unset
                    if scheme == "msbar":
                        th.heavy.masses_scheme = QuarkMassScheme.MSBAR
                        th.heavy.masses.c.scale, th.heavy.masses.b.scale, th.heavy.masses.t.scale = 1.5, np.float64(4.5), 170.0
                    tag = f"[order={order},{scheme},var={'np' if isinstance(var[0], np.integer) else var[0]},xif={type(xif).__name__}]"
                    attempt(f"C40.bounded.theory.plain{tag}", "eko.io.dictlike:DictLike.raw", plain, th)
                    attempt(f"C40.bounded.theory.roundtrip{tag}", "eko.io.dictlike:DictLike.from_dict", roundtrip, th)

    # ---- operator cards -------------------------------------------------------------------------------------------------------------------------------
    EM, SV, IM = list(EvolutionMethod), [None] + list(ScaleVariationsMethod), [None] + list(InversionMethod)
    combos = [(EM[i % len(EM)], SV[i % len(SV)], IM[(i // 2) % len(IM)]) for i in range(max(len(EM), 2 * len(IM), len(SV)) + 2)]
    for em, svm, im in combos:
        for is_log in (True, False):
            for numpy_numbers in (False, True):
                op = example.operator()
                op.configs.evolution_method, op.configs.scvar_method, op.configs.inversion_method = em, svm, im
                op.configs.interpolation_is_log = is_log
                op.configs.interpolation_polynomial_degree = 2
                nodes = np.geomspace(1e-3, 1.0, 7) if is_log else np.linspace(0.1, 1.0, 7)
                op.xgrid = interpolation.XGrid(nodes, log=is_log)
                op.mugrid = [(np.float64(10.0), np.int64(5)), (np.float32(20.0), 5)] if numpy_numbers else [(10.0, 5), (20.0, 5)]
                op.init = (np.float64(1.65), 4) if numpy_numbers else (1.65, 4)
                tag = f"[{em.value},sv={svm.value if svm else None},inv={im.value if im else None},log={is_log},numpy={numpy_numbers}]"
                attempt(f"C40.bounded.operator.plain{tag}", "eko.io.dictlike:DictLike.raw", plain, op)
                attempt(f"C40.bounded.operator.roundtrip{tag}", "eko.io.dictlike:DictLike.from_dict", roundtrip, op)
                attempt(f"C40.bounded.operator.settings_used{tag}", "eko.runner.commons:interpolator", settings, op)
                try:
                    back = runcards.OperatorCard.from_dict(yaml.safe_load(yaml.safe_dump(op.raw)))
                    attempt(f"C40.bounded.operator.settings_used_after_reload{tag}", "eko.runner.commons:interpolator", settings, back)
                except Exception as e:
                    emit(f"C40.bounded.operator.settings_used_after_reload{tag}", False, f"{type(e).__name__}: {str(e)[:200]}", fn="eko.io.runcards:OperatorCard.from_dict")
                # a card as written by hand: the kind is declared in the configs only, the grid is given by its nodes
                hand = example.operator()
                hand.configs.interpolation_is_log = is_log
                hand.xgrid = interpolation.XGrid(nodes)
                attempt(f"C40.bounded.operator.settings_used_declared_only{tag}", "eko.runner.commons:interpolator", settings, hand)


    # the settings are those of the card at hand whatever cards were seen before in the same process: same nodes and degree, the other kind of interpolation
    for nodes_kind, nodes in (("geomspace", np.geomspace(1e-3, 1.0, 7)), ("linspace", np.linspace(0.1, 1.0, 7))):
        for k, (is_log, degree) in enumerate(((True, 2), (False, 2), (True, 2), (False, 3), (True, 3), (False, 2))):
            seq = example.operator()
            seq.configs.interpolation_is_log = is_log
            seq.configs.interpolation_polynomial_degree = degree
            seq.xgrid = interpolation.XGrid(nodes, log=is_log)
            attempt(f"C40.bounded.operator.settings_used_in_sequence[{nodes_kind},#{k},log={is_log},degree={degree}]", "eko.runner.commons:interpolator", settings, seq)

    # ---- ad-hoc dict-like classes -----------------------------------------------------------------------------------------------------------------------
    class Colour(enum.Enum):
        RED = "red"
        BLUE = "blue"


    @dataclasses.dataclass
    class Inner(dictlike.DictLike):
        a: float
        b: typing.Tuple[int, int]


    @dataclasses.dataclass
    class WithArray(dictlike.DictLike):
        arr: np.ndarray
        name: str


    @dataclasses.dataclass
    class WithOptional(dictlike.DictLike):
        colour: Colour
        inner: Inner
        maybe: typing.Optional[float] = None
        pairs: typing.List[typing.Tuple[float, int]] = dataclasses.field(default_factory=list)


    @dataclasses.dataclass
    class WithScalars(dictlike.DictLike):
        x: float
        k: int
        t: typing.Tuple[float, float]


    @dataclasses.dataclass
    class WithFlags(dictlike.DictLike):
        flag: bool
        label: str
        flags: typing.Tuple[bool, bool]

    @dataclasses.dataclass
    class WithOptionalFlags(dictlike.DictLike):
        flag: typing.Optional[bool] = None
        label: typing.Optional[str] = None
        count: typing.Optional[int] = None

    CASES = [
        ("WithOptionalFlags[all None]", WithOptionalFlags()), ("WithOptionalFlags[set]", WithOptionalFlags(False, "x", 0)),
        ("Inner", Inner(1.5, (2, 3))), ("Inner[numpy scalars in the tuple]", Inner(np.float64(1.5), (np.int64(2), np.int64(3)))),
        ("WithArray[1d]", WithArray(np.array([1.0, 2.0, np.nan]), "v")), ("WithArray[2d]", WithArray(np.arange(6.0).reshape(2, 3), "m")),
        ("WithOptional[None]", WithOptional(Colour.RED, Inner(0.5, (1, 2)))), ("WithOptional[set]", WithOptional(Colour.BLUE, Inner(0.5, (1, 2)), 3.5, [(1.0, 2), (3.0, 4)])),
        ("WithOptional[numpy numbers in a list of tuples]", WithOptional(Colour.BLUE, Inner(0.5, (1, 2)), np.float64(3.5), [(np.float64(1.0), np.int64(2))])),
        ("WithFlags[python]", WithFlags(True, "a", (False, True))), ("WithFlags[np.bool_, np.str_]", WithFlags(np.bool_(True), np.str_("a"), (np.bool_(False), np.isclose(1.0, 1.0)))),
    ("WithScalars[python]", WithScalars(1.0, 2, (3.0, 4.0))), ("WithScalars[np.float32, np.int64]", WithScalars(np.float32(1.0), np.int64(2), (np.float64(3.0), np.float32(4.0)))),
    ]
    for nm, obj in CASES:
        attempt(f"C40.bounded.dictlike.plain[{nm}]", "eko.io.dictlike:raw_field", plain, obj)
        attempt(f"C40.bounded.dictlike.roundtrip[{nm}]", "eko.io.dictlike:load_field", roundtrip, obj)



try:
    _main()
except Exception as e:      # the real code fails while the inputs of the contracts are being built / used outside a contract: a failed obligation, not a crash of the checker
    import traceback
    emit("C40.bounded.no_unexpected_exception", False, f"{type(e).__name__}: {str(e)[:200]} @ {traceback.extract_tb(e.__traceback__)[-1].name}", fn="(input construction)")
else:
    emit("C40.bounded.no_unexpected_exception", True, fn="(input construction)")
for o in OUT:
    print("@@OBL@@" + json.dumps(o))
