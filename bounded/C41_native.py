"""Bounded stand-in for C41 (legacy runcards and archives upgrade to equivalent current structures): `deal` run-time contracts on the REAL converters over an
enumerated input set.  Runs natively (no import hook).  Prints one JSON line per obligation.

Contracts (the post-conditions are the list of settings in the property statement; the meaning of the old keys is the one documented for the flat cards --
PTO = 0 is LO -- and evident from their names)
  runcards(old_th, old_op)   Legacy(old_th, old_op).new_theory / .new_operator exist and carry
        order = (PTO + 1, QED);  alphas, alpha_em (alphaqed, else alphaem), reference = (Qref, nfref);  masses (mc, mb, mt), scheme HQ, MSbar reference scales Qm*;
        matching ratios k*Thr;  xif = XIF;  x-grid nodes = interpolation_xgrid;  evolution points = mugrid (or the roots of Q2grid / mu2grid) in the given order,
        each with the number of flavours of the default flow (3 + number of thresholds (m k)^2 not above mu^2);  init = (Q0, nf0), nf0 from the default flow if None;
        interpolation degree / log flag / iterations / polarized / time_like unchanged;  ev_op_max_order = (n, QED) for an integer n, else the given pair;
        evolution method EXA / EXP / TRN -> iterate-exact / iterate-expanded / truncated, other names unchanged
  archive(version)           an archive whose metadata, theory and operator cards are laid out as data version 1 (written by 0.13) or 2 (written by 0.14) -- layout
        inferred from the keys the converters read: couplings.scale / num_flavs_ref, heavy.num_flavs_init, operator mu0, metadata bases.xgrid -- is read by EKO.read
        into cards with reference = (scale, num_flavs_ref), init = (mu0, num_flavs_init), the same x-grid, orders, couplings, masses, ratios, xif and evolution points,
        and every other setting of the two cards equal to the stored one (matching order (1,0), 2 integration cores, 7 iterations in the input), except that a 0.13 archive, which had
        no matching order / number of cores, reads as matching order (0,0) and 1 core
Input set: 96 legacy card pairs (PTO 0-3 x QED 0-2 x POLE / MSBAR x nf0 given / None x mugrid / Q2grid / mu2grid x ev_op_max_order int / list x 4 ModEv names, covering
sample) and 3 archives (current layout; data version 1 written by 0.13.x; data version 1 written by 0.14.x, which the loader treats as version 2).  NOT covered: real archives written
by 0.13 / 0.14 (none available offline), the operators inside them.
"""
import json
import math
import os
import pathlib
import shutil
import tarfile
import tempfile

import deal
import numpy as np
import yaml

import eko
from eko.io.runcards import Legacy
from ekobox import cards

OUT = []


def emit(name, ok, detail="", fn=""):
    OUT.append(dict(name=name, ok=bool(ok), detail=str(detail)[:400], fn=fn))


def close(a, b):
    return a == b or (isinstance(a, (int, float)) and isinstance(b, (int, float)) and math.isclose(a, b, rel_tol=1e-14, abs_tol=0.0))


def default_nf(mu2, ms, ks):
    return 3 + sum(1 for m, k in zip(ms, ks) if (m * k) ** 2 <= mu2)


METHOD = {"EXA": "iterate-exact", "EXP": "iterate-expanded", "TRN": "truncated"}


@deal.ensure(lambda old_th, old_op, result: result == [], message="upgraded runcards do not carry the settings of the legacy ones")
def runcards(old_th, old_op):
    leg = Legacy(dict(old_th), dict(old_op))
    th, op = leg.new_theory, leg.new_operator
    bad = []

    def want(what, got, exp):
        ok = all(close(g, e) for g, e in zip(got, exp)) and len(got) == len(exp) if isinstance(exp, (list, tuple)) else close(got, exp)
        if not ok:
            bad.append(f"{what}: {got!r}, legacy card says {exp!r}")

    want("order", tuple(th.order), (old_th["PTO"] + 1, old_th["QED"]))
    want("alphas", th.couplings.alphas, old_th["alphas"])
    want("alphaem", th.couplings.alphaem, old_th.get("alphaqed", old_th.get("alphaem", 0.0)))
    want("coupling reference", tuple(th.couplings.ref), (old_th["Qref"], old_th["nfref"]))
    ms = [old_th[f"m{q}"] for q in "cbt"]
    ks = [old_th[f"k{q}Thr"] for q in "cbt"]
    want("masses", [m.value for m in th.heavy.masses], ms)
    want("mass scheme", th.heavy.masses_scheme.value.upper(), old_th["HQ"])
    if old_th["HQ"] == "MSBAR":
        want("MSbar reference scales", [m.scale for m in th.heavy.masses], [old_th[f"Qm{q}"] for q in "cbt"])
    want("matching ratios", list(th.heavy.matching_ratios), ks)
    want("xif", th.xif, old_th["XIF"])
    want("x-grid", op.xgrid.raw.tolist(), list(old_op["interpolation_xgrid"]))
    if "mugrid" in old_op:
        mus = list(old_op["mugrid"])
    else:
        mus = [math.sqrt(q2) for q2 in (old_op["Q2grid"] if "Q2grid" in old_op else old_op["mu2grid"])]
    want("evolution scales", [mu for mu, _ in op.mugrid], mus)
    want("evolution flavours", [nf for _, nf in op.mugrid], [default_nf(mu**2, ms, ks) for mu in mus])
    nf0 = old_th["nf0"] if old_th["nf0"] is not None else default_nf(old_th["Q0"] ** 2, ms, ks)
    want("initial point", tuple(op.init), (old_th["Q0"], nf0))
    for k in ("interpolation_polynomial_degree", "interpolation_is_log", "ev_op_iterations", "polarized", "time_like"):
        want(k, getattr(op.configs, k), old_op[k])
    mo = old_op["ev_op_max_order"]
    want("ev_op_max_order", tuple(op.configs.ev_op_max_order), (mo, old_th["QED"]) if isinstance(mo, int) else tuple(mo))
    want("evolution method", op.configs.evolution_method.value, METHOD.get(old_th["ModEv"], old_th["ModEv"]))
    if bad:
        raise AssertionError("; ".join(bad[:3]))
    return bad


def legacy_pairs():
    n = 0
    for pto in (0, 1, 2, 3):
        for qed in (0, 1, 2):
            for hq in ("POLE", "MSBAR"):
                for nf0 in (4, None):
                    for grid in ("mugrid", "Q2grid", "mu2grid"):
                        for mo in (10, [3, qed]):
                            n += 1
                            if (n * 7 + pto + qed) % 5 != 1 and not (pto == 0 and qed == 0):
                                continue                      # covering sample
                            modev = ("EXA", "EXP", "TRN", "perturbative-exact")[n % 4]
                            th = dict(PTO=pto, QED=qed, alphas=0.118 + 0.001 * pto, alphaqed=0.0078, Qref=91.2, nfref=5, mc=1.51, mb=4.92, mt=172.5, kcThr=1.0 + 0.1 * (n % 3), kbThr=1.0, ktThr=2.0,
                                      HQ=hq, XIF=1.0 + 0.25 * (n % 2), Q0=1.65 if nf0 else (1.6 if n % 2 else 6.0), nf0=nf0, ModEv=modev)
                            if hq == "MSBAR":
                                th.update(Qmc=1.51, Qmb=4.92, Qmt=172.5)
                            if n % 5 == 0:
                                th["alphaem"] = th.pop("alphaqed")
                            scales = [2.0, 10.0, 100.0, 300.0, 400.0]          # 300 lies between sqrt(ktThr) mt and ktThr mt: the ratios are ratios of scales, not of squared scales
                            op = dict(interpolation_xgrid=[1e-3, 1e-2, 0.1, 0.5, 1.0], interpolation_polynomial_degree=2 + n % 2, interpolation_is_log=bool(n % 2), ev_op_iterations=1 + n % 3,
                                      ev_op_max_order=mo, n_integration_cores=1, polarized=bool(n % 7 == 0), time_like=bool(n % 11 == 0), debug_skip_non_singlet=False, debug_skip_singlet=False)
                            op[grid] = scales if grid == "mugrid" else [s * s for s in scales]
                            tag = f"[PTO={pto},QED={qed},{hq},nf0={nf0},{grid},max_order={'int' if isinstance(mo, int) else 'pair'},{modev}]"
                            yield tag, th, op


# ---- archives -------------------------------------------------------------------------------------------------------------------------------------------
def current_archive(tmp):
    th = cards.example.theory()
    th.order = (2, 0)
    op = cards.example.operator()
    op.init = (1.65, 4)
    op.mugrid = [(10.0, 5), (100.0, 5)]
    th.matching_order = (1, 0)                     # not the values a converter would fill in
    op.configs.n_integration_cores = 2
    op.configs.ev_op_iterations = 7
    path = tmp / "current.tar"
    with eko.EKO.create(path) as b:
        b.load_cards(th, op).build()
    return path, th, op


def as_old(path, tmp, version, data_version):
    """rewrite the three YAML files of an archive into the layout the converters read"""
    work = tmp / f"w{version}-{data_version}"
    with tarfile.open(path) as t:
        t.extractall(work)
    root = work if (work / "metadata.yaml").exists() else next(p_ for p_ in work.iterdir() if (p_ / "metadata.yaml").exists())
    meta = yaml.safe_load((root / "metadata.yaml").read_text())
    thr = yaml.safe_load((root / "theory.yaml").read_text())
    opr = yaml.safe_load((root / "operator.yaml").read_text())
    meta["version"], meta["data_version"] = version, data_version
    meta["bases"] = dict(xgrid=meta.pop("xgrid"))
    scale, nfref = thr["couplings"].pop("ref")
    thr["couplings"].update(scale=scale, num_flavs_ref=nfref, max_num_flavs=6)
    mu0, nf0 = opr.pop("init")
    thr["heavy"].update(intrinsic_flavors=[4], num_flavs_init=nf0, num_flavs_max_pdf=6)
    opr["mu0"] = mu0
    if data_version == 1 and version.startswith("0.13"):
        thr.pop("matching_order", None)
        opr["configs"].pop("n_integration_cores", None)
        if "use_fhmruvv" in thr:
            thr["use_fhmv"] = thr.pop("use_fhmruvv")
    (root / "metadata.yaml").write_text(yaml.safe_dump(meta))
    (root / "theory.yaml").write_text(yaml.safe_dump(thr))
    (root / "operator.yaml").write_text(yaml.safe_dump(opr))
    out = tmp / f"old-{version}-{data_version}.tar"
    with tarfile.open(out, "w") as t:
        if root is work:
            for child in sorted(root.iterdir()):
                t.add(child, arcname=child.name)
        else:
            t.add(root, arcname=root.name)
    return out


def flat(prefix, v):
    """nested raw card -> {dotted path: leaf}"""
    if isinstance(v, dict):
        out = {}
        for k_, x in v.items():
            out.update(flat(f"{prefix}.{k_}", x))
        return out
    if isinstance(v, (list, tuple)) or hasattr(v, "tolist"):
        out = {}
        for i, x in enumerate(list(v.tolist() if hasattr(v, "tolist") else v)):
            out.update(flat(f"{prefix}[{i}]", x))
        return out
    return {prefix: v}


@deal.ensure(lambda label, path, th, op, result: result == [], message="cards read from the legacy archive do not carry the stored settings")
def archive(label, path, th, op):
    bad = []
    with eko.EKO.read(path) as e:
        t, o = e.theory_card, e.operator_card
        pairs = [("order", tuple(t.order), tuple(th.order)), ("alphas", t.couplings.alphas, th.couplings.alphas), ("alphaem", t.couplings.alphaem, th.couplings.alphaem),
                 ("coupling reference", tuple(t.couplings.ref), tuple(th.couplings.ref)), ("masses", [m.value for m in t.heavy.masses], [m.value for m in th.heavy.masses]),
                 ("mass scheme", t.heavy.masses_scheme, th.heavy.masses_scheme), ("matching ratios", list(t.heavy.matching_ratios), list(th.heavy.matching_ratios)), ("xif", t.xif, th.xif),
                 ("initial point", tuple(o.init), tuple(op.init)), ("evolution points", [tuple(p) for p in o.mugrid], [tuple(p) for p in op.mugrid]),
                 ("x-grid of the operator card", o.xgrid.raw.tolist(), op.xgrid.raw.tolist()), ("x-grid of the archive", e.xgrid.raw.tolist(), op.xgrid.raw.tolist()),
                 ("evolution method", o.configs.evolution_method, op.configs.evolution_method), ("interpolation degree", o.configs.interpolation_polynomial_degree, op.configs.interpolation_polynomial_degree)]
        for what, got, exp in pairs:
            if got != exp:
                bad.append(f"{what}: {got!r}, stored {exp!r}")
        # every other setting of the two cards: equal to the stored one, except the two settings a 0.13 archive did not have (they get the value that version used)
        defaults = {"theory.matching_order": [0, 0], "operator.configs.n_integration_cores": 1} if label.startswith("0.13") else {}
        got_all = dict(flat("theory", t.raw), **flat("operator", o.raw))
        exp_all = dict(flat("theory", th.raw), **flat("operator", op.raw))
        for k_, v_ in defaults.items():
            for kk in [x for x in exp_all if x == k_ or x.startswith(k_ + "[")]:
                del exp_all[kk]
            exp_all.update(flat(k_, v_))
        for k_ in sorted(set(got_all) | set(exp_all)):
            g_, e_ = got_all.get(k_, "<missing>"), exp_all.get(k_, "<missing>")
            both_nan = isinstance(g_, float) and isinstance(e_, float) and math.isnan(g_) and math.isnan(e_)
            if not (close(g_, e_) or both_nan):
                bad.append(f"{k_}: {g_!r}, stored {e_!r}")
    if bad:
        raise AssertionError("; ".join(bad[:3]))
    return bad


def attempt(name, fn_name, f, *args):
    try:
        f(*args)
        emit(name, True, fn=fn_name)
    except Exception as e:
        emit(name, False, f"{type(e).__name__}: {str(e)[:300]}", fn=fn_name)


def _main():
    for tag, th, op in legacy_pairs():
        attempt(f"C41.bounded.legacy_runcards{tag}", "eko.io.runcards:Legacy", runcards, th, op)
    tmp = pathlib.Path(tempfile.mkdtemp(prefix="eko-c41-"))
    try:
        cur, th, op = current_archive(tmp)
        attempt("C41.bounded.archive[current layout]", "eko.io.struct:EKO.read", archive, "current", cur, th, op)
        for version, dv in (("0.13.5", 1), ("0.14.2", 1)):      # 0.14 wrote data version 1 too; Metadata.load tells them apart by the version string
            old = as_old(cur, tmp, version, dv)
            attempt(f"C41.bounded.archive[written by {version}, data version {dv}]", "eko.io.metadata:Metadata.load", archive, f"{version}/{dv}", old, th, op)
    finally:
        shutil.rmtree(tmp, ignore_errors=True)


try:
    _main()
except Exception as e:
    import traceback
    emit("C41.bounded.no_unexpected_exception", False, f"{type(e).__name__}: {str(e)[:200]} @ {traceback.extract_tb(e.__traceback__)[-1].name}", fn="(input construction)")
else:
    emit("C41.bounded.no_unexpected_exception", True, fn="(input construction)")
for o in OUT:
    print("@@OBL@@" + json.dumps(o))
