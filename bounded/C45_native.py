"""Bounded stand-in for C45 (LHAPDF export of evolved PDFs is self-consistent): `deal` run-time contracts on the REAL evolution helper and writers, over a tiny
card pair (LO, 5 grid points, targets (3 GeV, nf=4), (5 GeV, nf=4), (5 GeV, nf=5), (10 GeV, nf=5): unsorted in the card, one scale in both flavour patches) and a toy PDF.  Runs natively.  Prints one JSON line per obligation.

Contracts
  written(variant)   evolve_pdfs(members, theory, operator, path=<solved once>, targetgrid=<variant>) writes a set whose data files contain, per flavour-number block,
                     the x-grid (target grid if given, else the operator grid), the sorted scales of that block, the 14 flavours, and values equal to
                     x * apply_pdf(eko, member, targetgrid) at every (x, Q) node to the printed precision (1e-8 relative);  the info file has XMin / XMax = ends of
                     the written x-grid, QMin / QMax = smallest / largest written scale, Flavors = the written flavours, NumMembers = number of members
                     variants: no target grid (2 members), target grid given as a list, target grid given as an XGrid
  reread(variant)    genpdf.load.load_blocks_from_file (lhapdf.paths() stubbed to the scratch directory) returns the blocks that were dumped, to the printed precision
  alphas(config)     info_file.build_alphas lists the scales of the evolution points (sorted per flavour number) and AlphaS_Vals = 4 pi a_s(Q^2, nf) of the couplings object
                     the runner builds for the same cards (eko.runner.commons.couplings)
                     configs: pole masses; MSbar masses with reference scales away from the masses; exponentiated scale variation with xif = 2
Trusted: the toy PDF object implements the lhapdf-like interface (xfxQ2, hasFlavor); a stub module stands in for lhapdf.paths().  Not covered: installation into the LHAPDF
data directory, other card pairs, PDF sets with more than one x-grid.
"""
import json
import math
import os
import pathlib
import shutil
import sys
import tempfile
import types

import deal
import numpy as np
import yaml

BASE = tempfile.mkdtemp(prefix="eko-c45-")
os.chdir(BASE)
sys.modules.setdefault("lhapdf", types.SimpleNamespace(paths=lambda: [BASE]))

import eko
from eko import basis_rotation as br
from eko import interpolation
from eko.io.types import ScaleVariationsMethod
from eko.quantities.heavy_quarks import QuarkMassScheme
from eko.runner import commons
from ekobox import apply, cards, evol_pdf, info_file
from ekobox.genpdf import load as genload

OUT = []


def emit(name, ok, detail="", fn=""):
    OUT.append(dict(name=name, ok=bool(ok), detail=str(detail)[:400], fn=fn))


class Toy:
    def __init__(self, k):
        self.k = k

    def xfxQ2(self, pid, x, q2):
        if pid == 21:
            return (1.0 + 0.1 * self.k) * x**0.8 * (1 - x) ** 5
        if abs(pid) in (1, 2, 3):
            return x**0.5 * (1 - x) ** 3 * (1 + 0.1 * pid + 0.05 * self.k)
        return 0.0

    def hasFlavor(self, pid):
        return pid in (21, 1, 2, 3, -1, -2, -3)


def tiny_cards():
    th = cards.example.theory()
    th.order = (1, 0)
    op = cards.example.operator()
    op.init = (1.65, 4)
    op.mugrid = [(10.0, 5), (3.0, 4), (5.0, 4), (5.0, 5)]      # unsorted, and one scale listed in both flavour patches (allowed at a patch boundary)
    op.xgrid = interpolation.XGrid([1e-2, 0.1, 0.3, 0.6, 1.0])
    op.configs.interpolation_polynomial_degree = 2
    op.configs.n_integration_cores = 1
    return th, op


def read_dat(path):
    lines = pathlib.Path(path).read_text().splitlines()
    blocks, i = [], lines.index("---") + 1
    while i < len(lines):
        j = lines.index("---", i)
        xs = np.array(lines[i].split(), dtype=float)
        qs = np.array(lines[i + 1].split(), dtype=float)
        pids = [int(p) for p in lines[i + 2].split()]
        data = np.array([[float(v) for v in ln.split()] for ln in lines[i + 3 : j]])
        blocks.append(dict(x=xs, q=qs, pids=pids, data=data))
        i = j + 1
    return lines[0], blocks


def rel(a, b):
    return abs(a - b) <= 2e-8 * max(abs(a), abs(b)) + 1e-300


EKO_PATH = pathlib.Path(BASE) / "tiny.tar"
TARGET = [0.05, 0.2, 0.5, 0.9]


@deal.ensure(lambda variant, result: result == [], message="the written PDF set is not the applied evolved PDFs / the info file does not describe the written grids")
def written(variant):
    th, op = tiny_cards()
    members = [Toy(0), Toy(1)] if variant == "no target grid" else [Toy(0)]
    tg = None if variant == "no target grid" else (list(TARGET) if variant == "target grid as list" else interpolation.XGrid(TARGET))
    name = "Set_" + variant.replace(" ", "_")
    shutil.rmtree(pathlib.Path(BASE) / name, ignore_errors=True)
    evol_pdf.evolve_pdfs(members, th, op, path=EKO_PATH, targetgrid=tg, name=name)
    xs = np.array(TARGET) if tg is not None else op.xgrid.raw
    bad = []
    with eko.EKO.read(EKO_PATH) as e:
        expect = [apply.apply_pdf(e, m, None if tg is None else list(TARGET))[0] for m in members]
    by_nf = {}
    for mu, nf in op.mugrid:
        by_nf.setdefault(nf, []).append(mu)
    for k, m in enumerate(members):
        head, blocks = read_dat(pathlib.Path(BASE) / name / f"{name}_{k:04d}.dat")
        if len(blocks) != len(by_nf):
            bad.append(f"member {k}: {len(blocks)} blocks for {len(by_nf)} flavour patches")
            continue
        for (nf, mus), b in zip(sorted(by_nf.items()), blocks):
            mus = sorted(mus)
            if len(b["x"]) != len(xs) or not all(rel(a_, b_) for a_, b_ in zip(b["x"], xs)):
                bad.append(f"member {k}, nf={nf}: x-grid {b['x'].tolist()} instead of {list(xs)}")
                continue
            if len(b["q"]) != len(mus) or not all(abs(a_ - b_) <= 1e-6 * b_ for a_, b_ in zip(b["q"], mus)):
                bad.append(f"member {k}, nf={nf}: scales {b['q'].tolist()} instead of {mus}")
                continue
            if sorted(b["pids"]) != sorted(br.flavor_basis_pids):
                bad.append(f"member {k}, nf={nf}: flavours {b['pids']}")
                continue
            for ix, x in enumerate(xs):
                for iq, mu in enumerate(mus):
                    row = b["data"][ix * len(mus) + iq]
                    for ip, pid in enumerate(b["pids"]):
                        want = x * expect[k][(mu * mu, nf)][pid][ix]
                        if abs(row[ip] - want) > 2e-8 * abs(want) + 1e-12:
                            bad.append(f"member {k}, nf={nf}, x={x}, Q={mu}, pid={pid}: written {row[ip]:.9e}, evolved {want:.9e}")
    info = yaml.safe_load((pathlib.Path(BASE) / name / f"{name}.info").read_text())
    allmu = [mu for mu, _ in op.mugrid]
    for key, want in (("XMin", float(xs[0])), ("XMax", float(xs[-1])), ("QMin", min(allmu)), ("QMax", max(allmu)), ("NumMembers", len(members))):
        if not (info.get(key) == want or (isinstance(want, float) and info.get(key) is not None and abs(info[key] - want) <= 1e-4 * want)):
            bad.append(f"info {key} = {info.get(key)}, written grids give {want}")
    if sorted(info.get("Flavors", [])) != sorted(br.flavor_basis_pids):
        bad.append(f"info Flavors = {info.get('Flavors')}")
    if bad:
        raise AssertionError("; ".join(bad[:3]))
    return bad


@deal.ensure(lambda variant, result: result == [], message="re-read data blocks differ from the written ones")
def reread(variant):
    name = "Set_" + variant.replace(" ", "_")
    bad = []
    head, blocks = genload.load_blocks_from_file(name, 0)
    _, mine = read_dat(pathlib.Path(BASE) / name / f"{name}_0000.dat")
    if len(blocks) != len(mine):
        raise AssertionError(f"{len(blocks)} blocks re-read, {len(mine)} written")
    for b, m in zip(blocks, mine):
        if not np.allclose(b["xgrid"], m["x"], rtol=1e-6, atol=0) or not np.allclose(np.sqrt(b["mu2grid"]), m["q"], rtol=1e-6, atol=0) or list(b["pids"]) != m["pids"]:
            bad.append("grids / flavours of a block differ")
        elif b["data"].shape != m["data"].shape or not np.allclose(b["data"], m["data"], rtol=1e-8, atol=0):
            bad.append("values of a block differ")
    if bad:
        raise AssertionError("; ".join(bad))
    return bad


@deal.ensure(lambda config, result: result == [], message="alpha_s of the info file is not the coupling the evolution uses")
def alphas(config):
    th, op = tiny_cards()
    th.order = (3, 0)
    if config == "MSbar masses":
        th.heavy.masses_scheme = QuarkMassScheme.MSBAR
        th.heavy.masses.c.scale, th.heavy.masses.b.scale, th.heavy.masses.t.scale = 3.0, 10.0, 100.0
    if config == "exponentiated scale variation, xif = 2":
        th.xif = 2.0
        op.configs.scvar_method = ScaleVariationsMethod.EXPONENTIATED
    got = info_file.build_alphas(th, op)
    sc = commons.couplings(th, op)
    pts = sorted(((nf, mu) for mu, nf in op.mugrid))
    bad = []
    if [mu for _, mu in pts] != list(got["AlphaS_Qs"]):
        bad.append(f"AlphaS_Qs {got['AlphaS_Qs']} instead of {[mu for _, mu in pts]}")
    else:
        for (nf, mu), v in zip(pts, got["AlphaS_Vals"]):
            want = float(4 * np.pi * sc.a_s(mu * mu, nf_to=nf))
            if abs(v - want) > 1e-9 * want:
                bad.append(f"alpha_s({mu} GeV, nf={nf}) = {v:.8f} in the info file, the evolution uses {want:.8f}")
    if bad:
        raise AssertionError("; ".join(bad[:3]))
    return bad


def attempt(name, fn_name, f, *args):
    try:
        f(*args)
        emit(name, True, fn=fn_name)
    except Exception as e:
        emit(name, False, f"{type(e).__name__}: {str(e)[:300]}", fn=fn_name)


def _main():
    th, op = tiny_cards()
    eko.solve(th, op, path=EKO_PATH)
    for variant in ("no target grid", "target grid as list", "target grid as XGrid"):
        attempt(f"C45.bounded.written_set[{variant}]", "ekobox.evol_pdf:evolve_pdfs", written, variant)
        attempt(f"C45.bounded.blocks_reread[{variant}]", "ekobox.genpdf.load:load_blocks_from_file", reread, variant)
    for config in ("pole masses", "MSbar masses", "exponentiated scale variation, xif = 2"):
        attempt(f"C45.bounded.info_alphas[{config}]", "ekobox.info_file:build_alphas", alphas, config)


try:
    _main()
except Exception as e:
    import traceback
    emit("C45.bounded.no_unexpected_exception", False, f"{type(e).__name__}: {str(e)[:200]} @ {traceback.extract_tb(e.__traceback__)[-1].name}", fn="(input construction)")
else:
    emit("C45.bounded.no_unexpected_exception", True, fn="(input construction)")
os.chdir(tempfile.gettempdir())
shutil.rmtree(BASE, ignore_errors=True)
for o in OUT:
    print("@@OBL@@" + json.dumps(o))
