"""Bounded stand-in for C47 (solving is reproducible): the REAL solver is run in fresh Python processes with different hash seeds and the archives are compared member by
member.  Runs natively.  Prints one JSON line per obligation.

Contracts
  reproducible(card)   eko.solve(theory, operator) run in fresh processes with PYTHONHASHSEED = 1, 2 and `random` writes archives with the same member names, and every
                       member (operators after decompression, recipes, cards, metadata) is bitwise identical
  names(header)        the file name of an inventory item is a function of the header's field values only: the header classes have numeric / boolean fields only (the
                       built-in hash of numbers does not depend on the hash seed), and encode() gives the same name in processes with different seeds
Input set: tiny card pairs with 5 grid points -- NLO QCD with a threshold crossing and three targets (quick and thorough tier), LO QCD with one target computed by TWO
worker processes under two emulated schedules (a delay before each grid point growing resp. shrinking with its index, so the workers finish in opposite orders; both
tiers), LO with QED (1,1) and one target (thorough tier) -- three processes each.
Not covered: more than two workers, schedules other than the two emulated ones, other platforms / library versions.
"""
import dataclasses
import hashlib
import io
import json
import os
import pathlib
import shutil
import subprocess
import sys
import tarfile
import tempfile
import typing

import deal
import lz4.frame
import numpy as np

from eko.io import items

OUT = []
BASE = pathlib.Path(tempfile.mkdtemp(prefix="eko-c47-"))

SOLVE = '''
import sys, pathlib
from ekobox import cards
from eko import interpolation
import eko
th = cards.example.theory(); op = cards.example.operator()
op.xgrid = interpolation.XGrid([1e-2, 0.1, 0.3, 0.6, 1.0]); op.configs.interpolation_polynomial_degree = 2; op.configs.n_integration_cores = 1
if sys.argv[2] == "nlo_qcd_with_threshold":
    th.order = (2, 0); op.init = (1.65, 4); op.mugrid = [(3.0, 4), (10.0, 5), (100.0, 5)]
else:
    th.order = (1, 1); op.init = (1.65, 4); op.mugrid = [(3.0, 4)]
if sys.argv[2] == "lo_qcd_two_workers":
    # two worker processes, and an emulated schedule: a pure delay in front of the integration of each grid point, growing ("up") or shrinking ("down") with the
    # index of the point, so that the workers finish in different orders in different runs (the workers are forked and see the wrapped method)
    import time
    from eko import evolution_operator as evop
    th.order = (1, 0); op.init = (1.65, 4); op.mugrid = [(3.0, 4)]; op.configs.n_integration_cores = 2
    genuine, schedule = evop.Operator.run_op_integration, sys.argv[3]
    def delayed(self, log_grid):
        k, n = log_grid[0], 5
        time.sleep(0.25 * (k if schedule == "up" else n - 1 - k))
        return genuine(self, log_grid)
    delayed.__name__, delayed.__qualname__ = genuine.__name__, genuine.__qualname__
    evop.Operator.run_op_integration = delayed
eko.solve(th, op, path=pathlib.Path(sys.argv[1]))
'''

NAME = '''
import sys
from eko.io import items, inventory
hs = [items.Evolution(2.7225, 9.0, 4, False), items.Evolution(9.0, 20.25, 4, True), items.Matching(20.25, 5, False), items.Target(100.0, 5), items.Matching(2.25, 4, True)]
print(",".join(inventory.encode(h) for h in hs))
'''


def emit(name, ok, detail="", fn=""):
    OUT.append(dict(name=name, ok=bool(ok), detail=str(detail)[:400], fn=fn))


def fresh(code, args, seed):
    env = dict(os.environ, PYTHONHASHSEED=str(seed))
    r = subprocess.run([sys.executable, "-c", code, *args], env=env, capture_output=True, text=True, timeout=1800)
    if r.returncode:
        raise RuntimeError(f"process with PYTHONHASHSEED={seed} failed: {r.stderr.strip()[-300:]}")
    return r.stdout.strip()


def members(path):
    out = {}
    with tarfile.open(path) as t:
        for m in t.getmembers():
            if not m.isfile():
                continue
            raw = t.extractfile(m).read()
            if m.name.endswith(".lz4"):
                raw = lz4.frame.decompress(raw)
            out[m.name] = hashlib.sha256(raw).hexdigest()
    return out


@deal.ensure(lambda card, result: result == [], message="archives written by processes with different hash seeds differ")
def reproducible(card):
    arch = {}
    for seed in (1, 2, "random"):
        p = BASE / f"{card}-{seed}.tar"
        fresh(SOLVE, [str(p), card, {1: "up", 2: "down", "random": "up"}[seed]], seed)
        arch[seed] = members(p)
    bad = []
    ref = arch[1]
    if not any(n.endswith(".lz4") for n in ref):
        bad.append("no operator in the archive (vacuous)")
    for seed in (2, "random"):
        if set(arch[seed]) != set(ref):
            bad.append(f"member names differ between seeds 1 and {seed}: {sorted(set(arch[seed]) ^ set(ref))[:4]}")
            continue
        diff = [n for n in ref if arch[seed][n] != ref[n]]
        if diff:
            bad.append(f"{len(diff)} members differ between seeds 1 and {seed}: {diff[:4]}")
    if bad:
        raise AssertionError("; ".join(bad))
    return bad


@deal.ensure(lambda result: result == [], message="inventory names depend on the hash seed")
def names():
    bad = []
    for cls in (items.Evolution, items.Matching, items.Target):
        hints = typing.get_type_hints(cls)
        for f in dataclasses.fields(cls):
            if hints[f.name] not in (int, float, bool):
                bad.append(f"{cls.__name__}.{f.name} is {hints[f.name]}: its hash may depend on the hash seed")
    outs = {seed: fresh(NAME, [], seed) for seed in (1, 2, 12345)}
    if len(set(outs.values())) != 1:
        bad.append(f"encode() gives different names for different hash seeds: {outs}")
    if bad:
        raise AssertionError("; ".join(bad))
    return bad


def attempt(name, fn_name, f, *args):
    try:
        f(*args)
        emit(name, True, fn=fn_name)
    except Exception as e:
        emit(name, False, f"{type(e).__name__}: {str(e)[:300]}", fn=fn_name)


try:
    attempt("C47.bounded.inventory_names_independent_of_the_hash_seed", "eko.io.inventory:encode", names)
    for card in (("nlo_qcd_with_threshold", "lo_qcd_two_workers") if os.environ.get("VERIF_TIER", "quick") == "quick" else ("nlo_qcd_with_threshold", "lo_qcd_two_workers", "lo_qed")):
        attempt(f"C47.bounded.same_archive_in_fresh_processes[{card}]", "eko.runner.managed:solve", reproducible, card)
except Exception as e:
    import traceback
    emit("C47.bounded.no_unexpected_exception", False, f"{type(e).__name__}: {str(e)[:200]} @ {traceback.extract_tb(e.__traceback__)[-1].name}", fn="(input construction)")
else:
    emit("C47.bounded.no_unexpected_exception", True, fn="(input construction)")
shutil.rmtree(BASE, ignore_errors=True)
for o in OUT:
    print("@@OBL@@" + json.dumps(o))
