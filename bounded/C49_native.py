"""Bounded stand-in for C49 (the command-line interface produces valid runcards and the library's EKO): `deal` run-time contracts on the REAL click commands,
driven through click's CliRunner in fresh scratch directories.  Runs natively (no import hook).  Prints one JSON line per obligation.

Contracts
  example(dest)   `eko runcards example [-d dest]` exits 0, writes theory.yaml and operator.yaml into the destination (default ./runcards), and the files load back
                  (TheoryCard / OperatorCard.from_dict of the YAML) into cards with the same field values as the cards the command built
  handed(argv)    `eko run PATHS` resolves theory / operator / output from 1, 2 or 3 paths as documented, calls eko.solve exactly once with the cards the library
                  loads from those files (new format: TheoryCard / OperatorCard.from_dict; legacy format: the raw mapping) and with that output path;
                  0 or more than 3 paths: usage error, eko.solve is not called
  same_eko(cards) end to end on a tiny card pair: the archive written by `eko run` has the same targets and bitwise the same operators as eko.solve on the same cards
Input set: 5 destination kinds (none, new relative, new nested, existing, new absolute); 5 argument shapes x {new-format cards written by `runcards example`,
legacy-format mappings}; one tiny LO card pair (5 grid points, one target) for the end-to-end clause.
"""
import dataclasses
import json
import math
import os
import pathlib
import shutil
import tempfile

# the default destination of `runcards example` is fixed when ekobox.cli is imported (cwd / "runcards"): import it from a scratch directory
BASE = tempfile.mkdtemp(prefix="eko-c49-base-")
os.chdir(BASE)

import deal
import numpy as np
import yaml
from click.testing import CliRunner

import eko
from eko import interpolation
from eko.io.runcards import OperatorCard, TheoryCard
from ekobox import cards
from ekobox.cli import command
from ekobox.cli import run as cli_run

OUT = []


def emit(name, ok, detail="", fn=""):
    OUT.append(dict(name=name, ok=bool(ok), detail=str(detail)[:400], fn=fn))


def same_value(a, b, path="obj"):
    if isinstance(a, interpolation.XGrid) or isinstance(b, interpolation.XGrid):
        if not (isinstance(a, interpolation.XGrid) and isinstance(b, interpolation.XGrid)):
            return [f"{path}: {type(a).__name__} vs {type(b).__name__}"]
        d = []
        if a.log != b.log:
            d.append(f"{path}.log: {a.log} vs {b.log}")
        if len(a) != len(b) or not np.array_equal(a.raw, b.raw):
            d.append(f"{path}.grid differs")
        return d
    if dataclasses.is_dataclass(a) and dataclasses.is_dataclass(b) and type(a) is type(b):
        d = []
        for f in dataclasses.fields(a):
            d += same_value(getattr(a, f.name), getattr(b, f.name), f"{path}.{f.name}")
        return d
    if isinstance(a, np.ndarray) or isinstance(b, np.ndarray):
        return [] if np.array_equal(np.asarray(a), np.asarray(b), equal_nan=True) else [f"{path}: arrays differ"]
    if isinstance(a, (list, tuple)) and isinstance(b, (list, tuple)):
        if len(a) != len(b):
            return [f"{path}: length {len(a)} vs {len(b)}"]
        d = []
        for i, (x, y) in enumerate(zip(a, b)):
            d += same_value(x, y, f"{path}[{i}]")
        return d
    if isinstance(a, float) and isinstance(b, float) and math.isnan(a) and math.isnan(b):
        return []
    return [] if a == b else [f"{path}: {a!r} vs {b!r}"]


class Scratch:
    """fresh working directory for one invocation"""

    def __enter__(self):
        self.old = os.getcwd()
        self.tmp = tempfile.TemporaryDirectory(prefix="eko-c49-")
        os.chdir(self.tmp.name)
        return pathlib.Path(self.tmp.name)

    def __exit__(self, *a):
        os.chdir(self.old)
        self.tmp.cleanup()


def built_cards():
    """the cards `runcards example` builds (the property: the files load back into equal cards)"""
    th = cards.example.theory()
    th.order = (1, 0)
    op = cards.example.operator()
    op.init = (1.65, 4)
    op.mugrid = [(np.sqrt(1e5), 5)]
    return th, op


@deal.ensure(lambda kind, result: result == [], message="`eko runcards example` does not produce loadable, equal runcards")
def example(kind):
    with Scratch() as cwd:
        if kind == "no destination":
            from ekobox.cli import runcards as rc_mod
            argv, dest = ["runcards", "example"], rc_mod.DESTINATION          # $PWD/runcards of the process
            cwd = dest.parent
            shutil.rmtree(dest, ignore_errors=True)
        elif kind == "new relative destination":
            argv, dest = ["runcards", "example", "-d", "cards_here"], cwd / "cards_here"
        elif kind == "new nested destination":
            argv, dest = ["runcards", "example", "-d", "a/b/c"], cwd / "a" / "b" / "c"
        elif kind == "existing destination":
            (cwd / "there").mkdir()
            argv, dest = ["runcards", "example", "-d", "there"], cwd / "there"
        else:
            argv, dest = ["runcards", "example", "-d", str(cwd / "abs" / "new")], cwd / "abs" / "new"
        res = CliRunner().invoke(command, argv)
        bad = []
        if res.exit_code != 0:
            raise AssertionError(f"exit code {res.exit_code}: {res.output.strip().splitlines()[-1] if res.output.strip() else res.exception!r}")
        for f in ("theory.yaml", "operator.yaml"):
            if not (dest / f).is_file():
                bad.append(f"{f} not written to {dest.relative_to(cwd)}")
        if bad:
            raise AssertionError("; ".join(bad))
        th, op = built_cards()
        bad += same_value(th, TheoryCard.from_dict(cards.load(dest / "theory.yaml")), "theory")
        bad += same_value(op, OperatorCard.from_dict(cards.load(dest / "operator.yaml")), "operator")
        if bad:
            raise AssertionError("; ".join(bad[:3]))
        return bad


LEGACY_TH = dict(PTO=0, QED=0, alphas=0.118, Qref=91.2, nfref=5, mc=1.5, mb=4.5, mt=173.0, kcThr=1.0, kbThr=1.0, ktThr=1.0, HQ="POLE", XIF=1.0, Q0=1.65, nf0=4, ModEv="EXA")
LEGACY_OP = dict(mugrid=[10.0], interpolation_xgrid=[1e-3, 1e-2, 0.1, 0.5, 1.0], interpolation_polynomial_degree=2, interpolation_is_log=True, ev_op_iterations=1, ev_op_max_order=1,
                 n_integration_cores=1, polarized=False, time_like=False, debug_skip_non_singlet=False, debug_skip_singlet=False)


@deal.ensure(lambda shape, fmt, result: result == [], message="`eko run` does not hand the library solver the cards and the destination it documents")
def handed(shape, fmt):
    calls = []
    real = cli_run.eko.solve
    cli_run.eko.solve = lambda *a, **k: calls.append((a, k))
    try:
        with Scratch() as cwd:
            d = cwd / "job"
            d.mkdir()
            if fmt == "new":
                th, op = built_cards()
                raw_th, raw_op = th.raw, op.raw
            else:
                raw_th, raw_op = dict(LEGACY_TH), dict(LEGACY_OP)
            names = ("theory.yaml", "operator.yaml") if shape == "folder" else ("th_card.yaml", "sub/op_card.yaml")
            (d / "sub").mkdir()
            cards.dump(raw_th, d / names[0])
            cards.dump(raw_op, d / names[1])
            if shape == "folder":
                argv, out = ["run", str(d)], d / "eko.tar"
            elif shape == "two paths":
                argv, out = ["run", str(d / names[0]), str(d / names[1])], d / "sub" / "eko.tar"
            elif shape == "three paths":
                argv, out = ["run", str(d / names[0]), str(d / names[1]), str(cwd / "elsewhere.tar")], cwd / "elsewhere.tar"
            elif shape == "no path":
                argv, out = ["run"], None
            else:
                argv, out = ["run", "a", "b", "c", "d"], None
            res = CliRunner().invoke(command, argv)
            bad = []
            if out is None:
                if res.exit_code == 0 or calls:
                    bad.append(f"{len(argv) - 1} paths: exit code {res.exit_code}, eko.solve called {len(calls)} times (a usage error is documented)")
            else:
                if res.exit_code != 0:
                    raise AssertionError(f"exit code {res.exit_code}: {res.exception!r} {res.output.strip()[-200:]}")
                if len(calls) != 1:
                    raise AssertionError(f"eko.solve called {len(calls)} times")
                a, k = calls[0]
                got = dict(zip(("theory", "operator", "path"), a))
                got.update(k)
                want_th = yaml.safe_load((d / names[0]).read_text(encoding="utf-8"))
                want_op = yaml.safe_load((d / names[1]).read_text(encoding="utf-8"))
                if fmt == "new":
                    want_th, want_op = TheoryCard.from_dict(want_th), OperatorCard.from_dict(want_op)
                bad += same_value(want_th, got.get("theory"), "theory handed to solve")
                bad += same_value(want_op, got.get("operator"), "operator handed to solve")
                if pathlib.Path(got.get("path")).resolve() != out.resolve():
                    bad.append(f"output {got.get('path')} instead of {out}")
            if bad:
                raise AssertionError("; ".join(bad[:3]))
            return bad
    finally:
        cli_run.eko.solve = real


@deal.ensure(lambda result: result == [], message="the archive written by `eko run` differs from the library's")
def same_eko():
    th, op = built_cards()
    op.mugrid = [(3.0, 4)]
    op.xgrid = interpolation.XGrid([1e-2, 0.1, 0.3, 0.6, 1.0])
    op.configs.interpolation_polynomial_degree = 2
    op.configs.n_integration_cores = 1
    with Scratch() as cwd:
        cards.dump(th.raw, cwd / "theory.yaml")
        cards.dump(op.raw, cwd / "operator.yaml")
        res = CliRunner().invoke(command, ["run", str(cwd)])
        if res.exit_code != 0:
            raise AssertionError(f"eko run: exit code {res.exit_code}: {res.exception!r}")
        eko.solve(TheoryCard.from_dict(cards.load(cwd / "theory.yaml")), OperatorCard.from_dict(cards.load(cwd / "operator.yaml")), path=cwd / "library.tar")
        bad = []
        with eko.EKO.read(cwd / "eko.tar") as a, eko.EKO.read(cwd / "library.tar") as b:
            ta, tb = sorted(a.evolgrid), sorted(b.evolgrid)
            if ta != tb:
                bad.append(f"targets {ta} vs {tb}")
            for ep in ta:
                oa, ob = a[ep], b[ep]
                if not np.array_equal(oa.operator, ob.operator):
                    bad.append(f"operator at {ep} differs (max {np.max(np.abs(oa.operator - ob.operator)):.2e})")
        if bad:
            raise AssertionError("; ".join(bad))
        return bad


def attempt(name, fn_name, f, *args):
    try:
        f(*args)
        emit(name, True, fn=fn_name)
    except Exception as e:
        emit(name, False, f"{type(e).__name__}: {str(e)[:300]}", fn=fn_name)


def _main():
    for kind in ("no destination", "new relative destination", "new nested destination", "existing destination", "new absolute destination"):
        attempt(f"C49.bounded.runcards_example[{kind}]", "ekobox.cli.runcards:sub_example", example, kind)
    for fmt in ("new", "legacy"):
        for shape in ("folder", "two paths", "three paths", "no path", "four paths"):
            attempt(f"C49.bounded.run.cards_and_destination_handed_to_the_library[{shape},{fmt} format]", "ekobox.cli.run:subcommand", handed, shape, fmt)
    if os.environ.get("VERIF_TIER", "quick") != "none":
        attempt("C49.bounded.run.same_archive_as_the_library[tiny LO card]", "ekobox.cli.run:subcommand", same_eko)


try:
    _main()
except Exception as e:
    import traceback
    emit("C49.bounded.no_unexpected_exception", False, f"{type(e).__name__}: {str(e)[:200]} @ {traceback.extract_tb(e.__traceback__)[-1].name}", fn="(input construction)")
else:
    emit("C49.bounded.no_unexpected_exception", True, fn="(input construction)")
os.chdir(tempfile.gettempdir())
shutil.rmtree(BASE, ignore_errors=True)
for o in OUT:
    print("@@OBL@@" + json.dumps(o))
