"""C01 -- an EKO whose target equals its initial point is the identity operator.

Contract on Operator.compute (unity shortcut) + PhysicalOperator.ad_to_evol_map + OperatorBase.to_flavor_basis_tensor:
  requires  q2_from == q2_to (the same symbolic positive scale), nf in 3..6, order in {1..4} x {0,1,2}, skip flags false and
            (sv_mode != expanded  or  xif2 == 1  or  is_threshold)                      -- the statement's proviso
  ensures   with T, E = ad_to_evol_map(op_members, nf, q2_to, qed).to_flavor_basis_tensor(qed):
            T[a,:,b,:] == delta_ab 1 for a, b in {g, six quarks, six antiquarks}; photon: 1 on the diagonal with QED, whole row and
            column 0 in pure QCD; E == 0
Operator objects are built with object.__new__ and exactly the fields compute() reads (the couplings in __init__ are not on the path of
this property); `integrate` is replaced by its assumed contract "fills the members with arbitrary values", so a shortcut that is not
taken makes the identity goal fail.  Grid sizes 1..3 (the construction is size-uniform).
"""
from fractions import Fraction as Q

import numpy as np

from pyvc import terms as T
from pyvc import vnp
from pyvc.replay import script
from contracts.common import symmat
from contracts.C31 import PIDS

REPLAY = '''
def replay():
    """native: Operator.compute at q2_from == q2_to, no integration allowed"""
    from eko.evolution_operator import Operator
    from eko.evolution_operator.physical import PhysicalOperator
    from eko.io.types import ScaleVariationsMethod as SVM
    from eko import basis_rotation as br
    out = []
    class X: pass
    for order in ((1, 0), (2, 0), (3, 0), (4, 0), (1, 1), (2, 2), (4, 1)):
        for nf in (3, 4, 5, 6):
            for mod, xif2, thr in ((None, 1.0, False), (SVM.EXPONENTIATED, 2.0, False), (SVM.EXPANDED, 1.0, False), (SVM.EXPANDED, 2.0, True)):
                op = object.__new__(Operator)
                op.config = dict(order=order, ModSV=mod, xif2=xif2, debug_skip_singlet=False, debug_skip_non_singlet=False, method="iterate-exact", use_fhmruvv=False)
                man = X(); man.interpolator = X(); man.interpolator.xgrid = X(); man.interpolator.xgrid.size = 3
                op.managers = man; op.nf = nf; op.q2_from = op.q2_to = 50.0; op.is_threshold = thr; op.op_members = {}; op.order = order
                op.integrate = lambda: (_ for _ in ()).throw(RuntimeError("integrate() reached"))
                try:
                    op.compute()
                    qed = order[1] > 0
                    Tv, Te = PhysicalOperator.ad_to_evol_map(op.op_members, nf, 50.0, qed).to_flavor_basis_tensor(qed)
                except Exception as e:
                    out.append(f"order {order} nf {nf} sv {mod}: {type(e).__name__}: {e}"); continue
                for a, pa in enumerate(br.flavor_basis_pids):
                    for b, pb in enumerate(br.flavor_basis_pids):
                        want = np.eye(3) if (a == b and (pa != 22 or qed)) else np.zeros((3, 3))
                        if not np.allclose(Tv[a, :, b, :], want, atol=1e-14): out.append(f"order {order} nf {nf} sv {mod}: block ({pa},{pb}) is not {'1' if a==b else '0'}")
    return bool(out), "; ".join(sorted(set(out))[:6]) if out else "native unity shortcut yields the identity on every channel"
'''


def run(chk):
    from eko.evolution_operator import Operator
    from eko.evolution_operator.physical import PhysicalOperator
    from eko.io.types import ScaleVariationsMethod as SVM
    from eko.member import OpMember

    rp = script(REPLAY, kind="identity_operator_oracle")
    chk.under_contract("eko.evolution_operator:Operator.compute", "eko.evolution_operator:Operator.initialize_op_members", "eko.evolution_operator:Operator.copy_ns_ops",
                       "eko.evolution_operator:Operator.labels", "eko.evolution_operator:Operator.sv_mode", "eko.evolution_operator.physical:PhysicalOperator.ad_to_evol_map",
                       "eko.member:OperatorBase.to_flavor_basis_tensor", "eko.evolution_operator.flavors:*")
    chk.trust("assumed contract of Operator.integrate: overwrites the members with arbitrary values (numerical integration is outside the verifier's reach)",
              "grid-size uniformity (grid sizes 1..3 are executed)", "Atlas.path((mu0^2, nf0)) from origin (mu0^2, nf0) is a single segment (C19) and join of a single part is that part (C02)")
    chk.uncovered("archive write/read of the result (C36)", "float deviations of order 1e-16 (A1)")
    q2, xif = T.var("q2"), T.var("xif2")

    class X:
        pass

    cnt = {"i": 0}

    def run_one(chk, task):
        order, nf, (mod, xif2, thr), n = task
        tag = f"C01[order={order},nf={nf},sv={mod.value if mod else None},xif2={'sym' if isinstance(xif2, T.Sym) else xif2},thr={thr},n={n}]"
        fn = "eko.evolution_operator:Operator.compute"
        qed = order[1] > 0

        def body():
            op = object.__new__(Operator)
            op.config = dict(order=order, ModSV=mod, xif2=xif2, debug_skip_singlet=False, debug_skip_non_singlet=False, method="iterate-exact", use_fhmruvv=False,
                             polarized=False, time_like=False, ev_op_iterations=3, ev_op_max_order=(3, 0), n_integration_cores=1, n3lo_ad_variation=(0,) * 7)
            man = X()
            man.interpolator = X()
            man.interpolator.xgrid = X()
            man.interpolator.xgrid.size = n
            op.managers, op.nf, op.q2_from, op.q2_to, op.is_threshold, op.op_members, op.order = man, nf, q2, q2, thr, {}, order
            op.a = ((T.var("as0"), T.var("aem0")), (T.var("as1"), T.var("aem1")))

            def integrate():
                for lab in list(op.op_members):
                    cnt["i"] += 1
                    op.op_members[lab] = OpMember(symmat(f"int{cnt['i']}_", n), symmat(f"ie{cnt['i']}_", n))

            op.integrate = integrate
            op.compute()
            return PhysicalOperator.ad_to_evol_map(op.op_members, nf, q2, qed).to_flavor_basis_tensor(qed)

        req = [q2 > 0] + ([xif2 > 0] if isinstance(xif2, T.Sym) else [])
        for pt, pc, res in chk.run_paths(tag, body, req, fn=fn, replay=rp):
            Tv, Te = res
            I, Z = vnp.eye(n), vnp.zeros((n, n))
            for a, pa in enumerate(PIDS):
                wantT = vnp.zeros((n, 14, n))
                if pa != 22 or qed:
                    wantT[:, a, :] = I
                chk.eq_block(f"{pt}.T[{pa},*]", Tv[a], wantT, fn=fn, replay=rp,
                             goal="row of the flavour tensor: identity on the own channel, nothing else (photon decoupled in pure QCD)")
                chk.eq_block(f"{pt}.E[{pa},*]", Te[a], vnp.zeros((n, 14, n)), fn=fn, replay=rp, goal="error tensor == 0")
        chk.configs += 1

    orders = [(o, e) for o in (1, 2, 3, 4) for e in (0, 1, 2)]
    svs = [(None, Q(1), False), (None, Q(1), True), (SVM.EXPONENTIATED, xif, False), (SVM.EXPONENTIATED, xif, True), (SVM.EXPANDED, Q(1), False), (SVM.EXPANDED, xif, True), (SVM.EXPANDED, Q(1), True)]
    tasks = []
    for oi, order in enumerate(orders):
        for nf in (3, 4, 5, 6):
            for si, sv_ in enumerate(svs):
                for n in ((1, 2, 3) if chk.tier == "thorough" else (2,)):
                    # quick tier: a covering subset (every (order, nf) with >= 2 sv settings, every sv setting with many (order, nf))
                    if chk.tier == "thorough" or (oi + nf + si) % 3 == 0 or (order in ((1, 0), (4, 2)) and nf in (3, 6)):
                        tasks.append((order, nf, sv_, n))
    chk.parallel(tasks, run_one)
    chk.extra["exhaustive"] = chk.tier == "thorough"
