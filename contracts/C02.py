"""C02 -- each final EKO is the ordered product of the parts along its matched path; every part is computed and stored once.

 * _dot4(A,B)[a,i,c,k] == sum_{b,j} A[a,i,b,j] B[b,j,c,k]          (fully symbolic tensors of shapes (2,2,2,2), (3,1,3,1), (1,3,1,3))
 * _dotop: value = _dot4(values); error = _dot4(|op1|,|err2|) + _dot4(|err1|,|op2|) when both errors exist, else None
 * join([e_1..e_k]) == e_k . ... . e_1  (later steps to the left), k = 1..7: _dotop replaced by its contract over free non-commuting
   symbols, so the equality of words is an identity for operators of every size
 * _elements(ep, atlas) is the image of atlas.matched_path(ep): Segment(o,t,nf) -> Evolution(o,t,nf, cliff: see C53),
   Matching(s,hq,inv) -> the same fields            (symbolic scales and walls, all 16 (nf0,nff) pairs, every feasible path)
 * _create(evolgrid, atlas): no duplicates, and as a set the union of _elements(ep)   (1-3 targets, equal and distinct scale patterns)
 * managed.solve (loop structure, EKO / parts replaced by ghost inventories): every recipe key is written exactly once with
   parts.evolve / parts.match of that recipe, every target is written once with join(retrieve(ep)) in path order.
"""
from fractions import Fraction as Q

import numpy as np

from pyvc import terms as T
from pyvc import vnp
from pyvc.free import Free
from pyvc.replay import script

REPLAY = '''
def replay():
    from eko.runner.operators import _dot4, _dotop, join
    from eko.io.items import Operator
    rng = np.random.default_rng(17)
    out = []
    def rnd(shape): return rng.normal(size=shape)
    for shape in ((2, 2, 2, 2), (3, 1, 3, 1), (2, 3, 2, 3)):
        A, B = rnd(shape), rnd(shape)
        n = shape[0] * shape[1]
        ref = (A.reshape(n, n) @ B.reshape(n, n)).reshape(shape)
        if not np.allclose(_dot4(A, B), ref): out.append(f"_dot4 is not the matrix product for shape {shape}")
    ops = [Operator(rnd((2, 2, 2, 2)), np.abs(rnd((2, 2, 2, 2)))) for _ in range(4)]
    ref = np.eye(4)
    for o in ops: ref = o.operator.reshape(4, 4) @ ref
    if not np.allclose(join(ops).operator.reshape(4, 4), ref): out.append("join is not the product with later steps to the left")
    a, b = ops[0], ops[1]
    e = _dotop(a, b)
    want = _dot4(np.abs(a.operator), np.abs(b.error)) + _dot4(np.abs(a.error), np.abs(b.operator))
    if not np.allclose(e.error, want): out.append("_dotop error rule")
    if _dotop(a, Operator(b.operator, None)).error is not None: out.append("_dotop error must be None if one error is missing")
    return bool(out), "; ".join(out) if out else "native _dot4 / _dotop / join behave as the ordered product"
'''


def run(chk):
    from eko.runner import operators as ops_mod, recipes, managed
    from eko.runner.operators import _dot4, _dotop, join
    from eko.io.items import Operator, Evolution, Matching, Target
    from eko import matchings
    from eko.matchings import Atlas, Segment
    from eko.quantities.heavy_quarks import MatchingScales
    from contracts.common import symmat

    rp = script(REPLAY, kind="ordered_product_oracle")
    chk.under_contract("eko.runner.operators:_dot4", "eko.runner.operators:_dotop", "eko.runner.operators:join", "eko.runner.operators:_retrieve",
                       "eko.runner.recipes:_elements", "eko.runner.recipes:_create", "eko.io.items:Evolution.from_atlas", "eko.io.items:Matching.from_atlas",
                       "eko.runner.managed:solve")
    chk.trust("np.einsum is shape-uniform (the contraction pattern proved at small shapes holds for every shape)", "Atlas.matched_path contract (C19)",
              "Python set/list semantics (executed by CPython; element equality forks)", "inventories behave as maps (C37)")

    # ---- _dot4 ----------------------------------------------------------------------------------------------------------------
    for shape in ((2, 2, 2, 2), (3, 1, 3, 1), (1, 3, 1, 3)):
        n = shape[0] * shape[1]
        A = symmat("A", n).reshape(shape)
        B = symmat("B", n).reshape(shape)
        want = (A.reshape(n, n) @ B.reshape(n, n)).reshape(shape)
        chk.eq_block(f"C02._dot4{list(shape)}", _dot4(A, B), want, fn="eko.runner.operators:_dot4", goal="R[a,i,c,k] == sum_{b,j} A[a,i,b,j] B[b,j,c,k]", replay=rp)
    # ---- _dotop ---------------------------------------------------------------------------------------------------------------
    sh = (2, 1, 2, 1)
    A, EA, B, EB = (symmat(x, 2).reshape(sh) for x in ("A", "EA", "B", "EB"))
    r = _dotop(Operator(A, EA), Operator(B, EB))
    chk.eq_block("C02._dotop.value", r.operator, _dot4(A, B), fn="eko.runner.operators:_dotop", goal="value == _dot4(op1, op2)", replay=rp)
    chk.eq_block("C02._dotop.error", r.error, _dot4(vnp.abs(A), vnp.abs(EB)) + _dot4(vnp.abs(EA), vnp.abs(B)), fn="eko.runner.operators:_dotop",
                 goal="error == |op1| . |err2| + |err1| . |op2|", replay=rp)
    for nm, o1, o2 in (("first", Operator(A, None), Operator(B, EB)), ("second", Operator(A, EA), Operator(B, None)), ("both", Operator(A, None), Operator(B, None))):
        chk.ground(f"C02._dotop.error_none[{nm}]", _dotop(o1, o2).error is None, fn="eko.runner.operators:_dotop", goal="error is None unless both errors exist", replay=rp)
    # ---- join: order of the product, k = 1..7 -----------------------------------------------------------------------------------
    saved = ops_mod._dotop
    ops_mod._dotop = lambda x, y: Operator(x.operator * y.operator, None)       # contract of _dotop over free symbols
    try:
        for k in range(1, 8):
            els = [Operator(Free.sym(f"e{i}"), None) for i in range(1, k + 1)]
            got = ops_mod.join(els).operator
            word = tuple(f"e{i}" for i in range(k, 0, -1))
            chk.ground(f"C02.join[k={k}]", isinstance(got, Free) and set(got.t) == {word} and got.t[word] == 1, fn="eko.runner.operators:join",
                       goal="join([e1..ek]) == e_k . ... . e_1", detail=repr(got), replay=rp)
    finally:
        ops_mod._dotop = saved

    # ---- the atlas the runner builds from the cards: the wall of each heavy quark is ITS matching scale (k_q m_q)^2, in the order charm, bottom, top -- also when
    #      the ratios put the charm wall above the bottom wall (the walls are positional: sorting them would hand the charm matching the bottom scale)
    from eko.runner import commons as _commons

    class _B:
        pass

    fna = "eko.runner.commons:atlas"
    chk.under_contract(fna)
    for lab, ratios in (("ordered", (1.0, 1.0, 1.0)), ("charm_wall_above_bottom_wall", (4.0, 1.0, 1.0)), ("top_wall_below_bottom_wall", (1.0, 2.0, 0.02))):
        th_, op_ = _B(), _B()
        th_.heavy = _B()
        th_.heavy.matching_ratios = list(ratios)
        op_.configs = _B()
        op_.configs.evolution_method = "truncated"
        op_.mu20, op_.init = 2.7225, (1.65, 4)
        m2 = [2.0, 20.0, 30000.0]
        saved_m = _commons.runcards.masses
        _commons.runcards.masses = lambda t, m, m2=m2: list(m2)
        try:
            at_ = _commons.atlas(th_, op_)
        except Exception as e:  # noqa: BLE001
            chk.raised(f"C02.atlas_of_the_cards[{lab}]", e, fn=fna, replay=rp)
            continue
        finally:
            _commons.runcards.masses = saved_m
        if True:
            num_ = lambda w: float(complex(T.evalmp(T.lift(w), {}, 30)).real) if isinstance(w, T.Sym) else float(w)  # noqa: E731
            is_inf = lambda w: w is vnp.INF or (isinstance(w, float) and w == float("inf"))  # noqa: E731
            walls_ = [num_(w) for w in list(at_.walls)[1:-1]]
            want_ = [k * k * m for k, m in zip(ratios, m2)]
            okw = len(walls_) == 3 and all(abs(a - b) <= 1e-12 * b for a, b in zip(walls_, want_)) and num_(list(at_.walls)[0]) == 0.0 and is_inf(list(at_.walls)[-1])
            oko = abs(num_(at_.origin[0]) - 2.7225) <= 1e-15 and at_.origin[1] == 4
            chk.ground(f"C02.atlas_of_the_cards[{lab}]", okw and oko, fn=fna, replay=rp, detail=f"walls {list(at_.walls)}, origin {at_.origin}; wanted interior walls {want_}",
                       goal="walls == [0, (k_c m_c)^2, (k_b m_b)^2, (k_t m_t)^2, inf] in quark order, origin == (mu0^2, nf0) of the operator card")

    # ---- _elements / _create over symbolic atlases ----------------------------------------------------------------------------------
    c, b, t, mu0 = (T.var(x) for x in ("c", "b", "t", "mu0"))
    walls = [c, b, t]
    base = [mu0 > 0, c > 0, c <= b, b <= t]

    def same(x, y):
        return T.lift(x).n == T.lift(y).n if isinstance(x, T.Sym) or isinstance(y, T.Sym) else x == y

    def img_ok(recs, blocks, atlas, hyp):
        """recipes are the image of the matched path; cliff flags decided under the path condition"""
        from pyvc import smt
        if len(recs) != len(blocks):
            return False, f"{len(recs)} recipes for {len(blocks)} blocks"
        for r, bl in zip(recs, blocks):
            if isinstance(bl, Segment):
                if not (isinstance(r, Evolution) and same(r.origin, bl.origin) and same(r.target, bl.target) and r.nf == bl.nf):
                    return False, f"{r} vs {bl}"
                # the meaning of the cliff flag is the subject of C53 (continuity); C02 only fixes the path fields
            else:
                if not (isinstance(r, Matching) and same(r.scale, bl.scale) and r.hq == bl.hq and (r.inverse is bl.inverse or r.inverse == bl.inverse)):
                    return False, f"{r} vs {bl}"
        return True, ""

    def spec_blocks(nf0, nff, muf):
        """the flavour-number path of the statement, written independently of Atlas: unit steps in nf, junctions on the wall of the heavier of the two
        neighbouring flavour numbers, one matching per junction for that heavy quark, inverse iff the path lowers the number of flavours"""
        sg = (nff > nf0) - (nff < nf0)
        nfs = list(range(nf0, nff + sg, sg)) if sg else [nf0]
        wall = {4: c, 5: b, 6: t}
        out, cur = [], mu0
        for lo, hi in zip(nfs, nfs[1:]):
            w = wall[max(lo, hi)]
            out += [("evolution", cur, w, lo), ("matching", w, max(lo, hi), sg < 0)]
            cur = w
        return out + [("evolution", cur, muf, nfs[-1])]

    def on_spec_path(recs, spec):
        if len(recs) != len(spec):
            return False, f"{len(recs)} parts for a path of {len(spec)} steps"
        for r, sp in zip(recs, spec):
            if sp[0] == "evolution":
                if not (isinstance(r, Evolution) and same(r.origin, sp[1]) and same(r.target, sp[2]) and r.nf == sp[3]):
                    return False, f"{r} instead of the evolution {sp[1]} -> {sp[2]} with nf = {sp[3]}"
            elif not (isinstance(r, Matching) and same(r.scale, sp[1]) and r.hq == sp[2] and bool(r.inverse) == sp[3]):
                return False, f"{r} instead of the {'inverse ' if sp[3] else ''}matching of heavy quark {sp[2]} at {sp[1]}"
        return True, ""

    for nf0 in (3, 4, 5, 6):
        for nff in (3, 4, 5, 6):
            muf = T.var("muf")
            tag = f"C02._elements[{nf0}->{nff}]"
            atlas = Atlas(MatchingScales(list(walls)), (mu0, nf0))
            for pt, pc, recs in chk.run_paths(tag, lambda: recipes._elements((muf, nff), atlas), base + [muf > 0], fn="eko.runner.recipes:_elements", replay=rp):
                blocks = atlas.matched_path((muf, nff))
                ok, why = img_ok(recs, blocks, atlas, base + [muf > 0] + list(pc))
                chk.ground(f"{pt}.image_of_matched_path", ok, fn="eko.runner.recipes:_elements", goal="recipes == image of matched_path (origin, target, nf resp. scale, hq, inverse copied)", detail=why, replay=rp)
                ok2, why2 = on_spec_path(recs, spec_blocks(nf0, nff, muf))
                chk.ground(f"{pt}.parts_along_the_flavour_number_path", ok2, fn="eko.runner.recipes:_elements", goal="the parts of a target are the evolutions and heavy-quark matchings along the flavour-number path from the initial point (unit steps, junctions on the walls, matching of the heavier flavour, inverse iff downward)", detail=why2, replay=rp)
            chk.configs += 1
    # _create: two targets, the patterns (same scale / different scale) x (same nf / different nf)
    mu1, mu2 = T.var("mu1"), T.var("mu2")
    for nf0 in (3, 4):
        atlas = Atlas(MatchingScales(list(walls)), (mu0, nf0))
        for name, grid, extra in (("one", [(mu1, 5)], []), ("two_distinct", [(mu1, 5), (mu2, 5)], [T.cmp("!=", mu1, mu2)]), ("two_equal", [(mu1, 5), (mu1, 5)], []),
                                  ("two_nf", [(mu1, 4), (mu1, 5)], []), ("three", [(mu1, 4), (mu2, 6), (mu1, 6)], [T.cmp("!=", mu1, mu2)]),
                                  # a target exactly ON a matching scale (lower nf) next to one beyond it: the same stretch once as final segment, once followed by the matching
                                  ("on_wall_then_beyond", [(b, 4), (mu2, 5)], [mu2 > b, mu0 < b, c < b]), ("beyond_then_on_wall", [(mu2, 5), (b, 4)], [mu2 > b, mu0 < b, c < b])):
            tag = f"C02._create[nf0={nf0},{name}]"
            req = base + [mu1 > 0, mu2 > 0] + extra
            for pt, pc, res in chk.run_paths(tag, lambda: recipes._create(grid, atlas), req, fn="eko.runner.recipes:_create", replay=rp):
                hyp = req + list(pc)
                # no duplicates (structurally) and set equality with the union
                keys = [tuple(T.lift(v).n if isinstance(v, (T.Sym, int, Q)) and not isinstance(v, bool) else v for v in (type(r).__name__,) + tuple(r.__dict__.values())) for r in res]
                chk.ground(f"{pt}.no_duplicates", len(keys) == len(set(keys)), fn="eko.runner.recipes:_create", goal="every part appears once", detail=str(res), replay=rp)
                union = []
                for ep in grid:
                    for r in recipes._elements(ep, atlas) if False else _elements_under(chk, recipes, ep, atlas, hyp):
                        k = tuple(T.lift(v).n if isinstance(v, (T.Sym, int, Q)) and not isinstance(v, bool) else v for v in (type(r).__name__,) + tuple(r.__dict__.values()))
                        if k not in union:
                            union.append(k)
                chk.ground(f"{pt}.is_union_of_elements", set(keys) == set(union), fn="eko.runner.recipes:_create", goal="as a set: union over targets of _elements(ep)", detail=f"{len(keys)} vs {len(union)}", replay=rp)
            chk.configs += 1

    # ---- managed.solve: loop structure over ghost inventories -------------------------------------------------------------------------
    from eko.runner import parts as parts_mod

    log = []

    class Inv(dict):
        def __init__(self, name):
            super().__init__()
            self.name = name
        def __setitem__(self, k, v):
            log.append(("set", self.name, k, v))
            super().__setitem__(k, v)
        def __delitem__(self, k):
            log.append(("del", self.name, k))        # dropping the in-memory payload keeps the stored item (C37)
        def __getitem__(self, k):
            log.append(("get", self.name, k))
            return super().__getitem__(k)

    class FakeEKO:
        def __init__(self):
            self.parts, self.parts_matching, self.operators = Inv("parts"), Inv("parts_matching"), Inv("operators")
            self.recipes, self.recipes_matching = [], []
            self.theory_card = self.operator_card = None
        def __delattr__(self, name):
            log.append(("delattr", name))
        def load_recipes(self, recs):
            self.recipes = [r for r in recs if isinstance(r, Evolution)]
            self.recipes_matching = [r for r in recs if isinstance(r, Matching)]

    class FakeBuilder:
        def __init__(self, eko):
            self.eko = eko
        def __enter__(self):
            return self
        def __exit__(self, *a):
            return False
        def load_cards(self, th, op):
            return self
        def build(self):
            return self.eko

    class Card:
        pass

    saved = (managed.EKO, recipes.commons.atlas, ops_mod.commons.atlas, parts_mod.evolve, parts_mod.match, ops_mod._dotop)
    # origin patch 3 (targets above only), 4 and 5 (targets on both sides of the origin patch, at equal and different flavour distances, shared sections)
    SCENARIOS = [
        ("", (Q(1), 3), [(Q(10), 4), (Q(100), 5), (Q(100), 3), (Q(50000), 6)]),
        ("[origin nf=4]", (Q(10), 4), [(Q(100), 5), (Q(1), 3), (Q(5), 4), (Q(50000), 6), (Q(100), 3), (Q(50), 5)]),
        ("[origin nf=5]", (Q(100), 5), [(Q(10), 4), (Q(50000), 6), (Q(1), 3), (Q(60000), 6), (Q(15), 4), (Q(200), 5)]),
    ]
    try:
        for slab, origin, grid in SCENARIOS:
            log.clear()
            eko = FakeEKO()
            atlas = Atlas(MatchingScales([Q(2), Q(20), Q(30000)]), origin)
            opcard = Card()
            opcard.evolgrid = grid
            eko.operator_card = opcard
            managed.EKO = type("E", (), {"create": staticmethod(lambda path, eko=eko: FakeBuilder(eko))})
            recipes.commons.atlas = lambda th, op, atlas=atlas: atlas
            managed.parts.evolve = lambda e, r: Operator(Free.sym(f"ev{hash(r) % 10**6}"), None)
            managed.parts.match = lambda e, r: Operator(Free.sym(f"ma{hash(r) % 10**6}"), None)
            ops_mod._dotop = lambda x, y: Operator(x.operator * y.operator, None)
            managed.solve(None, opcard, "ghost.tar")
            sets = [(inv, k) for (op, inv, k, *_) in [e for e in log if e[0] == "set"]]
            for inv in ("parts", "parts_matching"):
                ks = [k for i, k in sets if i == inv]
                want = eko.recipes if inv == "parts" else eko.recipes_matching
                chk.ground(f"C02.solve{slab}.{inv}.each_recipe_once", sorted(map(repr, ks)) == sorted(map(repr, want)) and len(ks) == len(set(ks)), fn="eko.runner.managed:solve",
                           goal="every recipe is computed and stored exactly once", detail=f"{len(ks)} writes for {len(want)} recipes", replay=rp)
            tset = [k for i, k in sets if i == "operators"]
            chk.ground(f"C02.solve{slab}.targets_once", [repr(k) for k in tset] == [repr(Target.from_ep(ep)) for ep in grid], fn="eko.runner.managed:solve", goal="one final operator per target, in grid order", replay=rp)
            for ep in grid:
                comps = recipes._elements(ep, atlas)
                word = tuple((f"ev{hash(r) % 10**6}" if isinstance(r, Evolution) else f"ma{hash(r) % 10**6}") for r in reversed(comps))
                stored = dict.__getitem__(eko.operators, Target.from_ep(ep)).operator
                chk.ground(f"C02.solve{slab}.target[{ep}]", isinstance(stored, Free) and set(stored.t) == {word}, fn="eko.runner.managed:solve",
                           goal="stored operator == product of its parts along the matched path, later steps to the left", detail=repr(stored), replay=rp)
    finally:
        managed.EKO, recipes.commons.atlas, ops_mod.commons.atlas, managed.parts.evolve, managed.parts.match, ops_mod._dotop = saved
    chk.extra["exhaustive"] = True


def _elements_under(chk, recipes, ep, atlas, hyp):
    """_elements on the unique feasible path under the hypothesis hyp"""
    from pyvc.explore import explore
    paths = explore(lambda: recipes._elements(ep, atlas), hyp)
    out = []
    for p in paths:
        if p.exc is None:
            out.extend(p.value)
    return out
