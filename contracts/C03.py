"""C03 -- EKOs do not depend on parallel schedule, target order or co-computed targets.  BOUNDED stand-in (never counted as proved).

Worker processes and bitwise equality of floating-point results are outside the symbolic engine (sequential real arithmetic).  The deductive neighbours are claimed
elsewhere: every part is computed once and joined in path order (C02), couplings do not depend on the query history (C17).  What is checked here, by a `deal` run-time
contract around the REAL solver on a tiny NLO card pair with one threshold crossing (bounded/C03_native.py):
   same_operators(config)  for every target of the configuration, operator and integration error are bitwise those of the reference run (one worker, targets in the given order)
configurations: n_integration_cores in {2, 3, -1}; all permutations of the three targets; every non-empty proper subset of the targets (quick tier: a covering subset).
Not covered: other cards, machines with a different CPU count.
"""
LEVEL = "exploration"


def run(chk):
    from pyvc import bounded

    chk.under_contract("eko.runner.managed:solve", "eko.evolution_operator:Operator.compute", "eko.evolution_operator:Operator.integrate", "eko.runner.recipes:create", "eko.runner.operators:join")
    chk.trust("BOUNDED: run-time contracts over a finite input set -- no statement about inputs outside it")
    chk.uncovered("card pairs other than the tiny one", "machines with a different number of CPUs (n_integration_cores = -k)", "the JIT-compiled kernels (the run uses the interpreted definitions; C48)")
    chk.bounded_parts.append("everything: deal run-time contracts over the input set stated in bounded/C03_native.py")
    n = bounded.run_native(chk, "C03_native.py", backend="deal-runtime(bounded)", timeout=3000, env_extra={"VERIF_TIER": chk.tier})
    chk.extra["rule"] = "one deal post-condition evaluation per configuration: a full solve, every operator and error array compared bitwise with the reference run"
    chk.extra["evaluations"] = n
    chk.extra["distinct_nontrivial"] = n
    chk.configs += n
