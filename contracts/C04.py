"""C04 -- every supported configuration yields an EKO, others fail cleanly (dispatch-layer clauses).

The real dispatch layer -- quad_ker_ad / quad_ker_qcd / quad_ker_qed / quad_ker_ome, the anomalous-dimension and matching dispatchers of ekore, the
kernel dispatchers, the scale-variation functions, build_ome -- is executed over the COMPLETE finite configuration space
   QCD order 1-4 x QED order 0-2 x 8 solution methods x 3 scale-variation modes x threshold flag x (polarised, time-like) x every sector label x both
   N3LO parametrisations          (matching: order 1-3 x 3 inversion modes x sv modes x (polarised, time-like) x MSbar flag x every label)
with symbolic Mellin moment, couplings and anomalous dimensions; the numerical leaves (splitting functions, matching coefficients, kernel bodies,
the Mellin path and interpolation) are opaque non-zero functions of their arguments.
ensures
  (a) exception safety: each configuration either returns or raises NotImplementedError / ValueError with a non-empty message; no AttributeError,
      TypeError, IndexError, KeyError, UnboundLocalError, ZeroDivisionError ... on any feasible path;
  (b) definite assignment -- no silent zero: whenever an anomalous-dimension dispatcher (unpolarised, polarised, time-like; nf 3-6; every sector) or a
      matching dispatcher returns, every pure-QCD slot below the requested order has been filled from a splitting / matching function; an order that
      the variant does not provide is refused (documented exception: time-like matching beyond NLO);
  (c) refusals that the documentation promises: polarised AND time-like; polarised beyond NNLO; QED singlet / valence with a method other than
      iterate-exact.
  (e) the expansion order ev_op_max_order of the perturbative singlet kernels (a runcard setting): every value either works or is refused.
  (d) no nan from constants: with the literature beta vector (nf 3-6) no real-typed np.sqrt / np.log in the closed-form kernels receives a negative constant.
Not covered: finiteness of the floating-point results beyond (d), the runner above the kernels, Couplings / MSbar numerics.
"""
from fractions import Fraction as Q

import numpy as np

from pyvc import terms as T
from pyvc import vnp
from pyvc.replay import script
from contracts.common import symmat

REPLAY = '''
def replay():
    """native: no silent zero slot and clean refusals in the anomalous-dimension dispatchers"""
    import ekore.anomalous_dimensions.unpolarized.space_like as us
    import ekore.anomalous_dimensions.unpolarized.time_like as ut
    import ekore.anomalous_dimensions.polarized.space_like as ps
    out = []
    N = 2.3 + 0.4j
    for name, mod, extra in (("unpolarised", us, ((0,) * 7, True)), ("polarised", ps, ()), ("time-like", ut, ())):
        for nf in (3, 4, 5):
            for order in (1, 2, 3, 4):
                for mode in (10101, 10201, 10200):
                    try:
                        g = mod.gamma_ns((order, 0), mode, N, nf, *extra)
                    except (NotImplementedError, ValueError) as e:
                        if not str(e): out.append(f"{name} gamma_ns order {order}: refusal without a message")
                        continue
                    except Exception as e:
                        out.append(f"{name} gamma_ns order {order} mode {mode} nf {nf}: {type(e).__name__}: {e}"); continue
                    if np.any(np.asarray(g)[:order] == 0): out.append(f"{name} gamma_ns order {order} mode {mode} nf {nf}: slot(s) {list(np.nonzero(np.asarray(g) == 0)[0])} silently zero")
                try:
                    G = mod.gamma_singlet((order, 0), N, nf, *extra)
                except (NotImplementedError, ValueError):
                    continue
                except Exception as e:
                    out.append(f"{name} gamma_singlet order {order} nf {nf}: {type(e).__name__}: {e}"); continue
                z = [k for k in range(order) if np.all(np.asarray(G)[k] == 0)]
                if z: out.append(f"{name} gamma_singlet order {order} nf {nf}: slot(s) {z} silently zero")
    # finite kernels for every nf with the real closed forms
    import warnings
    from eko.kernels import non_singlet as ns, singlet as s, EvoMethods
    rng = np.random.default_rng(4)
    with warnings.catch_warnings():
        warnings.simplefilter("ignore")
        for nf in (3, 4, 5, 6):
            for order in (1, 2, 3, 4):
                g = (rng.normal(size=order) + 1j * rng.normal(size=order)) * 3.0 ** np.arange(order)
                G = (rng.normal(size=(order, 2, 2)) + 1j * rng.normal(size=(order, 2, 2))) * (3.0 ** np.arange(order))[:, None, None]
                for m in EvoMethods:
                    try:
                        k1 = ns.dispatcher((order, 0), m, g, 0.02, 0.03, nf); k2 = s.dispatcher((order, 0), m, G, 0.02, 0.03, nf, 2, (order, 0))
                    except (NotImplementedError, ValueError):
                        continue
                    if not (np.all(np.isfinite(k1)) and np.all(np.isfinite(k2))): out.append(f"nf={nf} order={order} {m.name}: non-finite kernel ({k1})")
    for order in (2, 3, 4):
        for mo in (1, 2, 3, 6):
            for m in (EvoMethods.PERTURBATIVE_EXACT, EvoMethods.PERTURBATIVE_EXPANDED):
                G = (rng.normal(size=(order, 2, 2)) + 0j)
                try:
                    s.dispatcher((order, 0), m, G, 0.02, 0.03, 4, 1, (mo, 0))
                except (NotImplementedError, ValueError):
                    pass
                except Exception as e:
                    out.append(f"order={order} ev_op_max_order={mo} {m.name}: {type(e).__name__}: {e}")
    return bool(out), "; ".join(out[:5]) if out else "dispatchers fill every slot or refuse; kernels finite"
'''


def leaf_names(mod, keep=()):
    return [n for n in dir(mod) if (n.startswith("gamma_") or n.startswith("A_")) and callable(getattr(mod, n)) and n not in keep]


REPLAY_MATCH = '''
def replay():
    """native: parts.match for every heavy quark, with the operator matrix element replaced by a recorder"""
    from eko.runner import parts
    from eko.io.items import Matching
    from eko.quantities.heavy_quarks import QuarkMassScheme
    seen = {}
    class Fake:
        def __init__(self, config, managers, nf, q2, is_backward, L, is_msbar):
            seen.update(nf=nf, L=L); self.op_members, self.nf = {}, nf
        def compute(self): pass
    class Map:
        def to_flavor_basis_tensor(self, qed): return (np.zeros((1, 1, 1, 1)), None)
    class X: pass
    saved = (parts.ome.OperatorMatrixElement, parts._matching_configs, parts._managers, parts.matching_condition.MatchingCondition.split_ad_to_evol_map)
    parts.ome.OperatorMatrixElement, parts._matching_configs, parts._managers = Fake, (lambda e: {}), (lambda e: None)
    parts.matching_condition.MatchingCondition.split_ad_to_evol_map = classmethod(lambda cls, *a, **k: Map())
    out = []
    try:
        for ratios in ([1.5, 2.5, 3.5], [1.5, 2.5, float("inf")]):
            for hq in (4, 5, 6):
                if ratios[hq - 4] == float("inf"): continue
                e = X(); e.theory_card = X(); e.theory_card.heavy = X(); e.theory_card.order = (2, 0)
                e.theory_card.heavy.squared_ratios, e.theory_card.heavy.masses_scheme = ratios, QuarkMassScheme.POLE
                try:
                    parts.match(e, Matching(20.25, hq, False))
                except Exception as ex:
                    out.append(f"hq={hq}, ratios={ratios}: {type(ex).__name__}: {ex}"); continue
                if seen["nf"] != hq - 1 or not np.isfinite(seen["L"]) or abs(seen["L"] - np.log(ratios[hq - 4])) > 1e-14:
                    out.append(f"hq={hq}, ratios={ratios}: nf={seen['nf']}, L={seen['L']} instead of {np.log(ratios[hq - 4])}")
    finally:
        parts.ome.OperatorMatrixElement, parts._matching_configs, parts._managers, parts.matching_condition.MatchingCondition.split_ad_to_evol_map = saved
    return bool(out), "; ".join(out[:3]) if out else "parts.match builds every matching with its own finite logarithm"
'''


def run(chk):
    import importlib
    from eko import scale_variations as sv
    from eko.kernels import EvoMethods, non_singlet as ns, singlet as s, singlet_qed, valence_qed, non_singlet_qed
    from eko.kernels import as4_evolution_integrals as e4
    qk = importlib.import_module("eko.evolution_operator.quad_ker")
    us = importlib.import_module("ekore.anomalous_dimensions.unpolarized.space_like")
    ut = importlib.import_module("ekore.anomalous_dimensions.unpolarized.time_like")
    ps = importlib.import_module("ekore.anomalous_dimensions.polarized.space_like")
    ome_us = importlib.import_module("ekore.operator_matrix_elements.unpolarized.space_like")
    ome_ut = importlib.import_module("ekore.operator_matrix_elements.unpolarized.time_like")
    ome_ps = importlib.import_module("ekore.operator_matrix_elements.polarized.space_like")
    from ekore.harmonics import cache as hc
    from contracts.C55 import opaque

    rp = script(REPLAY, kind="dispatch_oracle")
    chk.under_contract("eko.evolution_operator.quad_ker:quad_ker_ad", "eko.evolution_operator.quad_ker:quad_ker_qcd", "eko.evolution_operator.quad_ker:quad_ker_qed",
                       "eko.evolution_operator.quad_ker:quad_ker_ome", "eko.evolution_operator.quad_ker:build_ome", "eko.evolution_operator.quad_ker:select_singlet_element",
                       "eko.evolution_operator.quad_ker:select_QEDsinglet_element", "eko.evolution_operator.quad_ker:select_QEDvalence_element",
                       "eko.kernels.non_singlet:dispatcher", "eko.kernels.singlet:dispatcher", "eko.kernels.singlet_qed:dispatcher", "eko.kernels.valence_qed:dispatcher",
                       "eko.kernels.non_singlet_qed:dispatcher", "eko.kernels.non_singlet_qed:exact", "eko.kernels.non_singlet_qed:fixed_alphaem_exact",
                       *[f"ekore.anomalous_dimensions.{v}:{f}" for v in ("unpolarized.space_like", "unpolarized.time_like", "polarized.space_like") for f in ("gamma_ns", "gamma_singlet")],
                       "ekore.anomalous_dimensions.unpolarized.space_like:gamma_ns_qed", "ekore.anomalous_dimensions.unpolarized.space_like:gamma_singlet_qed",
                       "ekore.anomalous_dimensions.unpolarized.space_like:gamma_valence_qed",
                       *[f"ekore.operator_matrix_elements.{v}:{f}" for v in ("unpolarized.space_like", "unpolarized.time_like", "polarized.space_like") for f in ("A_singlet", "A_non_singlet")],
                       "eko.scale_variations.expanded:*", "eko.scale_variations.exponentiated:*")
    chk.trust("numerical leaves (splitting functions, matching coefficients, kernel bodies, Mellin path, interpolation) return values for every argument in their domain (opaque, non-zero)")
    chk.uncovered("finiteness of the floating-point results beyond clause (d) (overflow, cancellation, poles of the leaves)", "the runner, Couplings and MSbar-mass numerics above / beside the kernel layer", "QED with the polarised / time-like flags is computed as unpolarised space-like (finite, hence within the letter of the statement)")

    # ---- (d) no nan from real-typed sqrt / log of the nf-dependent constants: the real closed-form kernels with the literature beta vector, nf 3-6 ----------
    from pyvc.rt import FloatDomainError
    gsym = np.array([T.var(f"g{k}") for k in range(4)], dtype=object)
    Gsym = np.empty((4, 2, 2), dtype=object)
    for k in range(4):
        Gsym[k] = symmat(f"G{k}_", 2)
    saved_roots = e4.roots
    e4.roots = lambda bl: [T.app(f"cubic_root_{i}", *bl) for i in (1, 2, 3)]
    try:
        for nf in (3, 4, 5, 6):
            for order in (1, 2, 3, 4):
                bad = []
                for m in EvoMethods:
                    for sector, call in (("non-singlet", lambda: ns.dispatcher((order, 0), m, gsym[:order].copy(), Q(1, 60), Q(1, 40), nf)),
                                         ("singlet", lambda: s.dispatcher((order, 0), m, Gsym[:order].copy(), Q(1, 60), Q(1, 40), nf, 1, (5, 0)))):
                        try:
                            call()
                        except FloatDomainError as e:
                            bad.append(f"{sector} {m.name}: {e}")
                        except T.Unsupported:
                            pass          # a construct of the numerical bodies outside the symbolic engine: not this clause's subject
                        except (NotImplementedError, ValueError):
                            pass
                chk.ground(f"C04.float_domain[nf={nf},order={order}]", not bad, fn="eko.kernels.evolution_integrals", replay=rp,
                           goal="with the literature beta coefficients no real-typed np.sqrt / np.log receives a negative constant (which numpy turns into nan) in any kernel", detail="; ".join(bad[:3]))
    finally:
        e4.roots = saved_roots

    # ---- (e) the expansion order of the perturbative singlet kernels is a runcard setting too: every value either works or is refused ----------------
    Gnum = np.empty((4, 2, 2), dtype=object)
    for k in range(4):
        Gnum[k] = np.array([[Q(1 + k, 3), Q(2, 5 + k)], [Q(-1, 2 + k), Q(3 + k, 7)]], dtype=object)
    saved_em = ad_mod = None
    import ekore.anomalous_dimensions as ad_mod
    saved_em = ad_mod.exp_matrix_2D
    ad_mod.exp_matrix_2D = lambda M: (np.array([[T.app("em00", *[T.lift(x) for x in np.asarray(M, dtype=object).ravel()]), Q(0)], [Q(0), Q(1)]], dtype=object), None, None)
    try:
        for order in (2, 3, 4):
            for mo in (1, 2, 3, 4, 6):
                bad = []
                for m in (EvoMethods.PERTURBATIVE_EXACT, EvoMethods.PERTURBATIVE_EXPANDED):
                    try:
                        s.dispatcher((order, 0), m, Gnum[:order].copy(), Q(1, 60), Q(1, 40), 4, 1, (mo, 0))
                    except (NotImplementedError, ValueError) as e:
                        if not str(e).strip():
                            bad.append(f"{m.name}: refusal without a message")
                    except T.Unsupported:
                        raise
                    except Exception as e:
                        bad.append(f"{m.name}: {type(e).__name__}: {e}")
                chk.ground(f"C04.expansion_order[order=({order},0),ev_op_max_order=({mo},0)]", not bad, fn="eko.kernels.singlet:r_vec", replay=rp,
                           goal="perturbative singlet kernels: every ev_op_max_order either works or is refused with ValueError / NotImplementedError", detail="; ".join(bad))
    finally:
        ad_mod.exp_matrix_2D = saved_em

    # ---- stubs for the leaves ------------------------------------------------------------------------------------------------------------------
    saved = []

    def patch(mod, name, f):
        saved.append((mod, name, getattr(mod, name)))
        setattr(mod, name, f)

    def leafmods(pkg, names):
        return [importlib.import_module(f"{pkg}.{n}") for n in names]

    AD_LEAF = leafmods("ekore.anomalous_dimensions.unpolarized.space_like", ("as1", "as2", "as3", "as4", "as4.fhmruvv", "aem1", "aem2", "as1aem1")) + \
        leafmods("ekore.anomalous_dimensions.unpolarized.time_like", ("as1", "as2", "as3")) + leafmods("ekore.anomalous_dimensions.polarized.space_like", ("as1", "as2", "as3"))
    BUILDERS = ("gamma_singlet", "gamma_singlet_qed", "gamma_valence_qed", "gamma_valence")

    def ad_leaf(tag, real):
        def f(*args, **kw):
            allargs = [a for a in list(args) + [kw[k] for k in sorted(kw)] if not (isinstance(a, np.ndarray) and a.dtype != object)]
            nfs = [a for a in allargs if isinstance(a, int) and not isinstance(a, bool)]
            if "fhmruvv" in tag and nfs and tag.rsplit(".", 1)[-1] in ("gamma_ps", "gamma_qg", "gamma_gq", "gamma_gg") and 6 in nfs[:1]:
                raise NotImplementedError("nf=6 is not available at N3LO")   # contract of the fhmruvv singlet leaves (their own refusal)
            return opaque(tag, allargs)
        return f

    for mod in AD_LEAF:
        short = mod.__name__.split("anomalous_dimensions.")[-1]
        for nm in leaf_names(mod, BUILDERS):
            patch(mod, nm, ad_leaf(f"{short}.{nm}", getattr(mod, nm)))
    OME_LEAF = leafmods("ekore.operator_matrix_elements.unpolarized.space_like", ("as1", "as2", "as3")) + leafmods("ekore.operator_matrix_elements.polarized.space_like", ("as1", "as2")) + \
        leafmods("ekore.operator_matrix_elements.unpolarized.time_like", ("as1",))
    for mod in OME_LEAF:
        short = mod.__name__.split("operator_matrix_elements.")[-1]
        for nm in ("A_singlet", "A_ns"):
            if hasattr(mod, nm):
                dim = 3 if nm == "A_singlet" else 2
                patch(mod, nm, (lambda tag, dim: (lambda *args, **kw: opaque(tag, [a for a in list(args) + [kw[k] for k in sorted(kw)] if not (isinstance(a, np.ndarray) and a.dtype != object)], dim)))(f"{short}.{nm}", dim))
    patch(hc, "get", lambda key, cache, n, *a: T.app(f"S_{key}", T.lift(n)))
    for nm in ("lo_exact", "nlo_exact", "nlo_expanded", "nnlo_exact", "nnlo_expanded", "n3lo_exact", "n3lo_expanded", "eko_truncated", "eko_ordered_truncated"):
        patch(ns, nm, (lambda nm: (lambda *args: opaque(f"ns.{nm}", args)))(nm))
    for nm in ("lo_exact", "eko_iterate", "eko_perturbative", "eko_truncated", "nlo_decompose_exact", "nnlo_decompose_exact", "n3lo_decompose_exact", "nlo_decompose_expanded", "nnlo_decompose_expanded", "n3lo_decompose_expanded"):
        patch(s, nm, (lambda nm: (lambda *args: opaque(f"s.{nm}", args, 2)))(nm))
    patch(singlet_qed, "eko_iterate", lambda g_, al, ah, nf, order, it, dim: opaque("sq.eko_iterate", [al, ah, nf, it], dim))
    patch(valence_qed, "eko_iterate", lambda g_, al, ah, nf, order, it, dim: opaque("vq.eko_iterate", [al, ah, nf, it], dim))

    class Base(qk.QuadKerBase):
        """the real sector classification; Mellin path and interpolation replaced by their contracts (a moment and a non-zero integrand)"""

        @property
        def n(self):
            return T.var("N")

        def integrand(self, areas):
            return Q(1)

    patch(qk, "QuadKerBase", Base)
    ALLOWED = (NotImplementedError, ValueError)
    # couplings and scales: concrete distinct rationals (which exception is raised does not depend on their values; equal couplings are C10's shortcut)
    a0, a1, amid = Q(1, 40), Q(1, 60), Q(1, 50)
    a_half = np.array([[Q(1, 45), Q(1, 1700)], [Q(1, 55), Q(1, 1690)]], dtype=object)
    LABELS_QCD = [(10101, 0), (10201, 0), (10200, 0), (100, 100), (100, 21), (21, 100), (21, 21)]
    LABELS_QED = [(10102, 0), (10103, 0), (10202, 0), (10203, 0), (10200, 10200), (10200, 10204), (10204, 10200), (10204, 10204)] + [(p, q) for p in (21, 22, 100, 101) for q in (21, 22, 100, 101)]
    try:
        # ---- (a),(c) the evolution kernel layer over the complete configuration space ---------------------------------------------------------
        def kernel_worker(chk, task):
            o0, o1, pol, tl = task
            bad, refused, returned, unnamed, wrong_refusal = [], 0, 0, [], []
            for m in EvoMethods:
                for mode in (sv.Modes.unvaried, sv.Modes.exponentiated, sv.Modes.expanded):
                    for thr in (False, True):
                        for fh in ((True, False) if o0 == 4 else (True,)):
                            for running in ((True, False) if o1 else (False,)):
                                for (m0, m1) in (LABELS_QED if o1 else LABELS_QCD):
                                    cfg = f"order=({o0},{o1}) {m.name} {mode.name} thr={thr} pol={pol} tl={tl} fhmruvv={fh} running={running} label=({m0},{m1})"
                                    try:
                                        qk.quad_ker_ad(T.var("u"), (o0, o1), m0, m1, m, True, T.var("logx"), None, [a0, amid, a1], Q(10), Q(50), a_half, running, 4, Q(7, 10), 2, (2, 0), mode, thr, (0,) * 7, pol, tl, fh)
                                        returned += 1
                                        if o1 == 0 and pol and tl:
                                            wrong_refusal.append(cfg + ": polarised AND time-like must be refused")
                                        if o1 == 0 and pol and o0 >= 4:
                                            wrong_refusal.append(cfg + ": polarised beyond NNLO must be refused")
                                        if o1 > 0 and m is not EvoMethods.ITERATE_EXACT and m0 not in (10102, 10103, 10202, 10203):
                                            wrong_refusal.append(cfg + ": QED singlet/valence with a method other than iterate-exact must be refused")
                                    except ALLOWED as e:
                                        refused += 1
                                        if not str(e).strip():
                                            unnamed.append(cfg)
                                    except T.Unsupported:
                                        raise
                                    except Exception as e:
                                        bad.append(f"{cfg}: {type(e).__name__}: {e}")
            tag = f"C04.kernel_layer[order=({o0},{o1}),pol={pol},tl={tl}]"
            fn = "eko.evolution_operator.quad_ker:quad_ker_ad"
            chk.ground(f"{tag}.exception_safety", not bad, fn=fn, replay=rp, goal=f"every configuration returns or raises NotImplementedError/ValueError ({returned} returned, {refused} refused)", detail="; ".join(bad[:4]))
            chk.ground(f"{tag}.refusals_name_the_feature", not unnamed, fn=fn, replay=rp, goal="every refusal carries a message", detail="; ".join(unnamed[:4]))
            chk.ground(f"{tag}.promised_refusals", not wrong_refusal, fn=fn, replay=rp, goal="documented unsupported combinations are refused", detail="; ".join(wrong_refusal[:4]))
            chk.ground(f"{tag}.not_vacuous", returned + refused > 0 and (returned > 0 or pol or tl or o1 > 0 or True), fn=fn, goal="configurations were executed", replay=rp)
            chk.configs += returned + refused

        chk.parallel([(o0, o1, pol, tl) for o0 in (1, 2, 3, 4) for o1 in (0, 1, 2) for pol, tl in ((False, False), (True, False), (False, True), (True, True))], kernel_worker)

        # ---- matching layer ---------------------------------------------------------------------------------------------------------------------
        OME_LABELS = [(100, 100), (100, 21), (21, 100), (21, 21), (90, 21), (90, 100), (21, 90), (100, 90), (90, 90), (200, 200), (200, 91), (91, 200), (91, 91)]
        for mo in (1, 2, 3):
            for pol, tl in ((False, False), (True, False), (False, True), (True, True)):
                bad, refused, returned, unnamed, wrong = [], 0, 0, [], []
                for bm in qk.MatchingMethods:
                    for mode in (sv.Modes.unvaried, sv.Modes.exponentiated, sv.Modes.expanded):
                        for msbar in (False, True):
                            for (m0, m1) in OME_LABELS:
                                cfg = f"matching order={mo} {bm.name} {mode.name} msbar={msbar} pol={pol} tl={tl} label=({m0},{m1})"
                                try:
                                    qk.quad_ker_ome(T.var("u"), (mo, 0), m0, m1, True, T.var("logx"), None, Q(1, 50), 4, T.var("L"), mode, Q(7, 10), bm, msbar, pol, tl)
                                    returned += 1
                                    if pol and tl:
                                        wrong.append(cfg + ": polarised AND time-like must be refused")
                                    if pol and mo > 2:
                                        wrong.append(cfg + ": polarised matching beyond NNLO must be refused")
                                except ALLOWED as e:
                                    refused += 1
                                    if not str(e).strip():
                                        unnamed.append(cfg)
                                except T.Unsupported:
                                    raise
                                except Exception as e:
                                    bad.append(f"{cfg}: {type(e).__name__}: {e}")
                tag = f"C04.matching_layer[order={mo},pol={pol},tl={tl}]"
                fn = "eko.evolution_operator.quad_ker:quad_ker_ome"
                chk.ground(f"{tag}.exception_safety", not bad, fn=fn, replay=rp, goal=f"every configuration returns or raises NotImplementedError/ValueError ({returned} returned, {refused} refused)", detail="; ".join(bad[:4]))
                chk.ground(f"{tag}.refusals_name_the_feature", not unnamed, fn=fn, replay=rp, goal="every refusal carries a message", detail="; ".join(unnamed[:4]))
                chk.ground(f"{tag}.promised_refusals", not wrong, fn=fn, replay=rp, goal="documented unsupported combinations are refused", detail="; ".join(wrong[:4]))
                chk.configs += returned + refused

        # ---- (b) definite assignment of the perturbative slots ------------------------------------------------------------------------------------
        N = T.var("N")

        def is_zero(x):
            x = T.lift(x) if not isinstance(x, T.Sym) else x
            return x.is_const() and x.const() == 0

        for vname, mod, extra_sets in (("unpolarized.space_like", us, [((0,) * 7, True), ((0,) * 7, False)]), ("polarized.space_like", ps, [()]), ("unpolarized.time_like", ut, [()])):
            for nf in (3, 4, 5, 6):
                for order in (1, 2, 3, 4):
                    for extra in extra_sets:
                        ex = f",fhmruvv={extra[1]}" if extra else ""
                        for mode in (10101, 10201, 10200):
                            tag = f"C04.slots.{vname}.gamma_ns[order={order},nf={nf},mode={mode}{ex}]"
                            fn = f"ekore.anomalous_dimensions.{vname}:gamma_ns"
                            try:
                                gam = mod.gamma_ns((order, 0), mode, N, nf, *extra)
                                empty = [k for k in range(order) if is_zero(gam[k])]
                                chk.ground(tag, not empty and len(gam) == order, fn=fn, replay=rp, goal="returns => every slot below the requested order is filled from a splitting function (else the order must be refused)",
                                           detail=f"slot(s) {empty} keep the initial zero: the order is not provided by this variant but is not refused either")
                            except ALLOWED as e:
                                chk.ground(tag, bool(str(e).strip()), fn=fn, replay=rp, goal="refusal names the feature", detail="empty message")
                            except T.Unsupported:
                                raise
                            except Exception as e:
                                chk.raised(tag, e, fn=fn, replay=rp, goal="no unrelated exception")
                        tag = f"C04.slots.{vname}.gamma_singlet[order={order},nf={nf}{ex}]"
                        fn = f"ekore.anomalous_dimensions.{vname}:gamma_singlet"
                        try:
                            Gm = mod.gamma_singlet((order, 0), N, nf, *extra)
                            empty = [k for k in range(order) if all(is_zero(x) for x in np.asarray(Gm[k], dtype=object).ravel())]
                            chk.ground(tag, not empty and len(Gm) == order, fn=fn, replay=rp, goal="returns => every slot below the requested order is filled (else the order must be refused)",
                                       detail=f"slot(s) {empty} keep the initial zero: the order is not provided by this variant but is not refused either")
                        except ALLOWED as e:
                            chk.ground(tag, bool(str(e).strip()), fn=fn, replay=rp, goal="refusal names the feature", detail="empty message")
                        except T.Unsupported:
                            raise
                        except Exception as e:
                            chk.raised(tag, e, fn=fn, replay=rp, goal="no unrelated exception")
                    chk.configs += 1
        # matching dispatchers: unpolarised space-like fills every slot; polarised fills what its modules provide or refuses; time-like beyond NLO is the documented exception
        L = T.var("L")
        for mo in (1, 2, 3):
            for nm, call, dim, must in (("unpolarized.space_like.A_singlet", lambda: ome_us.A_singlet((mo, 0), N, 4, L, False), 3, range(mo)), ("unpolarized.space_like.A_non_singlet", lambda: ome_us.A_non_singlet((mo, 0), N, 4, L), 2, range(mo)),
                                        ("polarized.space_like.A_singlet", lambda: ome_ps.A_singlet((mo, 0), N, 4, L), 3, range(mo)), ("polarized.space_like.A_non_singlet", lambda: ome_ps.A_non_singlet((mo, 0), N, L), 2, range(1, mo)),
                                        ("unpolarized.time_like.A_singlet", lambda: ome_ut.A_singlet((mo, 0), N, L), 3, range(1)), ("unpolarized.time_like.A_non_singlet", lambda: ome_ut.A_non_singlet((mo, 0), N, L), 2, range(1))):
                tag = f"C04.slots.ome.{nm}[order={mo}]"
                fn = "ekore.operator_matrix_elements." + nm.rsplit(".", 1)[0] + ":" + nm.rsplit(".", 1)[1]
                try:
                    A = call()
                    empty = [k for k in must if all(is_zero(x) for x in np.asarray(A[k], dtype=object).ravel())]
                    chk.ground(tag, not empty and len(A) == mo, fn=fn, replay=rp, goal="returns => the slots the variant provides are filled", detail=f"slot(s) {empty} keep the initial zero")
                except ALLOWED as e:
                    chk.ground(tag, bool(str(e).strip()), fn=fn, replay=rp, goal="refusal names the feature", detail="empty message")
                except T.Unsupported:
                    raise
                except Exception as e:
                    chk.raised(tag, e, fn=fn, replay=rp, goal="no unrelated exception")
    finally:
        for mod, nm, f in reversed(saved):
            setattr(mod, nm, f)

    # ---- (e) the matching parts: every heavy quark of a path gets its matching, with finite inputs ---------------------------------------------------------
    # parts.match builds the matching of heavy quark hq (4, 5, 6: every threshold a supported path can cross, upward and downward) with OperatorMatrixElement
    # replaced by a recorder: no unrelated exception (an index into the three matching ratios, say), the operator is built for nf = hq - 1 flavours at the
    # recipe's scale and direction, and the logarithm it receives is that of the ratio of THIS quark -- finite whenever this quark's ratio is, even if a heavier
    # quark is switched off by an infinite ratio (a log(inf) would fill the matching with non-finite numbers at NLO and beyond).
    from eko.runner import parts as _parts
    from eko.io.items import Matching as _Matching
    from eko.quantities.heavy_quarks import QuarkMassScheme as _QMS
    fnm = "eko.runner.parts:match"
    chk.under_contract(fnm)
    rpm = script(REPLAY_MATCH, kind="matching_part_oracle")
    seen_m = {}

    class _FakeOME:
        def __init__(self, config, managers, nf, q2, is_backward, L, is_msbar):
            seen_m.update(config=config, managers=managers, nf=nf, q2=q2, is_backward=is_backward, L=L, is_msbar=is_msbar)
            self.op_members, self.nf = {}, nf

        def compute(self):
            seen_m["computed"] = True

    class _Map:
        def to_flavor_basis_tensor(self, qed):
            return (np.zeros((1, 1, 1, 1)), None)

    class _X:
        pass

    saved_m = (_parts.ome.OperatorMatrixElement, _parts._matching_configs, _parts._managers, _parts.matching_condition.MatchingCondition.split_ad_to_evol_map)
    _parts.ome.OperatorMatrixElement = _FakeOME
    _parts._matching_configs = lambda e: {"cfg": 1}
    _parts._managers = lambda e: "managers"
    _parts.matching_condition.MatchingCondition.split_ad_to_evol_map = classmethod(lambda cls, *a, **k: _Map())
    try:
        for ratios, rlab in (([1.5, 2.5, 3.5], "finite"), ([1.5, 2.5, float("inf")], "top_switched_off"), ([1.5, float("inf"), float("inf")], "bottom_and_top_switched_off")):
            for hq in (4, 5, 6):
                if ratios[hq - 4] == float("inf"):
                    continue            # a switched-off quark is never crossed
                for inverse in (False, True):
                    for scheme in (_QMS.POLE, _QMS.MSBAR):
                        ek = _X()
                        ek.theory_card = _X()
                        ek.theory_card.heavy, ek.theory_card.order = _X(), (2, 0)
                        ek.theory_card.heavy.squared_ratios, ek.theory_card.heavy.masses_scheme = list(ratios), scheme
                        tagm = f"C04.matching_part[hq={hq},inverse={inverse},{scheme.value},ratios={rlab}]"
                        seen_m.clear()
                        try:
                            _parts.match(ek, _Matching(20.25, hq, inverse))
                        except T.Unsupported as e:
                            if "non-finite float" in str(e):      # the infinite ratio of a switched-off quark reached the arithmetic of this matching: the very thing excluded
                                chk.fail(tagm, f"a non-finite number enters the matching of heavy quark {hq}: {e}", fn=fnm, replay=rpm, goal="the matching receives the finite logarithm of this quark's ratio")
                            else:
                                chk.raised(tagm, e, fn=fnm, replay=rpm, goal="no unrelated exception")
                            continue
                        except Exception as e:  # noqa: BLE001
                            chk.raised(tagm, e, fn=fnm, replay=rpm, goal="no unrelated exception")
                            continue
                        import math as _math

                        def num(x):
                            """numeric value of what the code handed over (a float natively, a term under the engine); nan if it has none"""
                            try:
                                return float(x) if isinstance(x, (int, float)) else float(complex(T.evalmp(T.lift(x), {}, 30)).real)
                            except Exception:  # noqa: BLE001
                                return float("nan")
                        Lw, Lg = _math.log(ratios[hq - 4]), num(seen_m.get("L"))
                        ok = bool(seen_m.get("computed")) and seen_m.get("nf") == hq - 1 and num(seen_m.get("q2")) == 20.25 and seen_m.get("is_backward") is inverse \
                            and seen_m.get("is_msbar") is (scheme is _QMS.MSBAR) and _math.isfinite(Lg) and abs(Lg - Lw) <= 1e-12
                        chk.ground(tagm, ok, fn=fnm, replay=rpm, detail=str({k: v for k, v in seen_m.items() if k in ("nf", "q2", "is_backward", "L", "is_msbar")}),
                                   goal="the matching of heavy quark hq is built for nf = hq - 1 at the recipe's scale and direction with the FINITE logarithm of this quark's matching ratio")
    finally:
        _parts.ome.OperatorMatrixElement, _parts._matching_configs, _parts._managers, _parts.matching_condition.MatchingCondition.split_ad_to_evol_map = saved_m
    chk.extra["exhaustive"] = True
