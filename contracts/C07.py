"""C07 -- exact non-singlet kernels solve dE/da = gamma(a)/beta(a) E, E(a0) = 1.

Contract: E = dispatcher(order, exact-method, gamma, a1, a0, nf).  Ensures
   (i)   E = exp(X)                       (structural: the returned term is an exponential / product of exponentials)
   (ii)  dX/da1 * beta_n(a1) = gamma_n(a1)   with beta_n(a) = sum_{k<n} beta_k a^(k+2), gamma_n(a) = sum_{k<n} gamma_k a^(k+1)
   (iii) X(a0, a0) = 0
Sign convention (fixed from j12 = ln(a1/a0)/beta0): the repository stores gamma = -P and beta_k > 0 with
da/dlnmu^2 = -beta(a); both minus signs cancel in dE/da = gamma/beta E.
Lemmas (trusted): chain rule for exp; FTC; uniqueness of the solution of a linear ODE where beta has no zero.
QED clause: fixed_alphaem_exact = the same with beta0 -> beta0 + aem*beta^(2,1), gamma_k -> sum_j gamma[k,j] aem^j (k>=1),
times exp(sum_j gamma[0,j] aem^j * ln(mu2_from/mu2_to)).
"""
from fractions import Fraction as Q

import numpy as np

from pyvc import terms as T
from pyvc.terms import Sym, Unsupported
from pyvc.replay import script
from contracts.C20 import spec_beta_qcd

a0, a1 = T.var("a0"), T.var("a1")
RANGES = {"a0": (0.002, 0.05), "a1": (0.002, 0.05), "beta0": (7.0, 9.0), "beta1": (20.0, 70.0), "beta2": (-100.0, 700.0), "beta3": (1000.0, 30000.0),
          "r1": (-0.5, -0.2), "r2": (-1.5, -0.8), "r3": (2.0, 3.0), "aem": (0.0005, 0.001), "mu2f": (2.0, 10.0), "mu2t": (20.0, 100.0), "*": (-3.0, 3.0)}


def log_of(s):
    """X with s == exp(X), for s a product of exponentials (structural; raises otherwise)."""
    s = T.lift(s)
    t = T.node(s.n)
    if t[0] == "app" and t[1] == "exp":
        return Sym(t[2][0])
    if t[0] == "*":
        return log_of(Sym(t[1])) + log_of(Sym(t[2]))
    if t[0] == "c" and t[1] == 1:
        return T.ZERO
    raise ValueError(f"kernel is not a product of exponentials: {T.show(s.n, 3)}")


ODE_REPLAY = '''
P = json.loads(%s)
def replay():
    from scipy import integrate
    from eko.kernels import non_singlet as ns, non_singlet_qed as nsq, EvoMethods
    from eko import beta
    order, nf, a0, a1 = tuple(P["order"]), P["nf"], P["a0"], P["a1"]
    g = [complex(*z) for z in P["gamma"]]
    if P["qed"]:
        gam = np.array([[complex(*z) for z in row] for row in P["gamma2"]])
        aem = P["aem"]
        val = nsq.fixed_alphaem_exact(order, gam, a1, a0, aem, nf, P["mu2f"], P["mu2t"])
        bl = [beta.beta_qcd((2 + i, 0), nf) for i in range(order[0])]
        bl[0] += aem * beta.beta_qcd((2, 1), nf)
        gc = gam @ np.array([aem**i for i in range(gam.shape[1])])
        g = list(gc[1:])
        pref = np.exp(gc[0] * np.log(P["mu2f"] / P["mu2t"]))
    else:
        val = ns.dispatcher(order, EvoMethods.ITERATE_EXACT, np.array(g), a1, a0, nf)
        bl = [beta.beta_qcd((2 + i, 0), nf) for i in range(order[0])]
        pref = 1.0
    n = order[0]
    def rhs(a, y):
        ga = sum(g[k] * a**(k+1) for k in range(n)); be = sum(bl[k] * a**(k+2) for k in range(n))
        return [ga / be * y[0]]
    sol = integrate.solve_ivp(rhs, (a0, a1), [1.0 + 0j], rtol=1e-12, atol=1e-14, method="DOP853")
    ref = sol.y[0][-1] * pref
    bad = abs(val - ref) > 1e-7 * max(abs(ref), 1e-12)
    return bad, f"native kernel = {val} ; numerical ODE solution = {ref} (order={order}, nf={nf}, a0={a0}, a1={a1})"
'''


def ode_replay(order, nf, qed=False):
    import json

    n = order[0]
    gam = [[1.3 * (k + 1) * 3**k, -0.7 * 2**k] for k in range(n)]
    payload = dict(order=list(order), nf=nf, a0=0.03, a1=0.012, gamma=gam, qed=qed)
    if qed:
        payload["gamma2"] = [[[0.4 * (i + 1) + 0.3 * j, 0.1 * (j - i)] for j in range(order[1] + 1)] for i in range(n + 1)]
        payload.update(aem=0.0007, mu2f=4.0, mu2t=50.0)
    return script(ODE_REPLAY % json.dumps(json.dumps(payload)), kind="ode_vs_native")


def run(chk):
    from eko.kernels import non_singlet as ns, non_singlet_qed as nsq, EvoMethods
    from eko.kernels import as4_evolution_integrals as e4

    chk.trust("lemma: d/da exp(X) = X' exp(X); FTC; uniqueness of the solution of E' = (gamma/beta) E, E(a0)=1 on an interval where beta has no zero",
              "calculus rules of the term IR (d ln, d atan, d sqrt)",
              "contract of as4_evolution_integrals.roots (proved as C13.roots.*): returns the three roots of 1+b1 a+b2 a^2+b3 a^3 -- used modularly for the generic-beta proof at order 4")
    chk.assume("np.real(delta/Delta) is the identity: delta/Delta is real for real and for imaginary Delta (nf=6)",
               "order 4: complex logarithms ln((a1-r)/(a0-r)) differentiate as 1/(a1-r): no branch cut is crossed between a0 and a1 (part of requires, not checked)",
               "requires a0, a1 > 0, beta0 > 0 and 1 + b1 a + ... > 0 on [min(a0,a1), max(a0,a1)] (perturbative range)")
    fns = ["lo_exact", "nlo_exact", "nnlo_exact", "n3lo_exact"]
    chk.under_contract(*(f"eko.kernels.non_singlet:{f}" for f in fns), "eko.kernels.non_singlet:dispatcher",
                       "eko.kernels.evolution_integrals:*", "eko.kernels.as4_evolution_integrals:*",
                       "eko.kernels.non_singlet_qed:fixed_alphaem_exact", "eko.kernels.non_singlet_qed:contract_gammas",
                       "eko.kernels.non_singlet_qed:apply_qed", "eko.kernels.non_singlet_qed:as1_exact..as4_exact")

    def ode_obligations(tag, E, gam, betas, n, fn, replay, same_point):
        """(i)-(iii) for kernel term E; gam/betas: lists of length n ; same_point: callable giving E at a1:=a0."""
        try:
            X = log_of(E)
        except ValueError as e:
            chk.fail(f"{tag}.is_exponential", str(e), fn=fn, goal="E = exp(X)", replay=replay)
            return
        chk.ground(f"{tag}.is_exponential", True, fn=fn, goal="E = exp(X)")
        beta_a = sum((betas[k] * a1 ** (k + 2) for k in range(n)), T.ZERO)
        gamma_a = sum((gam[k] * a1 ** (k + 1) for k in range(n)), T.ZERO)
        chk.eq(f"{tag}.ode", T.diff(X, "a1") * beta_a, gamma_a, fn=fn, goal="dX/da1 * beta_n(a1) == gamma_n(a1)", ranges=RANGES, replay=replay)
        try:
            X0 = log_of(same_point())
            chk.eq(f"{tag}.initial", X0, 0, fn=fn, goal="X(a0,a0) == 0", ranges=RANGES, replay=replay)
        except ValueError as e:
            chk.fail(f"{tag}.initial", str(e), fn=fn, replay=replay)

    # ---- (A) generic beta vector, each exact kernel on its own -------------------------------------------
    gsym = [T.var(f"g{k}") for k in range(4)]
    bsym = [T.var(f"beta{k}") for k in range(4)]
    for n, fname in enumerate(fns, start=1):
        f = getattr(ns, fname)
        fn = f"eko.kernels.non_singlet:{fname}"
        g = np.array(gsym[:n], dtype=object)
        if n < 4:
            betas = bsym[:n]
            req = [a0 > 0, a1 > 0, betas[0] > 0]
            rpn = ode_replay((n, 0), 6 if n == 3 else 4)
            for tag, pc, E in chk.run_paths(f"C07.generic.{fname}", lambda: f(g, a1, a0, betas), req, fn=fn, replay=rpn):
                for tag0, pc0, E0 in chk.run_paths(tag + ".at_a0", lambda: f(g, a0, a0, betas), req + list(pc), fn=fn, replay=rpn):
                    ode_obligations(tag if tag0.endswith(".at_a0") else tag0, E, gsym, betas, n, fn, rpn, lambda E0=E0: E0)
        else:
            # roots replaced by its contract (Vieta parametrisation of the b's by the roots)
            r = [T.var("r1"), T.var("r2"), T.var("r3")]
            prod = r[0] * r[1] * r[2]
            b0 = bsym[0]
            betas = [b0, -(r[0] * r[1] + r[0] * r[2] + r[1] * r[2]) / prod * b0, (r[0] + r[1] + r[2]) / prod * b0, -1 / prod * b0]
            saved = e4.roots
            e4.roots = lambda b_list: list(r)
            try:
                E = f(g, a1, a0, betas)
                ode_obligations(f"C07.generic.{fname}", E, gsym, betas, n, fn, ode_replay((4, 0), 4), lambda: f(g, a0, a0, betas))
            finally:
                e4.roots = saved

    # ---- (B) dispatcher wiring: nf = 3..6, every method that is documented as exact for the NS sector -----
    exact_methods = [EvoMethods.ITERATE_EXACT, EvoMethods.DECOMPOSE_EXACT, EvoMethods.PERTURBATIVE_EXACT]
    tier_nf = (3, 4, 5, 6)
    def opaque_roots(b_list):
        return [T.app(f"cubic_root_{i}", *b_list) for i in (1, 2, 3)]

    for nf in tier_nf:
        for n in (1, 2, 3, 4):
            g = np.array(gsym[:n], dtype=object)
            betas = [spec_beta_qcd(k, nf) for k in range(n)]
            for method in exact_methods:
                tag = f"C07.dispatch[nf={nf},order={n},{method.name}]"
                if n == 4:
                    # modular: roots() replaced by opaque values of its argument; the dispatcher must hand the literature
                    # beta vector to n3lo_exact (whose contract is C07.generic.n3lo_exact)
                    saved = e4.roots
                    e4.roots = opaque_roots
                    try:
                        E = ns.dispatcher((n, 0), method, g, a1, a0, nf)
                        Eref = ns.n3lo_exact(g, a1, a0, betas)
                        chk.eq(f"{tag}.is_n3lo_exact_with_literature_betas", log_of(E), log_of(Eref), fn="eko.kernels.non_singlet:dispatcher",
                               goal="dispatcher == n3lo_exact(gamma, a1, a0, [beta_0..beta_3](nf))", ranges=RANGES, replay=ode_replay((n, 0), nf))
                    except ValueError as e:
                        chk.fail(f"{tag}.is_exponential", str(e), fn="eko.kernels.non_singlet:dispatcher", replay=ode_replay((n, 0), nf))
                    finally:
                        e4.roots = saved
                    continue
                E = ns.dispatcher((n, 0), method, g, a1, a0, nf)
                ode_obligations(tag, E, gsym, betas, n, "eko.kernels.non_singlet:dispatcher",
                                ode_replay((n, 0), nf), lambda: ns.dispatcher((n, 0), method, g, a0, a0, nf))
            chk.configs += 1

    # ---- (C) QED: fixed alpha_em ---------------------------------------------------------------------------
    from eko import beta as betamod

    aem, mu2f, mu2t = T.var("aem"), T.var("mu2f"), T.var("mu2t")
    for nf in tier_nf:
        for n in (1, 2, 3, 4):
            for m in (1, 2):
                G = np.empty((n + 1, m + 1), dtype=object)
                for i in range(n + 1):
                    for j in range(m + 1):
                        G[i, j] = T.var(f"g{i}_{j}")
                tag = f"C07.qed[nf={nf},order=({n},{m})]"
                fn = "eko.kernels.non_singlet_qed:fixed_alphaem_exact"
                betas = [spec_beta_qcd(k, nf) for k in range(n)]
                nu = nf // 2
                betas[0] = betas[0] + aem * (-4 * Q(1, 2) * (nu * Q(4, 9) + (nf - nu) * Q(1, 9)))
                gc = [sum((G[i, j] * aem**j for j in range(m + 1)), T.ZERO) for i in range(n + 1)]
                rp = ode_replay((n, m), nf, qed=True)
                saved = e4.roots
                if n == 4:
                    e4.roots = opaque_roots
                try:
                    E = nsq.fixed_alphaem_exact((n, m), G, a1, a0, aem, nf, mu2f, mu2t)
                    X = log_of(E)
                    if n == 4:
                        Xref = log_of(ns.n3lo_exact(np.array(gc[1:], dtype=object), a1, a0, betas)) + gc[0] * T.app("ln", mu2f / mu2t)
                        chk.eq(f"{tag}.is_n3lo_exact_shifted_times_qed_factor", X, Xref, fn=fn, ranges=RANGES, replay=rp, assumptions=[mu2f > 0, mu2t > 0],
                               goal="fixed_alphaem_exact == n3lo_exact(contracted gammas, shifted betas) * exp(gamma_qed ln(mu2_from/mu2_to))")
                        chk.configs += 1
                        continue
                except ValueError as e:
                    chk.fail(f"{tag}.is_exponential", str(e), fn=fn, replay=rp)
                    continue
                finally:
                    e4.roots = saved
                beta_a = sum((betas[k] * a1 ** (k + 2) for k in range(n)), T.ZERO)
                gamma_a = sum((gc[k + 1] * a1 ** (k + 1) for k in range(n)), T.ZERO)
                chk.eq(f"{tag}.ode", T.diff(X, "a1") * beta_a, gamma_a, fn=fn, ranges=RANGES, replay=rp,
                       goal="dX/da1 * beta_shifted(a1) == sum_k (sum_j gamma[k,j] aem^j) a1^k")
                X0 = log_of(nsq.fixed_alphaem_exact((n, m), G, a0, a0, aem, nf, mu2f, mu2t))
                chk.eq(f"{tag}.initial_is_pure_qed_factor", X0, gc[0] * T.app("ln", mu2f / mu2t), fn=fn, ranges=RANGES, replay=rp,
                       assumptions=[mu2f > 0, mu2t > 0],
                       goal="X(a0,a0) == (sum_j gamma[0,j] aem^j) * ln(mu2_from/mu2_to)  (the pure-QED scale factor)")
                chk.configs += 1
    chk.extra["exhaustive"] = True
    chk.uncovered("float rounding of the closed forms (A1)", "the iterated QED kernel non_singlet_qed.exact with *running* alpha_em (product over steps) -- structure covered in C14")
