"""C08 -- approximate solution methods agree with the exact one to the working order.

NS sector: with a1 = lambda*alpha1, a0 = lambda*alpha0 (lambda the series indeterminate, alpha symbolic),
   series(E_method - E_exact, lambda) = O(lambda^n)     method in {expanded, truncated, ordered-truncated}, n = order 2..4
(E_exact is the code's exact kernel, whose correctness is C07).  Order 4: cubic roots through the contract of roots() (Vieta).

Singlet sector (no closed form of the exact solution): textbook characterisation, lemma *U-matrix ansatz* (Ellis-Kunszt-Levin,
PEGASUS sec. 2): if  k U_k + [U_k, R_0] = R_k + sum_{j=1}^{k-1} R_{k-j} U_j  then  U(a1) E_0 U(a0)^-1  solves the evolution equation up to
the order at which U and R are truncated.  Obligations on the code:
   r_vec           : R(a) (1 + b1 a + ...) = sum_k gamma_k a^k / beta0, any ev_op_max_order (invariant cut); expanded variant = truncation
   u_vec           : the value written to u[kk] satisfies the recurrence for an arbitrary kk (symbolic kk, arbitrary rp), and the inner
                     loop delivers rp = sum_{j<kk} r[kk-j] u[j]  (kk in {1,2,3,5}: bounded in kk)
   sum_u           : sum_k a^k u_k (peel + cut)
   eko_truncated   : == sum_{i+j<n} a1^i a0^j U_i E_0 V_j with V = (sum_k a0^k U_k)^-1 as a series (generic 3x3 symbolic matrices)
   eko_perturbative: every step multiplies by U(ah) E_0(ah,al) U(al)^-1 (loop cut, any iteration count); telescoping by C10's LO composition
Decompose methods: only the commuting limit (C09).
"""
from fractions import Fraction as Q

import numpy as np

from pyvc import terms as T
from pyvc import vnp, hook
from pyvc.hook import LoopSpec
from pyvc.series import Series
from pyvc.replay import script
from contracts.common import symmat

REPLAY = '''
def replay():
    """scaling test of the statement: |K_method - K_exact| ~ lambda^n for couplings scaled together (NS), and the singlet truncated /
    perturbative kernels against a high-precision path-ordered ODE solution"""
    from eko.kernels import non_singlet as ns, singlet as s, EvoMethods
    from eko import beta
    from scipy import integrate
    rng = np.random.default_rng(4)
    out = []
    for nf in (3, 4, 5, 6):
        for n in (2, 3, 4):
            g = (rng.normal(size=n) + 1j * rng.normal(size=n)) * 4.0 ** np.arange(n)
            for m in (EvoMethods.ITERATE_EXPANDED, EvoMethods.TRUNCATED, EvoMethods.ORDERED_TRUNCATED):
                errs = []
                for lam in (1.0, 0.5, 0.25, 0.125):
                    a1, a0 = 0.02 * lam, 0.04 * lam
                    ex = ns.dispatcher((n, 0), EvoMethods.ITERATE_EXACT, g, a1, a0, nf)
                    ap = ns.dispatcher((n, 0), m, g, a1, a0, nf)
                    errs.append(abs(ap - ex))
                slope = np.log2(errs[1] / errs[3]) / 2 if errs[3] > 0 else 99
                if slope < n - 0.35: out.append(f"NS {m.name} order {n} nf {nf}: difference to exact scales like lambda^{slope:.2f} < {n}")
            G = (rng.normal(size=(n, 2, 2)) + 1j * rng.normal(size=(n, 2, 2))) * (4.0 ** np.arange(n))[:, None, None]
            bl = [beta.beta_qcd((2 + i, 0), nf) for i in range(n)]
            def exact(a1, a0):
                def rhs(a, y):
                    E = y.view(complex).reshape(2, 2)
                    ga = sum(G[k] * a ** (k + 1) for k in range(n)); be = sum(bl[k] * a ** (k + 2) for k in range(n))
                    return ((ga / be) @ E).reshape(-1).view(float)
                sol = integrate.solve_ivp(rhs, (a0, a1), np.eye(2, dtype=complex).reshape(-1).view(float), rtol=1e-12, atol=1e-14, method="DOP853")
                return sol.y[:, -1].view(complex).reshape(2, 2)
            for m in (EvoMethods.TRUNCATED, EvoMethods.ORDERED_TRUNCATED, EvoMethods.PERTURBATIVE_EXACT, EvoMethods.PERTURBATIVE_EXPANDED):
                errs = []
                for lam in (1.0, 0.5, 0.25, 0.125):
                    a1, a0 = 0.02 * lam, 0.04 * lam
                    K = s.dispatcher((n, 0), m, G, a1, a0, nf, 2, (n, 0))
                    errs.append(np.max(np.abs(K - exact(a1, a0))))
                slope = np.log2(errs[1] / errs[3]) / 2 if errs[3] > 0 else 99
                if slope < n - 0.35: out.append(f"singlet {m.name} order {n} nf {nf}: difference to path-ordered solution scales like lambda^{slope:.2f} < {n}")
    return bool(out), "; ".join(out[:6]) if out else "native approximate kernels approach the exact ones at least like lambda^n"
'''


def run(chk):
    from eko.kernels import non_singlet as ns, singlet as s, EvoMethods
    from eko.kernels import as4_evolution_integrals as e4
    from ekore import anomalous_dimensions as ad
    from contracts.C20 import spec_beta_qcd

    rp = script(REPLAY, kind="scaling_oracle")
    chk.trust("lemma U-matrix ansatz (Ellis-Kunszt-Levin; Vogt PEGASUS sec. 2): the recurrence k U_k + [U_k,R_0] = R_k + sum R_{k-j} U_j makes U(a1) E_0 U(a0)^-1 a solution to the truncation order",
              "C07: the exact NS kernels solve the evolution equation (the NS comparison is against the code's own exact kernel)",
              "C10: LO singlet kernels compose exactly (telescoping of the perturbative steps)",
              "Amitsur-Levitzki: polynomial identities of degree < 6 checked on generic 3x3 matrices hold in the free algebra",
              "contract of roots() (C13): Vieta parametrisation at order 4")
    chk.uncovered("decompose methods beyond the commuting limit (documented approximation; commuting limit is C09)",
                  "u_vec inner accumulation loop proved for kk in {1,2,3,5} only (bounded in kk); the algebraic step is proved for arbitrary kk")
    lam = Series.indet("lam", 7)
    al0, al1 = T.var("alpha0"), T.var("alpha1")
    A0, A1 = lam * al0, lam * al1
    g = np.array([T.var(f"g{k}") for k in range(4)], dtype=object)
    RANGES = {"alpha0": (0.5, 1.5), "alpha1": (0.5, 1.5), "r1": (-0.5, -0.2), "r2": (-1.5, -0.8), "r3": (2.0, 3.0), "*": (0.3, 2.0)}
    chk.under_contract("eko.kernels.non_singlet:nlo_expanded", "eko.kernels.non_singlet:nnlo_expanded", "eko.kernels.non_singlet:n3lo_expanded",
                       "eko.kernels.non_singlet:eko_truncated", "eko.kernels.non_singlet:eko_ordered_truncated", "eko.kernels.non_singlet:U_vec",
                       "eko.kernels.non_singlet:dispatcher", "eko.kernels.singlet:r_vec", "eko.kernels.singlet:u_vec", "eko.kernels.singlet:sum_u",
                       "eko.kernels.singlet:eko_truncated", "eko.kernels.singlet:eko_perturbative")

    # ---------------------------------------------------------------------------------------------------------------
    # NS sector
    # ---------------------------------------------------------------------------------------------------------------
    def ns_tasks():
        for n in (2, 3, 4):
            for nm, m in (("expanded", EvoMethods.ITERATE_EXPANDED), ("truncated", EvoMethods.TRUNCATED), ("ordered_truncated", EvoMethods.ORDERED_TRUNCATED)):
                yield (n, nm, m)

    def ns_worker(chk, task):
        n, nm, m = task
        fn = "eko.kernels.non_singlet:dispatcher"
        # generic beta vector (order 4: Vieta parametrisation through the roots contract)
        b0 = T.var("beta0")
        if n < 4:
            betas = [b0] + [T.var(f"beta{k}") for k in range(1, n)]
        else:
            r = [T.var("r1"), T.var("r2"), T.var("r3")]
            prod = r[0] * r[1] * r[2]
            betas = [b0, -(r[0] * r[1] + r[0] * r[2] + r[1] * r[2]) / prod * b0, (r[0] + r[1] + r[2]) / prod * b0, -1 / prod * b0]
        kernels = {"exact": [None, None, ns.nlo_exact, ns.nnlo_exact, ns.n3lo_exact][n],
                   "expanded": [None, None, ns.nlo_expanded, ns.nnlo_expanded, ns.n3lo_expanded][n],
                   "truncated": lambda gg, x1, x0, bb: ns.eko_truncated(gg, x1, x0, bb, (n, 0)),
                   "ordered_truncated": lambda gg, x1, x0, bb: ns.eko_ordered_truncated(gg, x1, x0, bb, (n, 0))}
        saved = e4.roots
        if n == 4:
            e4.roots = lambda bl: list(r)
        try:
            ex = kernels["exact"](g[:n].copy(), A1, A0, betas)
            ap = kernels[nm](g[:n].copy(), A1, A0, betas)
        finally:
            e4.roots = saved
        d = ap - ex
        for k in range(n):
            chk.eq(f"C08.ns.generic[order={n},{nm}].lambda^{k}", d.coeff(k), 0, fn=f"eko.kernels.non_singlet:{nm}", ranges=RANGES, replay=rp,
                   goal=f"[lambda^{k}] (E_{nm} - E_exact) == 0  (k < n = {n})", assumptions=[al0 > 0, al1 > 0])
        # dispatcher wiring, nf 3-6: the dispatcher must select these kernels with the literature beta vector
        for nf in (3, 4, 5, 6):
            lit = [spec_beta_qcd(k, nf) for k in range(n)]
            a1s, a0s = T.var("a1"), T.var("a0")
            saved = e4.roots
            e4.roots = lambda bl: [T.app(f"cubic_root_{i}", *bl) for i in (1, 2, 3)]
            try:
                got = ns.dispatcher((n, 0), m, g[:n].copy(), a1s, a0s, nf)
                want = kernels[nm](g[:n].copy(), a1s, a0s, lit)
            finally:
                e4.roots = saved
            chk.eq(f"C08.ns.dispatch[nf={nf},order={n},{nm}]", got, want, fn=fn, goal="dispatcher == the kernel proved above with the literature beta vector", replay=rp,
                   assumptions=[a0s > 0, a1s > 0], ranges={"a0": (0.01, 0.05), "a1": (0.01, 0.05), "*": (0.3, 2.0)})

    chk.parallel(list(ns_tasks()), ns_worker)

    # ---------------------------------------------------------------------------------------------------------------
    # singlet sector
    # ---------------------------------------------------------------------------------------------------------------
    bsym = [T.var(f"beta{k}") for k in range(4)]
    G = np.empty((4, 2, 2), dtype=object)
    for k in range(4):
        G[k] = symmat(f"G{k}_", 2)
    Ksym = T.var("K", "int")
    cnt = {"i": 0}

    def fresh(tag, d=2):
        cnt["i"] += 1
        return symmat(f"{tag}{cnt['i']}_", d)

    # ---- r_vec: R(a) P(a) = gamma(a)/beta0 --------------------------------------------------------------------------
    for order in (1, 2, 3, 4):
        b = [bsym[k] / bsym[0] for k in range(order)]
        for is_exact in (True, False):
            tag = f"C08.r_vec[order={order},exact={is_exact}]"
            fnr = "eko.kernels.singlet:r_vec"
            arrs, reads = [], []

            def on_arr(arr):
                def reader(a, i):
                    M = fresh("rr")
                    reads.append((i, M))
                    return M
                arr.reader = reader
                arrs.append(arr)

            def mk():
                def preserved(env):
                    i, val = arrs[0].writes[-1]
                    kk = env["kk"]
                    # the slot written in an arbitrary iteration kk >= order satisfies  r[kk] + sum_j b_j r[kk-j] == 0
                    tot = val
                    for j in range(1, order):
                        hit = [M for (idx, M) in reads if T.lift(idx).n == T.lift(kk - j).n]
                        if not hit:
                            chk.fail(f"{tag}.loop.reads_r[kk-{j}]", "the loop body does not read r[kk-j]", fn=fnr, replay=rp)
                            return
                        tot = tot + b[j] * hit[-1]
                    chk.eq_array(f"{tag}.loop.recurrence", tot, vnp.zeros((2, 2)), fn=fnr, goal="r[kk] + b1 r[kk-1] + ... == 0 for kk >= order (series of gamma/beta)", replay=rp)
                    chk.ground(f"{tag}.loop.writes_slot_kk", T.lift(i).n == T.lift(kk).n, fn=fnr, goal="the slot written is r[kk]", detail=repr(i))
                return LoopSpec(lambda phase: {}, lambda: T.var("kk", "int"), lambda env, it: None, preserved)

            hook.ACTIVE_CUTS.clear()
            for ordn in (0, 1, 2):
                hook.ACTIVE_CUTS[("eko.kernels.singlet", "r_vec", ordn)] = mk()
            vnp.ABSTRACT_ARRAY_HOOK[0] = on_arr
            try:
                # requires ev_op_max_order >= order - 1 (smaller values are refused with ValueError, C04)
                chk.run_paths(f"{tag}.run", lambda: s.r_vec(G[:order], bsym[:order], (Ksym, 0), (order, 0), is_exact), [Ksym >= order - 1], fn=fnr, replay=rp)
            finally:
                vnp.ABSTRACT_ARRAY_HOOK[0] = None
                hook.ACTIVE_CUTS.clear()
            conc = {i: val for i, val in arrs[0].writes if isinstance(i, int)}
            for k in range(order):
                tot = conc.get(k, vnp.zeros((2, 2)))
                for j in range(1, k + 1):
                    tot = tot + b[j] * conc.get(k - j, vnp.zeros((2, 2)))
                chk.eq_array(f"{tag}.r{k}", tot, G[k] / bsym[0], fn=fnr, goal="r[k] + sum_{j<=k} b_j r[k-j] == gamma_k/beta0 (k < order)", replay=rp)
            n_loops = sum(1 for sp in [hook.ACTIVE_CUTS] if sp)
            ran_loop = any(not isinstance(i, int) for i, _ in arrs[0].writes)
            chk.ground(f"{tag}.tail", ran_loop == (is_exact and order >= 2), fn=fnr,
                       goal="exact: higher r[k] generated by the recurrence; expanded: r[k] = 0 beyond the order", detail=f"loop executed: {ran_loop}")

    # ---- u_vec: algebraic step for arbitrary kk ------------------------------------------------------------------------
    fnu = "eko.kernels.singlet:u_vec"
    R0 = symmat("R0_", 2)

    class RArr:
        def __init__(self, table=None):
            self.table = table or {}
        def __getitem__(self, i):
            if isinstance(i, int) and i == 0:
                return R0
            if isinstance(i, int) and i in self.table:
                return self.table[i]
            return fresh("rk")

    state = {}

    def on_arr_u(arr):
        arr.reader = lambda a, i: fresh("uu")
        state["u"] = arr

    def inner_fresh(phase):
        state["rp"] = fresh("rp")
        return {"rp": state["rp"]}

    def outer_preserved(env):
        i, val = state["u"].writes[-1]
        kk, rpv = env["kk"], env["rp"]
        chk.eq_array("C08.u_vec.step.recurrence", kk * val + val @ R0 - R0 @ val, rpv, fn=fnu, replay=rp,
                     goal="kk U_kk + [U_kk, R_0] == rp  for arbitrary kk and arbitrary rp (projector algebra of exp_matrix_2D inlined)")
        chk.ground("C08.u_vec.step.writes_slot_kk", T.lift(i).n == T.lift(kk).n, fn=fnu, goal="the slot written is u[kk]", detail=repr(i))

    hook.ACTIVE_CUTS.clear()
    hook.ACTIVE_CUTS[("eko.kernels.singlet", "u_vec", 0)] = LoopSpec(lambda phase: {}, lambda: T.var("kk", "int"), lambda env, it: None, outer_preserved)
    hook.ACTIVE_CUTS[("eko.kernels.singlet", "u_vec", 1)] = LoopSpec(inner_fresh, lambda: T.var("jj", "int"), lambda env, it: None, lambda env: None)
    vnp.ABSTRACT_ARRAY_HOOK[0] = on_arr_u
    try:
        s.u_vec(RArr(), (Ksym, 0))
    finally:
        vnp.ABSTRACT_ARRAY_HOOK[0] = None
        hook.ACTIVE_CUTS.clear()
    w0 = [val for i, val in state["u"].writes if isinstance(i, int) and i == 0]
    if w0:
        chk.eq_array("C08.u_vec.u0_is_identity", w0[0], vnp.eye(2), fn=fnu, goal="u[0] == 1", replay=rp)
    else:
        chk.fail("C08.u_vec.u0_is_identity", "u[0] never assigned", fn=fnu, replay=rp)
    # ---- u_vec: the inner loop delivers rp = sum_{j<kk} r[kk-j] u[j]  (concrete kk) ---------------------------------------
    for kk in (1, 2, 3, 5):
        rt = {i: fresh(f"r{i}x") for i in range(1, kk + 1)}
        ut = {j: fresh(f"u{j}x") for j in range(1, kk)}
        ut[0] = vnp.eye(2)          # u[0] is the identity written before the loop
        st2 = {}

        def on_arr_u2(arr):
            arr.reader = lambda a, i: ut[int(i)] if isinstance(i, int) and i in ut else fresh("uz")
            st2["u"] = arr

        def outer_pres2(env):
            want = vnp.zeros((2, 2))
            for j in range(kk):
                want = want + rt[kk - j] @ ut[j]
            chk.eq_array(f"C08.u_vec.inner[kk={kk}]", env["rp"], want, fn=fnu, goal="rp == sum_{j<kk} r[kk-j] @ u[j]", replay=rp)

        hook.ACTIVE_CUTS.clear()
        hook.ACTIVE_CUTS[("eko.kernels.singlet", "u_vec", 0)] = LoopSpec(lambda phase: {}, lambda: kk, lambda env, it: None, outer_pres2)
        vnp.ABSTRACT_ARRAY_HOOK[0] = on_arr_u2
        try:
            s.u_vec(RArr(rt), (Ksym, 0))
        finally:
            vnp.ABSTRACT_ARRAY_HOOK[0] = None
            hook.ACTIVE_CUTS.clear()

    # ---- sum_u ------------------------------------------------------------------------------------------------------------
    a = T.var("a")
    U0 = fresh("su0")
    pw = {"p": None}

    class UVec:
        pass

    def su_fresh(phase):
        pw["p"] = T.var(f"pw{phase}")
        pw["res"] = fresh("sres")
        return {"res": pw["res"].copy(), "p": pw["p"]}     # the body updates res in place: keep our own copy

    uk = fresh("suk")

    def su_entry(env, it):
        chk.eq_array("C08.sum_u.after_first.res", env["res"], U0, fn="eko.kernels.singlet:sum_u", goal="after u[0]: res == u[0]", replay=rp)
        chk.eq("C08.sum_u.after_first.p", env["p"], a, fn="eko.kernels.singlet:sum_u", goal="after u[0]: p == a", replay=rp)

    def su_pres(env):
        chk.eq_array("C08.sum_u.step.res", env["res"], pw["res"] + pw["p"] * uk, fn="eko.kernels.singlet:sum_u", goal="res' == res + p u[k]", replay=rp)
        chk.eq("C08.sum_u.step.p", env["p"], pw["p"] * a, fn="eko.kernels.singlet:sum_u", goal="p' == p a", replay=rp)

    hook.ACTIVE_CUTS[("eko.kernels.singlet", "sum_u", 0)] = LoopSpec(su_fresh, lambda: uk, su_entry, su_pres, prefix=lambda lz, env: [U0])
    try:
        s.sum_u(UVec(), a)
    finally:
        hook.ACTIVE_CUTS.clear()

    # ---- eko_truncated on generic 3x3 matrices -------------------------------------------------------------------------------
    a0s, a1s = T.var("a0"), T.var("a1")
    d = 3
    Us = [vnp.eye(d)] + [symmat(f"U{k}_", d) for k in (1, 2, 3)]
    E0 = symmat("E0_", d)
    V = [vnp.eye(d)]
    for j in range(1, 4):
        acc = vnp.zeros((d, d))
        for k in range(1, j + 1):
            acc = acc + Us[k] @ V[j - k]
        V.append(-acc)
    s_r, s_u, s_lo = s.r_vec, s.u_vec, s.lo_exact
    s.r_vec = lambda *a_: None
    s.u_vec = lambda r_, o_: [u.copy() for u in Us]
    s.lo_exact = lambda *a_: E0.copy()
    try:
        for n in (1, 2, 3, 4):
            got = s.eko_truncated(None, a1s, a0s, None, (n, 0))
            want = vnp.zeros((d, d))
            for i in range(n):
                for j in range(n - i):
                    want = want + (a1s**i * a0s**j) * (Us[i] @ E0 @ V[j])
            chk.eq_array(f"C08.eko_truncated[order={n}]", got, want, fn="eko.kernels.singlet:eko_truncated", replay=rp,
                         goal="e == sum_{i+j<n} a1^i a0^j U_i E_0 V_j,  V = (sum a0^k U_k)^-1 as a series  (generic 3x3 matrices)")
    finally:
        s.r_vec, s.u_vec, s.lo_exact = s_r, s_u, s_lo

    # ---- eko_perturbative: every step multiplies by U(ah) E_0(ah,al) U(al)^-1 --------------------------------------------------
    calls = {}

    def sum_u_stub(uvec, x):
        M = fresh("SU")
        calls.setdefault("sum_u", []).append((x, M))
        return M

    def lo_stub(gs, xh, xl, bet):
        M = fresh("LO")
        calls.setdefault("lo", []).append((xh, xl, M))
        return M

    pst = {}

    def p_fresh(phase):
        pst["e"] = fresh("Pe")
        pst["al"] = T.var(f"al{phase}")
        calls.clear()
        return {"e": pst["e"].copy(), "al": pst["al"]}

    def p_pres(env):
        ah = T.var("ah")
        su = calls.get("sum_u", [])
        lo = calls.get("lo", [])
        ok = len(su) == 2 and len(lo) == 1
        chk.ground("C08.eko_perturbative.step.calls", ok, fn="eko.kernels.singlet:eko_perturbative", goal="one LO kernel and two U sums per step", detail=f"{len(su)} sum_u, {len(lo)} lo_exact")
        if not ok:
            return
        args_ok = (T.lift(lo[0][0]).n == ah.n and T.lift(lo[0][1]).n == pst["al"].n and {T.lift(su[0][0]).n, T.lift(su[1][0]).n} == {ah.n, pst["al"].n})
        chk.ground("C08.eko_perturbative.step.arguments", args_ok, fn="eko.kernels.singlet:eko_perturbative", goal="E_0(ah, al), U(ah), U(al) are evaluated at the step's couplings")
        Uh = [M for x, M in su if T.lift(x).n == ah.n]
        Ul = [M for x, M in su if T.lift(x).n == pst["al"].n]
        if Uh and Ul:
            chk.eq_array("C08.eko_perturbative.step.product", env["e"], (Uh[0] @ lo[0][2] @ vnp.linalg.inv(Ul[0])) @ pst["e"], fn="eko.kernels.singlet:eko_perturbative", replay=rp,
                         goal="e' == U(ah) E_0(ah,al) U(al)^-1 e")
        chk.eq("C08.eko_perturbative.step.al_advances", env["al"], ah, fn="eko.kernels.singlet:eko_perturbative", goal="al' == ah")

    s_su, s_lo2, s_r2, s_u2 = s.sum_u, s.lo_exact, s.r_vec, s.u_vec
    s.sum_u, s.lo_exact, s.r_vec, s.u_vec = sum_u_stub, lo_stub, (lambda *a_: None), (lambda *a_: None)
    hook.ACTIVE_CUTS[("eko.kernels.singlet", "eko_perturbative", 0)] = LoopSpec(
        p_fresh, lambda: T.var("ah"),
        lambda env, it: chk.eq_array("C08.eko_perturbative.entry", env["e"], vnp.eye(2), fn="eko.kernels.singlet:eko_perturbative", goal="e == 1 before the first step"),
        p_pres)
    try:
        for is_exact in (True, False):
            s.eko_perturbative(G[:2], a1s, a0s, bsym[:2], (2, 0), T.var("N", "int"), (Ksym, 0), is_exact)
    finally:
        s.sum_u, s.lo_exact, s.r_vec, s.u_vec = s_su, s_lo2, s_r2, s_u2
        hook.ACTIVE_CUTS.clear()
    # dispatcher: truncated / ordered-truncated / perturbative-* reach these functions with the literature beta vector
    seen = {}
    s_tr, s_pe = s.eko_truncated, s.eko_perturbative
    s.eko_truncated = lambda gs, x1, x0, bet, order: seen.setdefault("call", ("truncated", list(bet), order))
    s.eko_perturbative = lambda gs, x1, x0, bet, order, it, mo, ex: seen.setdefault("call", ("perturbative", list(bet), order, it, mo, ex))
    try:
        for nf in (3, 4, 5, 6):
            for n in (2, 3, 4):
                for m, want in ((EvoMethods.TRUNCATED, "truncated"), (EvoMethods.ORDERED_TRUNCATED, "truncated"), (EvoMethods.PERTURBATIVE_EXACT, "perturbative"), (EvoMethods.PERTURBATIVE_EXPANDED, "perturbative")):
                    seen.clear()
                    for pt, pc, _ in chk.run_paths(f"C08.singlet.dispatch[nf={nf},order={n},{m.name}]", lambda: s.dispatcher((n, 0), m, G[:n], a1s, a0s, nf, 3, (5, 0)),
                                                   [a0s > 0, a1s > 0, T.cmp("!=", a1s, a0s)], fn="eko.kernels.singlet:dispatcher", replay=rp):
                        c = seen.get("call")
                        ok = c is not None and c[0] == want and c[2] == (n, 0)
                        if ok and want == "perturbative":
                            ok = c[3] == 3 and c[4] == (5, 0) and c[5] == (m is EvoMethods.PERTURBATIVE_EXACT)
                        chk.ground(f"{pt}.target", bool(ok), fn="eko.kernels.singlet:dispatcher", goal="dispatches to the function proved above with (order, iterations, max order, exactness)", detail=repr(c)[:200])
                        if c is not None:
                            for k in range(n):
                                chk.eq(f"{pt}.beta{k}", c[1][k], spec_beta_qcd(k, nf), fn="eko.kernels.singlet:dispatcher", goal="literature beta vector")
    finally:
        s.eko_truncated, s.eko_perturbative = s_tr, s_pe
