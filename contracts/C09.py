"""C09 -- singlet solutions reduce to non-singlet ones for commuting (diagonal) anomalous dimensions.

requires gamma_k = diag(p_k, q_k)  (p_0 != q_0).  Ensures, for order 1-4 and nf 3-6:
  * LO, decompose-exact, decompose-expanded, truncated, ordered-truncated:
        S.dispatcher(...)[0,0] == NS.dispatcher(same method, gamma = p),  [1,1] == NS(q),  off-diagonal entries == 0
    (exact identities; the square root sqrt((P-Q)^2) of exp_matrix_2D is handled by a sign atom, i.e. both branches)
  * iterate-*, perturbative-*: the result is diagonal for ANY number of iterations (loop invariant), and for 1..2 iterations
    (bounded in that parameter) entry [0,0] does not depend on q and [1,1] is the same function evaluated on q
    (= "the same scalar code path applied to each entry").  Closeness to the closed-form NS kernels is not claimed.
"""
from fractions import Fraction as Q

import numpy as np

from pyvc import terms as T
from pyvc import vnp, hook
from pyvc.hook import LoopSpec
from pyvc.replay import script
from contracts.common import symmat

REPLAY = '''
def replay():
    from eko.kernels import non_singlet as ns, singlet as s, EvoMethods
    rng = np.random.default_rng(9)
    out = []
    exact_set = %(exact_set)s
    for nf in (3, 4, 5, 6):
        for order in (1, 2, 3, 4):
            p = (rng.normal(size=order) + 1j * rng.normal(size=order)) * 3.0 ** np.arange(order)
            q = (rng.normal(size=order) + 1j * rng.normal(size=order)) * 3.0 ** np.arange(order)
            G = np.zeros((order, 2, 2), dtype=complex); G[:, 0, 0] = p; G[:, 1, 1] = q
            for (a1, a0) in ((0.012, 0.03), (0.03, 0.012)):
                for m in EvoMethods:
                    K = s.dispatcher((order, 0), m, G, a1, a0, nf, 3, (3, 0))
                    if max(abs(K[0, 1]), abs(K[1, 0])) > 1e-12: out.append(f"{m.name} order {order} nf {nf}: off-diagonal {K[0,1]}, {K[1,0]}")
                    if m in exact_set or order == 1:
                        k0 = ns.dispatcher((order, 0), m, p, a1, a0, nf); k1 = ns.dispatcher((order, 0), m, q, a1, a0, nf)
                        d = max(abs(K[0, 0] - k0) / abs(k0), abs(K[1, 1] - k1) / abs(k1))
                        if d > 1e-9: out.append(f"{m.name} order {order} nf {nf} a1={a1}: singlet diag vs non-singlet rel. diff {d:.2e}")
    return bool(out), "; ".join(out[:6]) if out else "diagonal singlet kernels equal the non-singlet kernels natively"
'''


def run(chk):
    from eko.kernels import non_singlet as ns, singlet as s, EvoMethods
    from eko.kernels import as4_evolution_integrals as e4

    # two oracles: the one attached to the ORDERED_TRUNCATED obligations reproduces the recorded finding F05, the other one must stay silent on the pinned tree
    rp_all = script(REPLAY % dict(exact_set="[EvoMethods.DECOMPOSE_EXACT, EvoMethods.DECOMPOSE_EXPANDED, EvoMethods.TRUNCATED]"), kind="diag_singlet_vs_ns_oracle")
    rp_ot = script(REPLAY % dict(exact_set="[EvoMethods.ORDERED_TRUNCATED]"), kind="diag_singlet_vs_ns_oracle_ordered_truncated")
    chk.trust("atom law sqrt(t^2) = sigma t with sigma^2 = 1 (both branches)", "roots() through its contract (opaque values)", "lemma: loop invariant induction")
    chk.uncovered("iterated and perturbative methods 'within their discretisation/truncation accuracy' of the closed-form NS kernel (a numerical statement)")
    chk.bounded_parts.append("iterate-*: 'same scalar function on each entry' proved for ev_op_iterations in {1,2} (bounded -- not proved beyond); diagonal structure proved for any iteration count")
    chk.uncovered("perturbative-*: only the diagonal structure (any iteration count, ev_op_max_order = 3) is proved; entrywise equality with the scalar path is not claimed")
    a0, a1 = T.var("a0"), T.var("a1")
    p = [T.var(f"p{k}") for k in range(4)]
    q = [T.var(f"q{k}") for k in range(4)]
    q2 = [T.var(f"qq{k}") for k in range(4)]
    RANGES = {"a0": (0.01, 0.05), "a1": (0.01, 0.05), "*": (0.3, 2.0)}

    def diag(pp, qq, n):
        G = np.empty((n, 2, 2), dtype=object)
        for k in range(n):
            G[k] = vnp.zeros((2, 2))
            G[k][0, 0] = pp[k]
            G[k][1, 1] = qq[k]
        return G

    exact_methods = [EvoMethods.DECOMPOSE_EXACT, EvoMethods.DECOMPOSE_EXPANDED, EvoMethods.TRUNCATED, EvoMethods.ORDERED_TRUNCATED]
    chk.under_contract("eko.kernels.singlet:dispatcher", "eko.kernels.singlet:*", "eko.kernels.non_singlet:dispatcher", "eko.kernels.non_singlet:*",
                       "ekore.anomalous_dimensions:exp_matrix_2D")
    saved_roots = e4.roots
    e4.roots = lambda b: [T.app(f"cubic_root_{i}", *b) for i in (1, 2, 3)]
    req = [a0 > 0, a1 > 0, T.cmp("!=", a1, a0)]
    nfs = (3, 4, 5, 6) if chk.tier == "thorough" else (3, 6)
    tasks = []
    for nf in nfs:
        for order in (1, 2, 3, 4):
            methods = list(EvoMethods) if order > 1 else [EvoMethods.ITERATE_EXACT, EvoMethods.TRUNCATED]
            for m in methods:
                tasks.append((nf, order, m))

    def opaque(name):
        def f(*args):
            flat = []
            for x in args:
                flat.extend(list(x) if isinstance(x, (list, tuple, np.ndarray)) else [x])
            return T.app(name, *flat)
        return f

    def worker(chk, task):
        nf, order, m = task
        if True:
            if True:
                if True:
                    tag = f"C09[nf={nf},order={order},{m.name}]"
                    fn = "eko.kernels.singlet:dispatcher"
                    rp = rp_ot if m is EvoMethods.ORDERED_TRUNCATED else rp_all
                    G = diag(p, q, order)
                    if order == 4 and m is EvoMethods.DECOMPOSE_EXACT:
                        # both sectors call the same order-4 integrals with the same arguments: compared through opaque values
                        e4.j13_exact, e4.j23_exact, e4.j33_exact = opaque("j13_exact"), opaque("j23_exact"), opaque("j33_exact")
                    if m in exact_methods or order == 1:
                        for ptag, pc, K in chk.run_paths(tag, lambda: s.dispatcher((order, 0), m, G.copy(), a1, a0, nf, 2, (3, 0)), req, fn=fn, replay=rp):
                            k0 = ns.dispatcher((order, 0), m, np.array(p[:order], dtype=object), a1, a0, nf)
                            k1 = ns.dispatcher((order, 0), m, np.array(q[:order], dtype=object), a1, a0, nf)
                            chk.eq(f"{ptag}.entry00_is_ns", K[0, 0], k0, fn=fn, goal="S[0,0] == NS(same method, p)", replay=rp, ranges=RANGES)
                            chk.eq(f"{ptag}.entry11_is_ns", K[1, 1], k1, fn=fn, goal="S[1,1] == NS(same method, q)", replay=rp, ranges=RANGES)
                            chk.eq(f"{ptag}.offdiag01", K[0, 1], 0, fn=fn, goal="S[0,1] == 0", replay=rp, ranges=RANGES)
                            chk.eq(f"{ptag}.offdiag10", K[1, 0], 0, fn=fn, goal="S[1,0] == 0", replay=rp, ranges=RANGES)
                    else:
                        # (a) diagonal for any number of iterations: loop invariant "e is diagonal"
                        N = T.var("N", "int")
                        cnt = {"i": 0}

                        def fresh(phase):
                            cnt["i"] += 1
                            e = vnp.zeros((2, 2))
                            e[0, 0], e[1, 1] = T.var(f"e{phase}{cnt['i']}_0"), T.var(f"e{phase}{cnt['i']}_1")
                            return {"e": e, "al": T.var(f"al{cnt['i']}")}

                        def offdiag(name, env):
                            chk.eq(f"{name}[0,1]", env["e"][0, 1], 0, fn=fn, goal="iterated kernel stays diagonal", replay=rp, ranges=RANGES)
                            chk.eq(f"{name}[1,0]", env["e"][1, 0], 0, fn=fn, goal="iterated kernel stays diagonal", replay=rp, ranges=RANGES)

                        spec = LoopSpec(fresh, lambda: T.var("ah"), lambda env, it: offdiag(f"{tag}.diag.entry", env), lambda env: offdiag(f"{tag}.diag.preserved", env))
                        hook.ACTIVE_CUTS.clear()
                        hook.ACTIVE_CUTS[("eko.kernels.singlet", "eko_iterate", 0)] = spec
                        hook.ACTIVE_CUTS[("eko.kernels.singlet", "eko_perturbative", 0)] = spec
                        try:
                            for ptag, pc, K in chk.run_paths(f"{tag}.diag", lambda: s.dispatcher((order, 0), m, G.copy(), a1, a0, nf, N, (3, 0)), req + [N >= 1], fn=fn, replay=rp):
                                offdiag(f"{ptag}.result", {"e": K})
                        finally:
                            hook.ACTIVE_CUTS.clear()
                        # (b) same scalar function on each entry, bounded iteration counts
                        if chk.tier == "thorough":
                            its = (1, 2) if order <= 3 else (1,)
                        else:
                            its = (1, 2) if order == 2 else ((1,) if order == 3 else ())
                        if m in (EvoMethods.PERTURBATIVE_EXACT, EvoMethods.PERTURBATIVE_EXPANDED):
                            its = ()   # U-matrix tower on symbolic input: normal forms too large; only the diagonal structure is claimed
                        for nit in its:
                            f = lambda pp, qq: s.dispatcher((order, 0), m, diag(pp, qq, order), a1, a0, nf, nit, (3, 0))
                            for ptag, pc, K in chk.run_paths(f"{tag}.entries[it={nit}]", lambda: f(p, q), req, fn=fn, replay=rp):
                                for _, _, K2 in chk.run_paths(f"{tag}.entries2[it={nit}]", lambda: f(p, q2), req + list(pc), fn=fn, replay=rp):
                                    chk.eq(f"{ptag}.entry00_independent_of_q", K[0, 0], K2[0, 0], fn=fn, goal="S[0,0](p,q) == S[0,0](p,q')", replay=rp, ranges=RANGES)
                                for _, _, K3 in chk.run_paths(f"{tag}.entries3[it={nit}]", lambda: f(q, p), req + list(pc), fn=fn, replay=rp):
                                    chk.eq(f"{ptag}.entry11_same_function", K[1, 1], K3[0, 0], fn=fn, goal="S[1,1](p,q) == S[0,0](q,p)", replay=rp, ranges=RANGES)
                    chk.configs += 1

    try:
        chk.parallel(tasks, worker)
    finally:
        e4.roots = saved_roots
    chk.extra["exhaustive"] = chk.tier == "thorough"
