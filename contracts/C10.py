"""C10 -- evolution kernels are trivial at equal couplings and compose where exact.

 (i)  a1 == a0 (the same value)  =>  kernel == 1 / identity matrix: every NS and singlet method, order, nf; QED kernels when all
      couplings of the step list coincide and mu2_from == mu2_to (any number of steps, by loop invariant).
 (ii) K(a2,a1) K(a1,a0) == K(a2,a0) for the NS exact family, the NS expanded family, NS ordered-truncated, and LO singlet
      (corollary a2 = a0: backward kernel is the inverse of the forward one).
Not claimed: "the iterated singlet kernel composes up to its discretisation error".
"""
from fractions import Fraction as Q

import numpy as np

from pyvc import terms as T
from pyvc import vnp, hook
from pyvc.explore import explore
from pyvc.hook import LoopSpec
from pyvc.replay import script
from contracts.common import symmat
from contracts.C07 import log_of

REPLAY = '''
def replay():
    from eko.kernels import non_singlet as ns, singlet as s, non_singlet_qed as nsq, singlet_qed as sq, valence_qed as vq, EvoMethods
    rng = np.random.default_rng(2)
    out = []
    g = rng.normal(size=4) + 1j * rng.normal(size=4)
    G = rng.normal(size=(4, 2, 2)) + 1j * rng.normal(size=(4, 2, 2))
    a = 0.021
    for nf in (3, 4, 5, 6):
        for order in (1, 2, 3, 4):
            for m in EvoMethods:
                k = ns.dispatcher((order, 0), m, g[:order], a, a, nf)
                if not abs(k - 1) <= 1e-12: out.append(f"NS {m.name} order {order} nf {nf}: K(a,a) = {k}")
                K = s.dispatcher((order, 0), m, G[:order], a, a, nf, 3, (4, 0))
                if not np.max(np.abs(K - np.eye(2))) <= 1e-12: out.append(f"singlet {m.name} order {order} nf {nf}: K(a,a) != 1 ({K.tolist()})")
            a0, a1, a2 = 0.03, 0.019, 0.011
            for m in (EvoMethods.ITERATE_EXACT, EvoMethods.ITERATE_EXPANDED, EvoMethods.ORDERED_TRUNCATED):
                lhs = ns.dispatcher((order, 0), m, g[:order], a2, a1, nf) * ns.dispatcher((order, 0), m, g[:order], a1, a0, nf)
                rhs = ns.dispatcher((order, 0), m, g[:order], a2, a0, nf)
                if abs(lhs - rhs) > 1e-10 * abs(rhs): out.append(f"NS {m.name} order {order} nf {nf}: composition off by {abs(lhs-rhs)/abs(rhs):.2e}")
        for (x0, x1, x2) in ((0.03, 0.019, 0.011), (0.03, 0.03 * (1 + 3e-6), 0.011), (0.02, 0.011, 0.011 * (1 - 2e-6)), (0.02, 0.02 * (1 + 1e-7), 0.02 * (1 + 9e-6))):
            L = s.dispatcher((1, 0), EvoMethods.ITERATE_EXACT, G[:1], x2, x1, nf, 1, (1, 0)) @ s.dispatcher((1, 0), EvoMethods.ITERATE_EXACT, G[:1], x1, x0, nf, 1, (1, 0))
            R = s.dispatcher((1, 0), EvoMethods.ITERATE_EXACT, G[:1], x2, x0, nf, 1, (1, 0))
            if not np.max(np.abs(L - R)) <= 1e-9 * np.max(np.abs(R)): out.append(f"LO singlet composition nf {nf} couplings {(x0, x1, x2)}: off by {np.max(np.abs(L - R)):.2e}")
    for order in ((1, 1), (2, 2), (3, 1), (4, 2)):
        GG = rng.normal(size=(order[0] + 1, order[1] + 1)) + 0j
        asl = np.array([a] * 4); aem = np.array([0.0007] * 3)
        k = nsq.exact(order, GG, asl, aem, 4, 3, 10.0, 10.0)
        if abs(k - 1) > 1e-12: out.append(f"QED NS order {order}: K = {k} at equal couplings and scales")
        for dim, disp in ((4, sq.dispatcher), (2, vq.dispatcher)):
            G4 = rng.normal(size=(order[0] + 1, order[1] + 1, dim, dim)) + 0j
            K = disp(order, EvoMethods.ITERATE_EXACT, G4, asl, np.array([[a, 0.0007]] * 3), 4, 3, (1, 0))
            if np.max(np.abs(K - np.eye(dim))) > 1e-12: out.append(f"QED dim {dim} order {order}: K != 1 at equal couplings")
    return bool(out), "; ".join(out[:6]) if out else "native kernels are trivial at equal couplings and compose where exact"
'''


def run(chk):
    from eko.kernels import non_singlet as ns, singlet as s, non_singlet_qed as nsq, singlet_qed as sq, valence_qed as vq, EvoMethods
    from eko.kernels import as4_evolution_integrals as e4
    from ekore import anomalous_dimensions as ad
    from contracts.C20 import spec_beta_qcd

    rp = script(REPLAY, kind="identity_composition_oracle")
    chk.trust("lemma MatExp(0) = 1 (instance of the exp_matrix contract of C23)",
              "lemma: loop invariant induction", "roots() used through its contract (opaque values)")
    chk.assume("order 4 composition is proved through dD/da2 = 0 and D(a2=a1) = 0 with the FTC lemma: assumes the complex logarithms are differentiable along [a1,a2] (no branch cut crossed)",
               "composition at orders 2-3 requires a_i > 0 and 1 + b1 a_i (+ b2 a_i^2) > 0 (perturbative range)")
    chk.uncovered("the iterated singlet kernel composes only up to its discretisation error (not an exact statement)")
    a0, a1, a2 = T.var("a0"), T.var("a1"), T.var("a2")
    g = np.array([T.var(f"g{k}") for k in range(4)], dtype=object)
    G = np.empty((4, 2, 2), dtype=object)
    for k in range(4):
        G[k] = symmat(f"G{k}_", 2)
    N, KM = T.var("N", "int"), T.var("Kmax", "int")
    RANGES = {"a0": (0.01, 0.05), "a1": (0.01, 0.05), "a2": (0.01, 0.05), "*": (0.3, 2.0)}
    chk.under_contract("eko.kernels.non_singlet:dispatcher", "eko.kernels.non_singlet:*", "eko.kernels.singlet:dispatcher", "eko.kernels.singlet:lo_exact",
                       "eko.kernels.non_singlet_qed:exact", "eko.kernels.non_singlet_qed:fixed_alphaem_exact", "eko.kernels.singlet_qed:eko_iterate",
                       "eko.kernels.valence_qed:dispatcher")
    saved_roots = e4.roots
    e4.roots = lambda b: [T.app(f"cubic_root_{i}", *b) for i in (1, 2, 3)]
    try:
        # ---- (i) identity ---------------------------------------------------------------------------------
        for nf in (3, 4, 5, 6):
            for order in (1, 2, 3, 4):
                for m in EvoMethods:
                    tag = f"C10.identity[nf={nf},order={order},{m.name}]"
                    for pt, pc, k in chk.run_paths(f"{tag}.ns", lambda: ns.dispatcher((order, 0), m, g[:order].copy(), a0, a0, nf), [a0 > 0], fn="eko.kernels.non_singlet:dispatcher", replay=rp):
                        chk.eq(pt, k, 1, fn="eko.kernels.non_singlet:dispatcher", goal="K_ns(a0,a0) == 1", replay=rp, ranges=RANGES)
                    for pt, pc, K in chk.run_paths(f"{tag}.singlet", lambda: s.dispatcher((order, 0), m, G[:order].copy(), a0, a0, nf, 2, (3, 0)), [a0 > 0], fn="eko.kernels.singlet:dispatcher", replay=rp):
                        chk.eq_array(pt, K, vnp.eye(2), fn="eko.kernels.singlet:dispatcher", goal="K_singlet(a0,a0) == identity", replay=rp)
                    chk.configs += 1
        # ---- (ii) composition, NS --------------------------------------------------------------------------
        fam = {"exact": EvoMethods.ITERATE_EXACT, "expanded": EvoMethods.ITERATE_EXPANDED, "ordered_truncated": EvoMethods.ORDERED_TRUNCATED}
        for nf in (3, 4, 5, 6):
            betas = [spec_beta_qcd(k, nf) for k in range(4)]
            b = [bk / betas[0] for bk in betas]
            for order in (1, 2, 3, 4):
                pos = []
                for a in (a0, a1, a2):
                    pos.append(a > 0)
                    if order >= 2:
                        pos.append(1 + sum((b[i] * a**i for i in range(1, order if order < 4 else 3)), T.ZERO) > 0)
                    if order == 2:
                        pos.append(1 + a * b[1] > 0)
                for nm, m in fam.items():
                    tag = f"C10.compose[nf={nf},order={order},{nm}]"
                    f = lambda x, y: ns.dispatcher((order, 0), m, g[:order].copy(), x, y, nf)
                    k21, k10, k20 = f(a2, a1), f(a1, a0), f(a2, a0)
                    if nm == "ordered_truncated" and order > 1:
                        # e0 * num/den : compare the exponential parts and the rational parts separately (sufficient)
                        chk.eq(f"{tag}", k21 * k10, k20, fn="eko.kernels.non_singlet:dispatcher", goal="K(a2,a1) K(a1,a0) == K(a2,a0)", replay=rp,
                               assumptions=pos, ranges=RANGES)
                    else:
                        try:
                            lhs = log_of(k21) + log_of(k10)
                            rhs = log_of(k20)
                        except ValueError as e:
                            chk.fail(tag, str(e), fn="eko.kernels.non_singlet:dispatcher", replay=rp)
                            continue
                        if order == 4 and nm == "exact":
                            # complex logarithms: D := X(a2,a1)+X(a1,a0)-X(a2,a0) has dD/da2 == 0 and D(a2:=a1) == 0  (FTC lemma, as in C07)
                            D = lhs - rhs
                            chk.eq(f"{tag}.dD_da2", T.diff(D, "a2"), 0, fn="eko.kernels.non_singlet:dispatcher", goal="d/da2 [X(a2,a1)+X(a1,a0)-X(a2,a0)] == 0", replay=rp, ranges=RANGES)
                            chk.eq(f"{tag}.D_at_a2=a1", T.subst(D, {"a2": a1}), 0, fn="eko.kernels.non_singlet:dispatcher", goal="X(a1,a1)+X(a1,a0)-X(a1,a0) == 0", replay=rp, ranges=RANGES)
                        else:
                            chk.eq(f"{tag}", lhs, rhs, fn="eko.kernels.non_singlet:dispatcher", goal="exponents add: X(a2,a1) + X(a1,a0) == X(a2,a0)", replay=rp,
                                   assumptions=pos, ranges=RANGES)
                    chk.configs += 1
    finally:
        e4.roots = saved_roots
    # ---- LO singlet composition -------------------------------------------------------------------------------
    beta0 = T.var("beta0")
    K21, K10, K20 = (s.lo_exact(G[:1], x, y, [beta0]) for x, y in ((a2, a1), (a1, a0), (a2, a0)))
    chk.eq_array("C10.compose.lo_singlet", K21 @ K10, K20, fn="eko.kernels.singlet:lo_exact", goal="E0(a2,a1) E0(a1,a0) == E0(a2,a0)", replay=rp,
                 assumptions=[a0 > 0, a1 > 0, a2 > 0], ranges=RANGES)
    # the same through the dispatcher, on every feasible path of its equal-coupling test (pairwise distinct couplings)
    distinct = [a0 > 0, a1 > 0, a2 > 0, T.cmp("!=", a1, a0), T.cmp("!=", a2, a1), T.cmp("!=", a2, a0)]
    for nf in (3, 4, 5, 6):
        disp = lambda x, y: s.dispatcher((1, 0), EvoMethods.ITERATE_EXACT, G[:1].copy(), x, y, nf, 1, (1, 0))
        for t1, pc1, D21 in chk.run_paths(f"C10.compose.lo_singlet.dispatcher[nf={nf}].k21", lambda: disp(a2, a1), distinct, fn="eko.kernels.singlet:dispatcher", replay=rp):
            for t2, pc2, D10 in chk.run_paths(f"{t1}.k10", lambda: disp(a1, a0), distinct + list(pc1), fn="eko.kernels.singlet:dispatcher", replay=rp):
                for t3, pc3, D20 in chk.run_paths(f"{t2}.k20", lambda: disp(a2, a0), distinct + list(pc1) + list(pc2), fn="eko.kernels.singlet:dispatcher", replay=rp):
                    chk.eq_array(f"{t3}", D21 @ D10, D20, fn="eko.kernels.singlet:dispatcher", replay=rp, ranges=RANGES,
                                 goal="LO singlet through the dispatcher: K(a2,a1) K(a1,a0) == K(a2,a0) for pairwise distinct couplings",
                                 assumptions=distinct + list(pc1) + list(pc2) + list(pc3))

    # ---- QED kernels at equal couplings ---------------------------------------------------------------------------
    a, aem, mu = T.var("a"), T.var("aem"), T.var("mu2")

    class Const:
        def __init__(self, v):
            self.v = v
        def __getitem__(self, i):
            if isinstance(i, tuple):
                return self.v[i[1]]
            return self.v

    for order in ((1, 1), (2, 1), (3, 2), (4, 2)):
        n, m = order
        GG = symmat("q", n + 1, m + 1)
        tag = f"C10.identity.qed_ns[order={order}]"
        hook.ACTIVE_CUTS.clear()
        NSKEY = ("eko.kernels.non_singlet_qed", "exact", "iter:ev_op_iterations")      # the loop over the evolution steps; its accumulator is found by its role, not its name
        acc_ns = lambda: hook.ACTIVE_CUTS[NSKEY].accumulator()  # noqa: E731
        hook.ACTIVE_CUTS[NSKEY] = LoopSpec(
            lambda phase: {acc_ns(): Q(1)}, lambda: T.var("step", "int"),
            lambda env, it: chk.eq(f"{tag}.loop_entry", env[acc_ns()], 1, fn="eko.kernels.non_singlet_qed:exact", goal="res == 1 on entry"),
            lambda env: chk.eq(f"{tag}.loop_preserved", env[acc_ns()], 1, fn="eko.kernels.non_singlet_qed:exact", goal="res == 1 preserved by an arbitrary step with equal couplings and scales", replay=rp, assumptions=[mu > 0]))
        saved_roots = e4.roots
        e4.roots = lambda b: [T.app(f"cubic_root_{i}", *b) for i in (1, 2, 3)]
        try:
            k = nsq.exact(order, GG, Const(a), Const(aem), 4, N, mu, mu)
            chk.eq(f"{tag}.result", k, 1, fn="eko.kernels.non_singlet_qed:exact", goal="QED NS kernel == 1", replay=rp)
        finally:
            e4.roots = saved_roots
            hook.ACTIVE_CUTS.clear()
        for dim, disp, fnm in ((4, sq.dispatcher, "eko.kernels.singlet_qed:dispatcher"), (2, vq.dispatcher, "eko.kernels.valence_qed:dispatcher")):
            G4 = np.empty((n + 1, m + 1, dim, dim), dtype=object)
            for i in range(n + 1):
                for j in range(m + 1):
                    G4[i, j] = symmat(f"q{i}{j}_", dim)
            tagq = f"C10.identity.qed[dim={dim},order={order}]"

            def matexp_stub(M):
                from pyvc import poly as P
                if all(P.prove_zero(x)[0] for x in np.asarray(M, dtype=object).reshape(-1)):
                    return (vnp.eye(dim), None, None)
                return (symmat("Xfree", dim), None, None)

            QKEY = ("eko.kernels.singlet_qed", "eko_iterate", "iter:ev_op_iterations")
            acc_q = lambda: hook.ACTIVE_CUTS[QKEY].accumulator()  # noqa: E731
            hook.ACTIVE_CUTS[QKEY] = LoopSpec(
                lambda phase: {acc_q(): vnp.eye(dim)}, lambda: T.var("step", "int"),
                lambda env, it: chk.eq_array(f"{tagq}.loop_entry", env[acc_q()], vnp.eye(dim), fn=fnm, goal="e == 1 on entry"),
                lambda env: chk.eq_array(f"{tagq}.loop_preserved", env[acc_q()], vnp.eye(dim), fn=fnm, goal="e == 1 preserved by a step with al == ah", replay=rp))
            saved = ad.exp_matrix
            ad.exp_matrix = matexp_stub
            try:
                K = disp(order, EvoMethods.ITERATE_EXACT, G4, Const(a), Const([a, aem]), 4, N, (1, 0))
                chk.eq_array(f"{tagq}.result", K, vnp.eye(dim), fn=fnm, goal="QED kernel == identity", replay=rp)
            finally:
                ad.exp_matrix = saved
                hook.ACTIVE_CUTS.clear()
    # ---- the iterated singlet kernel is the PATH-ORDERED product of its steps (what "composes up to the discretisation" rests on) -----------------------------
    # exp_matrix_2D is replaced by its contract "some matrix X_j per call"; ensures: step j exponentiates the j-th interval counted from a0 and
    # eko_iterate == X_K @ ... @ X_1 (later steps to the left), so two consecutive evolutions are the ordered product over the concatenated step list
    fni = "eko.kernels.singlet:eko_iterate"
    chk.under_contract(fni)
    bsym = [T.var(f"beta{k}") for k in range(4)]
    saved_exp = ad.exp_matrix_2D
    try:
        for n in (1, 2, 4):
            for K in (1, 2, 3):
                calls = []

                def fake_exp(ln, calls=calls):
                    X = symmat(f"X{len(calls) + 1}_", 2)
                    calls.append(np.array(ln, dtype=object))
                    return X, None, None, None, None

                ad.exp_matrix_2D = fake_exp
                tagi = f"C10.eko_iterate[order={n},iterations={K}]"
                try:
                    got = s.eko_iterate(G[:n].copy(), a1, a0, bsym[:n], (n, 0), K)
                except Exception as e:  # noqa: BLE001
                    chk.raised(f"{tagi}.no_exception", e, fn=fni, replay=rp)
                    continue
                steps = vnp.np_shim.geomspace(a0, a1, 1 + K)
                ok_steps = len(calls) == K
                want = vnp.eye(2)
                for j in range(1, K + 1):
                    want = symmat(f"X{j}_", 2) @ want
                chk.ground(f"{tagi}.one_exponential_per_step", ok_steps, fn=fni, replay=rp, goal="exp_matrix_2D is called once per step", detail=f"{len(calls)} calls")
                chk.eq_array(f"{tagi}.path_ordered_product", got, want, fn=fni, replay=rp, goal="eko_iterate == X_K @ ... @ X_1: the step reaching a1 acts last (stands to the left)")
                for j, ln in enumerate(calls[:K], start=1):
                    al_, ah_ = steps[j - 1], steps[j]
                    h = (ah_ + al_) / 2
                    spec_ln = sum((G[i] * h**i for i in range(n)), vnp.zeros((2, 2))) / sum((bsym[i] * h ** (i + 1) for i in range(n)), Q(0)) * (ah_ - al_)
                    chk.eq_array(f"{tagi}.step{j}_is_the_interval_counted_from_a0", ln, spec_ln, fn=fni, replay=rp, ranges=RANGES,
                                 goal="the j-th exponential is built on [a_(j-1), a_j] of geomspace(a0, a1): gamma(a_half)/beta(a_half) * (a_j - a_(j-1))")
    finally:
        ad.exp_matrix_2D = saved_exp
    chk.extra["exhaustive"] = True
