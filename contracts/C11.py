"""C11 -- every solution, scale-variation and matching prescription conserves sum rules.

Contract: let v be a fixed non-zero row vector with v . gamma_k = 0 for all k (imposed by parametrisation, v = (1, t, ...) with
symbolic t: stronger than the physical v = (1,1) / (1,1,1,0)).  Then v . K = v for K = every singlet kernel (8 methods x orders 1-4 x
nf 3-6), the QED singlet / valence iterated kernels, singlet_variation(_qed), and v . gamma_bar_k = 0 after gamma_variation(_qed); for
build_ome with v . A_k = 0: v . ome = v (forward, expanded-backward, exact-backward).

Modular structure (callers are checked against the callee's contract, each contract is proved on the callee's body):
   exp_matrix_2D :  v.M = 0  =>  v.exp = v,  v.e+ = alpha v,  v.e- = (1-alpha) v              (closed form, sign atoms)
   r_vec         :  v.gamma_k = 0  =>  v.r[k] = 0 for all k         (invariant cut over an abstract array: any ev_op_max_order)
   u_vec         :  v.r[k] = 0 and exp_matrix_2D's contract  =>  v.u[0] = v, v.u[k] = 0 (k >= 1)      (two nested invariant cuts)
   sum_u         :  that  =>  v.sum_u = v                                                          (peel u[0], cut the rest)
   eko_iterate / eko_perturbative / singlet_qed.eko_iterate : loop invariant v.e = v, any ev_op_iterations (T4 cut, unbounded)
   exp_matrix    :  assumed contract MatExp with the lemma  v.M = 0 => v.MatExp(M) = v  (power series); C23 ties exp_matrix to MatExp
"""
from fractions import Fraction as Q

import numpy as np

from pyvc import terms as T
from pyvc import vnp, hook
from pyvc.explore import explore
from pyvc.hook import LoopSpec
from pyvc.replay import script
from contracts.common import symmat, null_row_matrix, fixed_row_matrix, vdot

REPLAY = '''
P = json.loads(%s)
def replay():
    from eko.kernels import singlet as s, singlet_qed as sq, valence_qed as vq, EvoMethods
    from eko.scale_variations import expanded, exponentiated
    from eko.evolution_operator.quad_ker import build_ome, MatchingMethods as MM
    rng = np.random.default_rng(5)
    out = []
    def nullrow(dim, v):
        M = rng.normal(size=(dim, dim)) + 1j * rng.normal(size=(dim, dim))
        M[0] = -(v[1:] @ M[1:]) / v[0]
        return M
    v = np.array([1.0, 1.0])
    G0 = np.array([nullrow(2, v) * 3.0 ** k for k in range(4)])
    # both branches of the eigenvalue ordering (trace with positive / negative real part) and both evolution directions
    for phase in (1.0, -1.0, 1j):
      G = G0 * phase
      for (a_to, a_from) in ((0.012, 0.03), (0.03, 0.012)):
        for nf in (3, 4, 5, 6):
            for order in (1, 2, 3, 4):
                for m in EvoMethods:
                    K = s.dispatcher((order, 0), m, G[:order].copy(), a_to, a_from, nf, 4, (5, 0))
                    if np.max(np.abs(v @ K - v)) > 1e-9 * max(1, np.max(np.abs(K))): out.append(f"singlet {m.name} order {order} nf {nf}: |v.K - v| = {np.max(np.abs(v @ K - v)):.2e}")
    for dim, disp in ((4, sq.dispatcher), (2, vq.dispatcher)):
        vv = np.ones(dim); vv[-1] = 0.0 if dim == 4 else 1.0
        for order in ((1, 1), (2, 1), (3, 2), (4, 2)):
            GG = np.array([[nullrow(dim, np.where(vv == 0, 1e-300, vv)) if False else nullrow(dim, np.ones(dim)) for _ in range(order[1] + 1)] for _ in range(order[0] + 1)])
            w = np.ones(dim)
            asl = np.array([0.03, 0.025, 0.02, 0.017]); ah = np.array([[0.0275, 0.0007], [0.0225, 0.00071], [0.0185, 0.00072]])
            K = disp(order, EvoMethods.ITERATE_EXACT, GG, asl, ah, 4, 3, (1, 0))
            if np.max(np.abs(w @ K - w)) > 1e-9: out.append(f"QED dim {dim} order {order}: |v.K - v| = {np.max(np.abs(w @ K - w)):.2e}")
    for order in (1, 2, 3, 4):
        K = expanded.singlet_variation(G[:order].copy(), 0.02, (order, 0), 4, 0.6, 2)
        if np.max(np.abs(v @ K - v)) > 1e-12: out.append(f"singlet_variation order {order}")
        gb = exponentiated.gamma_variation(G[:order].copy(), (order, 0), 4, 0.6)
        if np.max(np.abs(np.einsum('a,kab->kb', v, gb))) > 1e-9: out.append(f"gamma_variation order {order}")
    v3 = np.ones(3)
    A = np.array([nullrow(3, v3) for _ in range(3)])
    for n in (1, 2, 3):
        for mm in MM:
            K = build_ome(A, (n, 0), 0.02, mm)
            if np.max(np.abs(v3 @ K - v3)) > 1e-10: out.append(f"build_ome {mm.name} n={n}")
    return bool(out), "; ".join(out[:6]) if out else "v.K = v natively for all singlet/QED/SV/matching prescriptions on random null-row input"
'''


def run(chk):
    from eko.kernels import singlet as s, singlet_qed as sq, valence_qed as vq, EvoMethods
    from eko.kernels import as4_evolution_integrals as e4
    from eko.scale_variations import expanded, exponentiated
    from eko.evolution_operator.quad_ker import build_ome, MatchingMethods as MM
    from ekore import anomalous_dimensions as ad

    KMAX = T.var("Kmax", "int")   # ev_op_max_order[0]: symbolic -- nothing below depends on its value
    chk.trust("lemma: v.M = 0  =>  v.MatExp(M) = v (power series of the matrix exponential); exp_matrix(M)[0] = MatExp(M) relative to the LAPACK eig contract (C23)",
              "lemma: an invariant that holds on entry and is preserved by the loop body holds after any number of iterations",
              "contract of as4_evolution_integrals.roots used opaquely (the sum-rule argument does not depend on the values of the roots)")
    import json
    rp = script(REPLAY % json.dumps(json.dumps({})), kind="null_vector_oracle")
    t = T.var("t")
    tv = [t]
    v2 = [T.ONE, t]
    a0, a1 = T.var("a0"), T.var("a1")
    RANGES = {"a0": (0.01, 0.05), "a1": (0.01, 0.05), "*": (0.3, 2.0)}

    def check_fixed(name, K, tvec, fn, goal="v . K == v"):
        if K is None or np.shape(K) != (len(tvec) + 1, len(tvec) + 1):
            chk.fail(name, f"kernel has shape {np.shape(K)}", fn=fn, replay=rp)
            return
        got = vdot(tvec, K)
        want = [T.ONE] + list(tvec)
        for j, (g, w) in enumerate(zip(got, want)):
            chk.eq(f"{name}[{j}]", g, w, fn=fn, goal=goal, replay=rp, ranges=RANGES)

    def check_null(name, M, tvec, fn, goal="v . M == 0"):
        for j, g in enumerate(vdot(tvec, M)):
            chk.eq(f"{name}[{j}]", g, 0, fn=fn, goal=goal, replay=rp, ranges=RANGES)

    # ---------------------------------------------------------------------------------------------------
    # 1. exp_matrix_2D contract relative to v
    # ---------------------------------------------------------------------------------------------------
    fn = "ekore.anomalous_dimensions:exp_matrix_2D"
    chk.under_contract(fn)
    M = null_row_matrix("m", 2, tv)
    exp, lp, lm, ep, em = ad.exp_matrix_2D(M)
    check_fixed("C11.exp_matrix_2D.v_exp", exp, tv, fn, "v.M = 0 => v.exp(M) == v")
    vep, vem = vdot(tv, ep), vdot(tv, em)
    chk.eq("C11.exp_matrix_2D.v_ep_parallel", vep[1], vep[0] * t, fn=fn, goal="v.e+ is a multiple of v", replay=rp)
    chk.eq("C11.exp_matrix_2D.v_em_parallel", vem[1], vem[0] * t, fn=fn, goal="v.e- is a multiple of v", replay=rp)
    chk.eq("C11.exp_matrix_2D.v_ep_em_sum", vep[0] + vem[0], 1, fn=fn, goal="v.e+ + v.e- == v", replay=rp)

    def em2d_stub(Mx):
        """contract stub of exp_matrix_2D relative to v (used inside u_vec): fresh spectral data with v.e+ = alpha v, v.e- = (1-alpha) v"""
        stub.n += 1
        k = stub.n
        alpha = T.var(f"alpha{k}")
        Ep = symmat(f"ep{k}_", 2)
        Em = symmat(f"em{k}_", 2)
        for j in range(2):
            Ep[0, j] = alpha * v2[j] - t * Ep[1, j]
            Em[0, j] = (1 - alpha) * v2[j] - t * Em[1, j]
        ok = all(chk_zero(x) for x in vdot(tv, Mx))
        if not ok:
            raise AssertionError("exp_matrix_2D contract used on a matrix without the null vector")
        return (fixed_row_matrix(f"ex{k}_", 2, tv), T.var(f"rp{k}"), T.var(f"rm{k}"), Ep, Em)

    class stub:
        n = 0

    def chk_zero(x):
        from pyvc import poly as P

        return P.prove_zero(x)[0]

    # ---------------------------------------------------------------------------------------------------
    # 2. r_vec, u_vec, sum_u : proved for ANY ev_op_max_order by invariant cuts over abstract arrays
    # ---------------------------------------------------------------------------------------------------
    G = np.empty((4, 2, 2), dtype=object)
    for k in range(4):
        G[k] = null_row_matrix(f"g{k}_", 2, tv)
    bsym = [T.var(f"beta{k}") for k in range(4)]
    chk.under_contract("eko.kernels.singlet:r_vec", "eko.kernels.singlet:u_vec", "eko.kernels.singlet:sum_u")
    Ksym = T.var("K", "int")
    fresh_n = {"i": 0}

    def fresh_null(tag="n"):
        fresh_n["i"] += 1
        return null_row_matrix(f"{tag}{fresh_n['i']}_", 2, tv)

    def fresh_fixed(tag="f"):
        fresh_n["i"] += 1
        return fixed_row_matrix(f"{tag}{fresh_n['i']}_", 2, tv)

    def fresh_eigen(tag="e"):
        """matrix U with v.U = lambda v for a fresh scalar lambda (covers v.u[0] = v and v.u[k] = 0)"""
        fresh_n["i"] += 1
        lam = T.var(f"lam{fresh_n['i']}")
        U = symmat(f"{tag}{fresh_n['i']}_", 2)
        for j in range(2):
            U[0, j] = lam * v2[j] - t * U[1, j]
        return U

    def fresh_any(tag="x"):
        fresh_n["i"] += 1
        return symmat(f"{tag}{fresh_n['i']}_", 2)

    # r_vec ------------------------------------------------------------------------------------------------
    for order in (1, 2, 3, 4):
        for is_exact in (True, False):
            tag = f"C11.r_vec[order={order},exact={is_exact}]"
            arrs = []

            def on_arr(arr):
                arr.reader = lambda a, i: fresh_null("rr")      # invariant: every slot of r has the null vector
                arrs.append(arr)

            def mk(ordn):
                def preserved(env):
                    i, val = arrs[0].writes[-1]
                    check_null(f"{tag}.loop{ordn}.write", val, tv, "eko.kernels.singlet:r_vec", "v . r[kk] == 0 for the slot written in an arbitrary iteration")
                return LoopSpec(lambda phase: {}, lambda: T.var("kk", "int"), lambda env, it: None, preserved)

            hook.ACTIVE_CUTS.clear()
            for ordn in (0, 1, 2):
                hook.ACTIVE_CUTS[("eko.kernels.singlet", "r_vec", ordn)] = mk(ordn)
            vnp.ABSTRACT_ARRAY_HOOK[0] = on_arr
            try:
                # requires ev_op_max_order >= order - 1 (smaller values are refused with ValueError, C04)
                _paths = chk.run_paths(f"{tag}.run", lambda: s.r_vec(G[:order], bsym[:order], (Ksym, 0), (order, 0), is_exact), [Ksym >= order - 1], fn="eko.kernels.singlet:r_vec", replay=rp)
                r = _paths[0][2] if _paths else None
            finally:
                vnp.ABSTRACT_ARRAY_HOOK[0] = None
                hook.ACTIVE_CUTS.clear()
            for i, val in arrs[0].writes:
                if isinstance(i, int):
                    check_null(f"{tag}.r{i}", val, tv, "eko.kernels.singlet:r_vec", "v . r[k] == 0")
    # u_vec ------------------------------------------------------------------------------------------------
    class RArr:
        def __init__(self):
            self.r0 = fresh_null("r0")
        def __getitem__(self, i):
            if isinstance(i, int) and i == 0:
                return self.r0
            return fresh_null("rk")

    arrs = []

    def on_arr(arr):
        arr.reader = lambda a, i: fresh_eigen("uu")              # invariant on the slots of u: v.u[j] is a multiple of v
        arrs.append(arr)

    def inner_spec():
        return LoopSpec(lambda phase: {"rp": fresh_null("rp")}, lambda: T.var("jj", "int"),
                        lambda env, it: check_null("C11.u_vec.inner.entry", env["rp"], tv, "eko.kernels.singlet:u_vec", "v . rp == 0 on entry of the jj loop"),
                        lambda env: check_null("C11.u_vec.inner.preserved", env["rp"], tv, "eko.kernels.singlet:u_vec", "v . rp == 0 preserved by rp += r[kk-jj] @ u[jj]"))

    def outer_preserved(env):
        i, val = arrs[0].writes[-1]
        check_null("C11.u_vec.outer.write", val, tv, "eko.kernels.singlet:u_vec", "v . u[kk] == 0 for the slot written in an arbitrary iteration kk >= 1")

    hook.ACTIVE_CUTS.clear()
    hook.ACTIVE_CUTS[("eko.kernels.singlet", "u_vec", 0)] = LoopSpec(lambda phase: {}, lambda: T.var("kk", "int"), lambda env, it: None, outer_preserved)
    hook.ACTIVE_CUTS[("eko.kernels.singlet", "u_vec", 1)] = inner_spec()
    vnp.ABSTRACT_ARRAY_HOOK[0] = on_arr
    saved = ad.exp_matrix_2D
    ad.exp_matrix_2D = em2d_stub
    try:
        u = s.u_vec(RArr(), (Ksym, 0))
    finally:
        ad.exp_matrix_2D = saved
        vnp.ABSTRACT_ARRAY_HOOK[0] = None
        hook.ACTIVE_CUTS.clear()
    w0 = [val for i, val in arrs[0].writes if isinstance(i, int) and i == 0]
    chk.ground("C11.u_vec.u0_written_once", len(w0) == 1, fn="eko.kernels.singlet:u_vec", goal="u[0] is assigned exactly once")
    if w0:
        check_fixed("C11.u_vec.u0", w0[0], tv, "eko.kernels.singlet:u_vec", "v . u[0] == v")
    # sum_u ------------------------------------------------------------------------------------------------
    class UVec:
        pass

    def sum_prefix(lazy_iter, env):
        return [fresh_fixed("u0")]                               # first element: v.u0 = v (u_vec's contract)

    hook.ACTIVE_CUTS.clear()
    hook.ACTIVE_CUTS[("eko.kernels.singlet", "sum_u", 0)] = LoopSpec(
        lambda phase: {"res": fresh_fixed("res"), "p": T.var(f"p{phase}")}, lambda: fresh_null("uk"),
        lambda env, it: check_fixed("C11.sum_u.after_first", env["res"], tv, "eko.kernels.singlet:sum_u", "v . res == v after the u[0] term"),
        lambda env: check_fixed("C11.sum_u.preserved", env["res"], tv, "eko.kernels.singlet:sum_u", "v . res == v preserved by res += p * u[k], k >= 1"),
        prefix=sum_prefix)
    try:
        res = s.sum_u(UVec(), a1)
    finally:
        hook.ACTIVE_CUTS.clear()
    check_fixed("C11.sum_u.result", res, tv, "eko.kernels.singlet:sum_u", "v . sum_u(u, a) == v")

    # ---------------------------------------------------------------------------------------------------
    # 3. singlet kernels through the dispatcher, with loop cuts (any ev_op_iterations)
    # ---------------------------------------------------------------------------------------------------
    N = T.var("N", "int")
    state = {}

    def mk_spec(tag, fnname):
        cnt = {"i": 0}

        def fresh(phase):
            cnt["i"] += 1
            return {"e": fixed_row_matrix(f"E{phase}{cnt['i']}_", 2, tv), "al": T.var(f"al{cnt['i']}")}

        def entry(env, iterable):
            check_fixed(f"{tag}.loop_entry", env["e"], tv, fnname, "invariant v.e = v holds on loop entry")

        def preserved(env):
            check_fixed(f"{tag}.loop_preserved", env["e"], tv, fnname, "invariant v.e = v preserved by the loop body (arbitrary iteration)")

        return LoopSpec(fresh, lambda: T.var("ah"), entry, preserved)

    def sum_u_stub(uvec, a):
        stub.n += 1
        return fixed_row_matrix(f"su{stub.n}_", 2, tv)

    chk.under_contract("eko.kernels.singlet:dispatcher", "eko.kernels.singlet:lo_exact", "eko.kernels.singlet:eko_iterate", "eko.kernels.singlet:eko_perturbative",
                       "eko.kernels.singlet:eko_truncated", "eko.kernels.singlet:nlo_decompose*", "eko.kernels.singlet:nnlo_decompose*", "eko.kernels.singlet:n3lo_decompose*")
    saved_roots = e4.roots
    e4.roots = lambda b: [T.app(f"cubic_root_{i}", *b) for i in (1, 2, 3)]
    nfs = (3, 4, 5, 6) if chk.tier == "thorough" else (4, 6)
    try:
        for nf in nfs:
            for order in (1, 2, 3, 4):
                for method in EvoMethods:
                    tag = f"C11.singlet[nf={nf},order={order},{method.name}]"
                    fnname = "eko.kernels.singlet:dispatcher"
                    hook.ACTIVE_CUTS.clear()
                    hook.ACTIVE_CUTS[("eko.kernels.singlet", "eko_iterate", 0)] = mk_spec(tag, "eko.kernels.singlet:eko_iterate")
                    hook.ACTIVE_CUTS[("eko.kernels.singlet", "eko_perturbative", 0)] = mk_spec(tag, "eko.kernels.singlet:eko_perturbative")
                    s_sum_u, s_u_vec, s_r_vec = s.sum_u, s.u_vec, s.r_vec
                    if method in (EvoMethods.PERTURBATIVE_EXACT, EvoMethods.PERTURBATIVE_EXPANDED):
                        # callees replaced by their contracts (proved in section 2)
                        s.sum_u = sum_u_stub
                        s.u_vec = lambda r, mo: None
                        s.r_vec = lambda *a: None
                    s_dec = (s.nlo_decompose, s.nnlo_decompose, s.n3lo_decompose)
                    if method in (EvoMethods.DECOMPOSE_EXACT, EvoMethods.DECOMPOSE_EXPANDED):
                        # the evolution integrals enter only as scalar weights: the sum rule is proved for arbitrary scalars
                        def generalise(real):
                            def w(gam, *js):
                                fresh_n["i"] += 1
                                return real(gam, *[T.var(f"j{fresh_n['i']}_{q}") for q in range(len(js))])
                            return w
                        s.nlo_decompose, s.nnlo_decompose, s.n3lo_decompose = (generalise(f) for f in s_dec)
                    if method in (EvoMethods.TRUNCATED, EvoMethods.ORDERED_TRUNCATED):
                        s.r_vec = lambda *a: None
                        s.u_vec = lambda r, mo: [fresh_fixed("tu0")] + [fresh_null("tu") for _ in range(3)]
                    try:
                        paths = explore(lambda: s.dispatcher((order, 0), method, G[:order].copy(), a1, a0, nf, N, (KMAX, 0)), [a0 > 0, a1 > 0, N >= 1, KMAX >= 1])
                    finally:
                        s.sum_u, s.u_vec, s.r_vec = s_sum_u, s_u_vec, s_r_vec
                        s.nlo_decompose, s.nnlo_decompose, s.n3lo_decompose = s_dec
                        hook.ACTIVE_CUTS.clear()
                    for k, pr in enumerate(paths):
                        if pr.exc is not None:
                            chk.raised(f"{tag}.path{k}.no_exception", pr.exc, fn=fnname, replay=rp)
                            continue
                        check_fixed(f"{tag}.path{k}", pr.value, tv, fnname)
                    chk.configs += 1
    finally:
        e4.roots = saved_roots

    # ---------------------------------------------------------------------------------------------------
    # 4. QED singlet (dim 4) and valence (dim 2): iterated kernel with the exp_matrix contract
    # ---------------------------------------------------------------------------------------------------
    chk.under_contract("eko.kernels.singlet_qed:eko_iterate", "eko.kernels.singlet_qed:dispatcher", "eko.kernels.valence_qed:dispatcher")

    def run_qed(dim, disp, fnname):
        tq = [T.var(f"t{r}") for r in range(1, dim)]

        def matexp_stub(Mx):
            stub.n += 1
            if all(chk_zero(x) for x in vdot(tq, Mx)):
                return (fixed_row_matrix(f"X{stub.n}_", dim, tq), None, None)
            return (symmat(f"Xfree{stub.n}_", dim), None, None)   # no guarantee without the null vector -> the goal fails

        for order in ((1, 1), (2, 1), (3, 2), (4, 2), (2, 2)):
            GG = np.empty((order[0] + 1, order[1] + 1, dim, dim), dtype=object)
            for i in range(order[0] + 1):
                for j in range(order[1] + 1):
                    GG[i, j] = null_row_matrix(f"q{i}{j}_", dim, tq)
            tag = f"C11.qed[dim={dim},order={order}]"
            cnt = {"i": 0}

            QKEY = ("eko.kernels.singlet_qed", "eko_iterate", "iter:ev_op_iterations")      # the loop over the evolution steps; its accumulator is found by its role, not by its name

            def fresh(phase):
                cnt["i"] += 1
                return {hook.ACTIVE_CUTS[QKEY].accumulator(): fixed_row_matrix(f"Q{phase}{cnt['i']}_", dim, tq)}

            def entry(env, iterable):
                check_fixed(f"{tag}.loop_entry", env[hook.ACTIVE_CUTS[QKEY].accumulator()], tq, fnname, "invariant v.e = v on entry")

            def preserved(env):
                check_fixed(f"{tag}.loop_preserved", env[hook.ACTIVE_CUTS[QKEY].accumulator()], tq, fnname, "invariant v.e = v preserved")

            class AbstractList:
                """as_list / a_half with symbolic step index"""
                def __init__(self, name, width=None):
                    self.name, self.width = name, width
                def __getitem__(self, i):
                    if isinstance(i, tuple):
                        return T.app(f"{self.name}_{i[1]}", i[0])
                    return T.app(self.name, i)

            hook.ACTIVE_CUTS.clear()
            hook.ACTIVE_CUTS[QKEY] = LoopSpec(fresh, lambda: T.var("step", "int"), entry, preserved)
            saved_em = ad.exp_matrix
            ad.exp_matrix = matexp_stub
            try:
                # under path exploration: a kernel may branch on the couplings of the step (e.g. a fast path for a_em == 0); the invariant is checked on every path
                for pt, _pc, K in chk.run_paths(tag, lambda: disp(order, EvoMethods.ITERATE_EXACT, GG, AbstractList("as_list"), AbstractList("a_half"), 4, N, (1, 0)), [], fn=fnname, replay=rp):
                    check_fixed(f"{pt}.result", K, tq, fnname)
            finally:
                ad.exp_matrix = saved_em
                hook.ACTIVE_CUTS.clear()
            chk.configs += 1

    run_qed(4, sq.dispatcher, "eko.kernels.singlet_qed:dispatcher")
    run_qed(2, vq.dispatcher, "eko.kernels.valence_qed:dispatcher")

    # ---------------------------------------------------------------------------------------------------
    # 5. scale variations
    # ---------------------------------------------------------------------------------------------------
    chk.under_contract("eko.scale_variations.expanded:singlet_variation", "eko.scale_variations.exponentiated:gamma_variation",
                       "eko.scale_variations.expanded:singlet_variation_qed", "eko.scale_variations.expanded:valence_variation_qed",
                       "eko.scale_variations.exponentiated:gamma_variation_qed")
    L, a_s, a_em, nfs_, nl = T.var("L"), T.var("a_s"), T.var("a_em"), T.var("nf"), T.var("nl")
    for order in (1, 2, 3, 4):
        K = expanded.singlet_variation(G[:order].copy(), a_s, (order, 0), nfs_, L, 2)
        check_fixed(f"C11.sv.expanded.singlet_variation[order={order}]", K, tv, "eko.scale_variations.expanded:singlet_variation")
        gb = exponentiated.gamma_variation(G[:order].copy(), (order, 0), nfs_, L)
        for k in range(order):
            check_null(f"C11.sv.exponentiated.gamma_variation[order={order}].g{k}", gb[k], tv, "eko.scale_variations.exponentiated:gamma_variation", "v . gamma_bar_k == 0")
    for dim, f, nm in ((4, expanded.singlet_variation_qed, "singlet_variation_qed"), (2, expanded.valence_variation_qed, "valence_variation_qed")):
        tq = [T.var(f"t{r}") for r in range(1, dim)]
        for order in ((1, 1), (2, 2), (3, 1), (4, 2)):
            for running in (True, False):
                GG = np.empty((order[0] + 1, order[1] + 1, dim, dim), dtype=object)
                for i in range(order[0] + 1):
                    for j in range(order[1] + 1):
                        GG[i, j] = null_row_matrix(f"q{i}{j}_", dim, tq)
                K = f(GG.copy(), a_s, a_em, running, order, 4, L)
                check_fixed(f"C11.sv.expanded.{nm}[order={order},running={running}]", K, tq, f"eko.scale_variations.expanded:{nm}")
                gb = exponentiated.gamma_variation_qed(GG.copy(), order, 4, nl, L, running)
                if gb is None:
                    chk.fail(f"C11.sv.exponentiated.gamma_variation_qed[dim={dim},order={order},running={running}].returns", "returned None", fn="eko.scale_variations.exponentiated:gamma_variation_qed", replay=rp)
                    continue
                for i in range(order[0] + 1):
                    for j in range(order[1] + 1):
                        check_null(f"C11.sv.exponentiated.gamma_variation_qed[dim={dim},order={order},running={running}].g{i}{j}", gb[i, j], tq,
                                   "eko.scale_variations.exponentiated:gamma_variation_qed", "v . gamma_bar == 0")

    # ---------------------------------------------------------------------------------------------------
    # 6. matching operators
    # ---------------------------------------------------------------------------------------------------
    chk.under_contract("eko.evolution_operator.quad_ker:build_ome")
    for dim in (2, 3):
        tq = [T.var(f"t{r}") for r in range(1, dim)]
        A = np.empty((3, dim, dim), dtype=object)
        for k in range(3):
            A[k] = null_row_matrix(f"A{k}_", dim, tq)
        for n in (0, 1, 2, 3):
            for mm in MM:
                if dim == 3 and mm is MM.BACKWARD_EXACT and n == 3 and chk.tier == "quick":
                    continue
                K = build_ome(A, (n, 0), a_s, mm)
                check_fixed(f"C11.ome[dim={dim},n={n},{mm.name}]", K, tq, "eko.evolution_operator.quad_ker:build_ome", "v.A_k = 0 => v.ome == v")
    chk.extra["exhaustive"] = chk.tier == "thorough"
