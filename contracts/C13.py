"""C13 -- evolution integrals equal their definitions and expansions.

Contract (from the statement): with beta_n(a) = beta0 a^2 P_n(a), P_n(a) = 1 + b1 a + ... + b_{n-1} a^{n-1},
  exact    j(a1,a0) = int_{a0}^{a1} a^k / beta_n(a) da        <=  d j / d a1 * beta_n(a1) = a1^k  and  j(a0,a0) = 0   (lemma FTC)
  expanded j(a1,a0) = int_{a0}^{a1} [Taylor polynomial of a^k/beta_n(a), powers <= a^(n-2)] da   (polynomial + log identity)
  roots(b) = the three roots of P_4:  b3 (a-r1)(a-r2)(a-r3) = P_4(a)  (Vieta, all three symmetric functions)
Index map (k = power of a in the numerator, n = number of beta coefficients kept):
  evolution_integrals:      j12:(1,1)  j13:(1,2) j23:(2,2)  j14:(1,3) j24:(2,3) j34:(3,3)
  as4_evolution_integrals:  j03:(1,4)  j13:(2,4) j23:(3,4) j33:(4,4)
"""
from fractions import Fraction as Q

import numpy as np

from pyvc import terms as T
from pyvc.replay import native_call, script

a0, a1, beta0 = T.var("a0"), T.var("a1"), T.var("beta0")
b1, b2, b3 = T.var("b1"), T.var("b2"), T.var("b3")
RANGES = {"a0": (0.002, 0.05), "a1": (0.002, 0.05), "beta0": (7.0, 9.0), "b1": (0.2, 6.0), "b2": (1.0, 30.0), "b3": (1.0, 100.0),
          "r1": (-0.5, -0.2), "r2": (-1.5, -0.8), "r3": (2.0, 3.0)}


def P(n, a, bs):
    return sum((bs[i] * a**i for i in range(1, n)), T.ONE)


def taylor_coeffs(n, bs):
    """c_j of 1/P_n(a) = sum c_j a^j, j = 0..n-1 (series inversion recursion)."""
    c = [T.ONE]
    for j in range(1, n):
        c.append(-sum((bs[i] * c[j - i] for i in range(1, min(j, n - 1) + 1)), T.ZERO))
    return c


def spec_expanded(k, n, a1, a0, beta0, bs):
    """termwise integral of the Taylor polynomial of a^(k-2)/(beta0 P_n(a)) truncated at a^(n-2)."""
    c = taylor_coeffs(n, bs)
    tot = T.ZERO
    for j in range(0, n):
        p = k - 2 + j  # power of a
        if p > n - 2:
            break
        if p == -1:
            tot = tot + c[j] * T.app("ln", a1 / a0)
        else:
            tot = tot + c[j] * (a1 ** (p + 1) - a0 ** (p + 1)) / (p + 1)
    return tot / beta0


QUAD_REPLAY = '''
P = json.loads(%s)
def replay():
    from scipy import integrate
    f = _resolve(P["target"])
    a0, a1, beta0, bs = P["a0"], P["a1"], P["beta0"], P["bs"]
    k, n = P["k"], P["n"]
    def integrand(a):
        return a**k / (beta0 * a**2 * (1 + sum(b * a**(i+1) for i, b in enumerate(bs[:n-1]))))
    ref, err = integrate.quad(integrand, a0, a1, epsabs=1e-14, epsrel=1e-13)
    if P["mode"] == "as4":
        from eko.kernels import as4_evolution_integrals as m, evolution_integrals as ei
        roots = m.roots(bs)
        if P["name"] == "j03_exact":
            val = m.j03_exact(ei.j12(a1, a0, beta0), m.j13_exact(a1, a0, beta0, bs, roots), m.j23_exact(a1, a0, beta0, bs, roots), m.j33_exact(a1, a0, beta0, bs, roots), bs)
        else:
            val = f(a1, a0, beta0, bs, roots)
    elif P["name"] == "j12":
        val = f(a1, a0, beta0)
    else:
        val = f(a1, a0, beta0, [1.0] + bs)
    val = complex(val)
    bad = abs(val - ref) > 1e-8 * max(abs(ref), 1e-12)
    return bad, f"native {P['target']} = {val} ; numerical integral of a^{k}/beta_{n}(a) over [{a0},{a1}] = {ref}"
'''


def quad_replay(target, name, k, n, mode):
    import json

    payload = dict(target=target, name=name, k=k, n=n, mode=mode, a0=0.01, a1=0.04, beta0=23 / 3, bs=[3.7, 9.1, 41.3][: max(n - 1, 1) if mode != "as4" else 3])
    return script(QUAD_REPLAY % json.dumps(json.dumps(payload)), kind="quad_vs_native", target=target)


def run(chk):
    from eko.kernels import evolution_integrals as ei
    from eko.kernels import as4_evolution_integrals as e4

    chk.trust("lemma FTC: F' = f on an interval where f is continuous and F(a0) = 0  =>  F(a1) = int_{a0}^{a1} f",
              "calculus rules of the term IR: d ln u = u'/u, d atan u = u'/(1+u^2), d sqrt u = u'/(2 sqrt u), d exp u = u' exp u, product/quotient/chain rules",
              "requires: beta0 != 0, a0,a1 != 0, P_n has no zero between a0 and a1 (perturbative range) -- denominators of the derivative identity")
    chk.assume("order 4: the principal complex logarithms ln((a1-r)/(a0-r)) differentiate as 1/(a1-r) (no branch cut crossed between a0 and a1)")
    bvec = [T.ONE, b1, b2]
    REQ = [a0 > 0, a1 > 0, beta0 > 0]

    # ---------------- exact integrals, orders 1-3 ----------------
    exact = [("j12", 1, 1, lambda A1, A0: ei.j12(A1, A0, beta0)),
             ("j13_exact", 1, 2, lambda A1, A0: ei.j13_exact(A1, A0, beta0, bvec)),
             ("j23_exact", 2, 2, lambda A1, A0: ei.j23_exact(A1, A0, beta0, bvec)),
             ("j14_exact", 1, 3, lambda A1, A0: ei.j14_exact(A1, A0, beta0, bvec)),
             ("j24_exact", 2, 3, lambda A1, A0: ei.j24_exact(A1, A0, beta0, bvec)),
             ("j34_exact", 3, 3, lambda A1, A0: ei.j34_exact(A1, A0, beta0, bvec))]
    for name, k, n, f in exact:
        fn = f"eko.kernels.evolution_integrals:{name}"
        chk.under_contract(fn)
        rp = quad_replay(fn, name, k, n, "low")
        for tag, pc, j in chk.run_paths(f"C13.exact.{name}", lambda: f(a1, a0), REQ, fn=fn, replay=rp):
            chk.eq(f"{tag}.derivative", T.diff(j, "a1") * (beta0 * a1**2 * P(n, a1, bvec)), a1**k, fn=fn,
                   goal=f"d {name}/d a1 * beta_{n}(a1) == a1^{k}", ranges=RANGES, replay=rp)
        for tag, pc, j0 in chk.run_paths(f"C13.exact.{name}", lambda: f(a0, a0), REQ, fn=fn, replay=rp):
            chk.eq(f"{tag}.zero", j0, 0, fn=fn, goal=f"{name}(a0,a0) == 0", ranges=RANGES, replay=rp)

    # ---------------- expanded integrals ----------------
    bl = [b1, b2, b3]
    expanded = [("j23_expanded", 2, 2, lambda: ei.j23_expanded(a1, a0, beta0), "low", [a1, a0, beta0]),
                ("j13_expanded", 1, 2, lambda: ei.j13_expanded(a1, a0, beta0, bvec), "low", [a1, a0, beta0, bvec]),
                ("j34_expanded", 3, 3, lambda: ei.j34_expanded(a1, a0, beta0), "low", [a1, a0, beta0]),
                ("j24_expanded", 2, 3, lambda: ei.j24_expanded(a1, a0, beta0, bvec), "low", [a1, a0, beta0, bvec]),
                ("j14_expanded", 1, 3, lambda: ei.j14_expanded(a1, a0, beta0, bvec), "low", [a1, a0, beta0, bvec]),
                ("j33_expanded", 4, 4, lambda: e4.j33_expanded(a1, a0, beta0), "as4", [a1, a0, beta0]),
                ("j23_expanded", 3, 4, lambda: e4.j23_expanded(a1, a0, beta0, bl), "as4", [a1, a0, beta0, bl]),
                ("j13_expanded", 2, 4, lambda: e4.j13_expanded(a1, a0, beta0, bl), "as4", [a1, a0, beta0, bl])]
    env = {"a0": 0.01, "a1": 0.04, "beta0": 23 / 3, "b1": 3.7, "b2": 9.1, "b3": 41.3}

    def concrete(args):
        out = []
        for x in args:
            if isinstance(x, list):
                out.append([T.evalf(T.lift(v), env).real for v in x])
            else:
                out.append(T.evalf(x, env).real)
        return out

    for name, k, n, f, mode, args in expanded:
        mod = "eko.kernels.as4_evolution_integrals" if mode == "as4" else "eko.kernels.evolution_integrals"
        fn = f"{mod}:{name}"
        chk.under_contract(fn)
        bs = [T.ONE] + bl
        spec = spec_expanded(k, n, a1, a0, beta0, bs)
        chk.eq(f"C13.expanded.{mode}.{name}", f(), spec, fn=fn, ranges=RANGES,
               goal=f"{name} == termwise integral of Taylor[a^{k}/beta_{n}(a)] through a^{n-2}",
               replay=native_call(fn, concrete(args), T.evalf(spec, env).real, rtol=1e-10, note="specification = integrated Taylor polynomial"))
    # j03_expanded composes its arguments
    fn = "eko.kernels.as4_evolution_integrals:j03_expanded"
    chk.under_contract(fn, "eko.kernels.as4_evolution_integrals:j03_exact")
    j12 = ei.j12(a1, a0, beta0)
    j03 = e4.j03_expanded(j12, e4.j13_expanded(a1, a0, beta0, bl), e4.j23_expanded(a1, a0, beta0, bl), e4.j33_expanded(a1, a0, beta0), bl)
    chk.eq("C13.expanded.as4.j03_expanded", j03, spec_expanded(1, 4, a1, a0, beta0, [T.ONE] + bl), fn=fn, ranges=RANGES,
           goal="j03_expanded(j12, j13e, j23e, j33e) == termwise integral of Taylor[a/beta_4(a)] through a^2")

    # ---------------- N3LO exact integrals: roots given by Vieta parametrisation ----------------
    r1, r2, r3 = T.var("r1"), T.var("r2"), T.var("r3")
    prod = r1 * r2 * r3
    B3 = -1 / prod
    B2 = (r1 + r2 + r3) / prod
    B1 = -(r1 * r2 + r1 * r3 + r2 * r3) / prod
    BL = [B1, B2, B3]
    rts = [r1, r2, r3]
    P4 = 1 + B1 * a1 + B2 * a1**2 + B3 * a1**3
    as4 = [("j13_exact", 2, e4.j13_exact), ("j23_exact", 3, e4.j23_exact), ("j33_exact", 4, e4.j33_exact)]
    vals = {}
    import mpmath as mp
    # a physical configuration for the value check: one real negative root and a complex pair whose real part lies BETWEEN the two couplings (nf = 3: Re r = 0.0176)
    ROOTS = {"r1": mp.mpf(-1) / 3, "r2": mp.mpc(mp.mpf(1) / 40, mp.mpf(1) / 25), "r3": mp.mpc(mp.mpf(1) / 40, -mp.mpf(1) / 25)}
    from pyvc import vnp as _vnp
    _real_shim = _vnp.real
    branching = False
    # the roots are genuinely complex here: np.real must not be the identity the shim assumes elsewhere ("value analytically real")
    _vnp.real = lambda x: T.app("Re", x) if isinstance(x, T.Sym) and not x.is_const() else _real_shim(x)
    for name, k, f in as4:
        fn = f"eko.kernels.as4_evolution_integrals:{name}"
        chk.under_contract(fn)
        rp = quad_replay(fn, name, k, 4, "as4")
        paths = chk.run_paths(f"C13.exact.as4.{name}", lambda: f(a1, a0, beta0, BL, rts), [], fn=fn, replay=rp)
        if len(paths) == 1:
            j = paths[0][2]
            vals[name] = j
            chk.eq(f"C13.exact.as4.{name}.derivative", T.diff(j, "a1") * (beta0 * a1**2 * P4), a1**k, fn=fn,
                   goal=f"requires r = roots of P_4 (Vieta): d {name}/d a1 * beta_4(a1) == a1^{k}", ranges=RANGES, replay=rp)
            chk.eq(f"C13.exact.as4.{name}.zero", f(a0, a0, beta0, BL, rts), 0, fn=fn, goal=f"{name}(a0,a0) == 0", replay=rp)
        elif paths:
            vals[name] = paths[0][2]
            branching = True
            # explicit real / imaginary parts and branches on them are outside the algebra the identities are proved in (A2): undecided, never a violation by itself
            chk.error(f"C13.exact.as4.{name}.derivative", f"{name} branches on symbolic values ({len(paths)} paths): the derivative identity is undecided for this code; only the value check below decides it")
        # derivative + initial value determine the integral only for a function that is continuous between the couplings: the value itself, at couplings on
        # either side of the real part of the complex roots (both orders), against a 40-digit quadrature of the defining integral
        bad = []
        for lo, hi in ((Q(1, 100), Q(1, 20)), (Q(1, 20), Q(1, 100)), (Q(3, 100), Q(1, 20))):
            env = dict(ROOTS, a0=lo, a1=hi, beta0=Q(9))
            cand = [j for _, pc, j in paths if all(bool(T.evalmp(c_, env, 40)) for c_ in pc)]
            if len(cand) != 1:
                bad.append(f"{len(cand)} feasible paths at a0={lo}, a1={hi}")
                continue
            got = T.evalmp(cand[0], env, 40)
            r_ = [ROOTS["r1"], ROOTS["r2"], ROOTS["r3"]]
            b3_ = -1 / (r_[0] * r_[1] * r_[2])
            p4 = lambda a: mp.re(b3_ * (a - r_[0]) * (a - r_[1]) * (a - r_[2]))
            mp.mp.dps = 40
            want = mp.quad(lambda a: a ** (k - 2) / (9 * p4(a)), [mp.mpf(lo.numerator) / lo.denominator, mp.mpf(hi.numerator) / hi.denominator])
            if abs(got - want) > mp.mpf(10) ** (-25) * max(1, abs(want)):
                bad.append(f"a0={lo}, a1={hi}: {mp.nstr(got, 12)} but the integral is {mp.nstr(want, 12)}")
        chk.ground(f"C13.exact.as4.{name}.value_across_the_complex_roots", not bad, fn=fn, replay=rp, backend="exact-eval+mpmath",
                   goal=f"{name}(a1, a0) == int_a0^a1 a^{k - 2} / (beta0 P_4(a)) da with the couplings on either side of Re(r) of the complex roots (no branch-cut jump)", detail="; ".join(bad) or None)
    _vnp.real = _real_shim
    j03 = e4.j03_exact(ei.j12(a1, a0, beta0), vals["j13_exact"], vals["j23_exact"], vals["j33_exact"], BL)
    fn = "eko.kernels.as4_evolution_integrals:j03_exact"
    rp = quad_replay(fn, "j03_exact", 1, 4, "as4")
    if branching:
        chk.error("C13.exact.as4.j03_exact.derivative", "built from integrals that branch on symbolic values: undecided for this code (the value checks above decide the integrals themselves)")
    else:
        chk.eq("C13.exact.as4.j03_exact.derivative", T.diff(j03, "a1") * (beta0 * a1**2 * P4), a1, fn=fn,
               goal="d j03/d a1 * beta_4(a1) == a1", ranges=RANGES, replay=rp)
    chk.under_contract("eko.kernels.as4_evolution_integrals:derivative")
    chk.eq("C13.as4.derivative", e4.derivative(a1, bl), T.diff(1 + b1 * a1 + b2 * a1**2 + b3 * a1**3, "a1"),
           fn="eko.kernels.as4_evolution_integrals:derivative", goal="derivative(r, b) == P_4'(r)")

    # ---------------- roots ----------------
    fn = "eko.kernels.as4_evolution_integrals:roots"
    chk.under_contract(fn)
    chk.trust("atom relations sqrt(t)^2 = t, root(t,3)^3 = t, I^2 = -1: the root identities hold for every branch choice of the radicals")
    rr = e4.roots(bl)
    ROOT_REPLAY = '''
def replay():
    from eko.kernels import as4_evolution_integrals as m
    worst = 0
    for bs in ([3.7, 9.1, 41.3], [1.2, 15.0, 300.0], [0.4, 2.0, 5.0]):
        for r in m.roots(bs):
            worst = max(worst, abs(1 + bs[0]*r + bs[1]*r**2 + bs[2]*r**3))
    return worst > 1e-9, f"max |P_4(root)| over three coefficient sets = {worst}"
'''
    rp = script(ROOT_REPLAY, kind="roots", target=fn)
    for i, r in enumerate(rr):
        chk.eq(f"C13.roots.r{i+1}.is_root", 1 + b1 * r + b2 * r**2 + b3 * r**3, 0, fn=fn, goal=f"P_4(r{i+1}) == 0", replay=rp)
    chk.eq("C13.roots.vieta.sum", (rr[0] + rr[1] + rr[2]) * b3, -b2, fn=fn, goal="r1+r2+r3 == -b2/b3", replay=rp)
    chk.eq("C13.roots.vieta.pairs", (rr[0] * rr[1] + rr[0] * rr[2] + rr[1] * rr[2]) * b3, b1, fn=fn, goal="sum r_i r_j == b1/b3", replay=rp)
    chk.eq("C13.roots.vieta.prod", rr[0] * rr[1] * rr[2] * b3, -1, fn=fn, goal="r1 r2 r3 == -1/b3", replay=rp)
    chk.uncovered("numerical agreement of the float implementation with the integral (rounding, cancellation at nf=6) -- A1")
