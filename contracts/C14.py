"""C14 -- QED x QCD kernels reduce to the QCD kernels when alpha_em vanishes (kernel clause).

requires  a_em == 0 on every step;  gamma[0,0] == 0 and gamma[i,0] = the embedding of the QCD anomalous dimensions (established for the real grids by C30):
          singlet  [[gg,0,gq,0],[0,0,0,0],[qg,0,qq,0],[0,0,0,ns+]],  valence diag(nsV, ns-);  the a_em > 0 entries gamma[i,j>0] are arbitrary.
ensures, for any number of steps (loop invariants, symbolic ev_op_iterations) and QCD orders 1-4, QED orders 1-2:
  non-singlet  every step of non_singlet_qed.exact equals the exact QCD non-singlet kernel ns.dispatcher(order, iterate-exact, gamma[1:,0], a1, a0) of that step
               (product over the steps == the QCD kernel between the end points by exact composition, C10)
  singlet      every step hands exp_matrix the matrix embed(L_S, 0, l_+) where L_S = sum_k gammaS_k h^k / sum_k beta_k h^(k+1) (ah - al) is the matrix the QCD
               singlet.eko_iterate hands exp_matrix_2D for the same step (proved against the real QCD code at h = (ah+al)/2) and l_+ the same expression for ns+;
               with MatExp(block diagonal) = block diagonal of MatExp the accumulated kernel stays embed(E_S, 1, e_+) with E_S, e_+ the QCD products:
               the photon evolves trivially and decouples, Sigma_Delta follows ns+
  valence      the same with diag(l_V, l_-):  V follows nsV, V_Delta follows ns-
The end-to-end limit alpha_em -> 0 (discretisation error vanishing with the number of iterations) is a numerical statement and is not claimed.
"""
from fractions import Fraction as Q

import numpy as np

from pyvc import terms as T
from pyvc import vnp, hook
from pyvc import poly as P
from pyvc.hook import LoopSpec
from pyvc.replay import script
from contracts.common import symmat

REPLAY = '''
def replay():
    from eko.kernels import non_singlet as ns, singlet as s, non_singlet_qed as nsq, singlet_qed as sq, valence_qed as vq, EvoMethods
    rng = np.random.default_rng(14)
    out = []
    c = lambda *sh: rng.normal(size=sh) + 1j * rng.normal(size=sh)
    for nf in (3, 4, 5, 6):
        for n in (1, 2, 3, 4):
            for m in (1, 2):
                for iters in (1, 3, 6):
                    a = np.sort(rng.uniform(0.01, 0.04, size=iters + 1))[::-1]
                    ah = np.stack([(a[1:] + a[:-1]) / 2, np.zeros(iters)], axis=1)
                    gS, gp, gm, gv = c(n, 2, 2), c(n), c(n), c(n)
                    scale = (3.0 ** np.arange(n))
                    gS, gp, gm, gv = gS * scale[:, None, None], gp * scale, gm * scale, gv * scale
                    G4, G2, G1 = c(n + 1, m + 1, 4, 4), c(n + 1, m + 1, 2, 2), c(n + 1, m + 1)
                    G4[:, 0], G2[:, 0], G1[:, 0] = 0, 0, 0
                    for i in range(1, n + 1):
                        G4[i, 0][np.ix_([0, 2], [0, 2])] = gS[i - 1][::-1, ::-1]
                        G4[i, 0][3, 3] = gp[i - 1]
                        G2[i, 0] = np.diag([gv[i - 1], gm[i - 1]])
                        G1[i, 0] = gm[i - 1]
                    K4 = sq.dispatcher((n, m), EvoMethods.ITERATE_EXACT, G4, a, ah, nf, iters, (1, 0))
                    K2 = vq.dispatcher((n, m), EvoMethods.ITERATE_EXACT, G2, a, ah, nf, iters, (1, 0))
                    K1 = nsq.dispatcher((n, m), EvoMethods.ITERATE_EXACT, G1, a, ah[:, 1], True, nf, iters, 10.0, 50.0)
                    ref = np.eye(2, dtype=complex); rp_, rv_, rm_ = 1.0, 1.0, 1.0
                    from eko import beta
                    bl = [beta.beta_qcd((2 + i, 0), nf) for i in range(n)]
                    for k in range(iters):
                        ref = s.eko_iterate(gS, a[k + 1], a[k], bl, (n, 0), 1) @ ref
                        h, d = (a[k + 1] + a[k]) / 2, a[k + 1] - a[k]
                        den = sum(bl[i] * h ** (i + 1) for i in range(n))
                        rp_ *= np.exp(sum(gp[i] * h ** i for i in range(n)) / den * d)
                        rv_ *= np.exp(sum(gv[i] * h ** i for i in range(n)) / den * d)
                        rm_ *= np.exp(sum(gm[i] * h ** i for i in range(n)) / den * d)
                    want4 = np.zeros((4, 4), complex); want4[np.ix_([0, 2], [0, 2])] = ref[::-1, ::-1]; want4[1, 1] = 1; want4[3, 3] = rp_
                    t = f"nf={nf} order=({n},{m}) iterations={iters}"
                    if not np.allclose(K4, want4, rtol=1e-9, atol=1e-12): out.append(f"{t}: QED singlet kernel at a_em=0 is not embed(QCD singlet, 1, ns+) (max dev {np.max(np.abs(K4 - want4)):.2e})")
                    if not np.allclose(K2, np.diag([rv_, rm_]), rtol=1e-9, atol=1e-12): out.append(f"{t}: QED valence kernel at a_em=0 is not diag(nsV, ns-)")
                    want1 = ns.dispatcher((n, 0), EvoMethods.ITERATE_EXACT, gm, a[-1], a[0], nf)
                    if not np.isclose(K1, want1, rtol=1e-9): out.append(f"{t}: QED non-singlet kernel at a_em=0 {K1} != QCD kernel {want1}")
                    K1f = nsq.dispatcher((n, m), EvoMethods.ITERATE_EXACT, G1, a, ah[:, 1], False, nf, iters, 10.0, 50.0)
                    if not np.isclose(K1f, want1, rtol=1e-9): out.append(f"{t}: QED non-singlet kernel at a_em=0 with alpha_em frozen {K1f} != QCD kernel {want1}")
    return bool(out), "; ".join(out[:4]) if out else "QED kernels at a_em = 0 reproduce the QCD kernels natively"
'''


def run(chk):
    from eko.kernels import non_singlet as ns, singlet as s, non_singlet_qed as nsq, singlet_qed as sq, valence_qed as vq, EvoMethods
    from eko.kernels import as4_evolution_integrals as e4
    from eko import beta
    from ekore import anomalous_dimensions as ad

    rp = script(REPLAY, kind="aem_zero_oracle")
    chk.under_contract("eko.kernels.non_singlet_qed:exact", "eko.kernels.non_singlet_qed:fixed_alphaem_exact", "eko.kernels.non_singlet_qed:contract_gammas", "eko.kernels.non_singlet_qed:apply_qed",
                       "eko.kernels.non_singlet_qed:dispatcher", "eko.kernels.singlet_qed:eko_iterate", "eko.kernels.singlet_qed:dispatcher", "eko.kernels.valence_qed:dispatcher", "eko.kernels.singlet:eko_iterate")
    chk.trust("lemma: MatExp of a block-diagonal matrix (up to a permutation of the basis) is the block-diagonal matrix of the MatExp's; MatExp of a 1x1 block is exp (exp_matrix relative to C23)",
              "lemma: loop-invariant induction", "C10: exact non-singlet kernels compose exactly over the steps", "C30: the real QED grids have the embedding structure required here",
              "contract of roots() (C13): opaque cubic roots at order 4")
    chk.uncovered("end-to-end clause: convergence of the QED x QCD operator to the QCD operator as alpha_em -> 0 up to the discretisation error (numerical)")
    N = T.var("N_iter", "int")
    step = T.var("step", "int")
    g = np.array([T.var(f"g{k}") for k in range(4)], dtype=object)
    bsym = [T.var(f"beta{k}") for k in range(4)]
    b21 = T.var("beta21")
    saved_beta = beta.beta_qcd
    beta.beta_qcd = lambda k, nf: b21 if k == (2, 1) else bsym[k[0] - 2]

    class Steps:
        """as_list / a_half with a symbolic step index; the a_em column is identically zero (the precondition)"""

        def __init__(self, name):
            self.name = name

        def __getitem__(self, i):
            if isinstance(i, tuple):
                return Q(0) if i[1] == 1 else T.app(f"{self.name}_as", T.lift(i[0]))
            return T.app(self.name, T.lift(i))

    class Zero:
        def __getitem__(self, i):
            return Q(0)

    def ratio(gam, h, n, d):
        """sum_k gam_k h^k / sum_k beta_k h^(k+1) * d   (the quantity the iterated solutions exponentiate on one step)"""
        num = sum(gam[k] * h ** k for k in range(n))
        den = sum(bsym[k] * h ** (k + 1) for k in range(n))
        return num / den * d

    try:
        # ---- non-singlet ------------------------------------------------------------------------------------------------------------------------
        for n in (1, 2, 3, 4):
            for m in (1, 2):
                GG = symmat("q", n + 1, m + 1)
                GG[0, 0] = Q(0)
                for i in range(1, n + 1):
                    GG[i, 0] = g[i - 1]
                tag = f"C14.ns[order=({n},{m})]"
                fnn = "eko.kernels.non_singlet_qed:exact"
                a1, a0, muf, mut = T.var("a1"), T.var("a0"), T.var("mu2_from"), T.var("mu2_to")
                saved_roots = e4.roots
                e4.roots = lambda bl: [T.app(f"cubic_root_{i}", *bl) for i in (1, 2, 3)]
                try:
                    # one step, symbolic couplings and scales
                    got = nsq.fixed_alphaem_exact((n, m), GG.copy(), a1, a0, Q(0), 4, muf, mut)
                    want = ns.dispatcher((n, 0), EvoMethods.ITERATE_EXACT, g[:n].copy(), a1, a0, 4)
                    chk.eq(f"{tag}.step", got, want, fn="eko.kernels.non_singlet_qed:fixed_alphaem_exact", goal="a_em = 0: the step kernel == exact QCD non-singlet kernel (beta unshifted, no pure-QED factor)", replay=rp,
                           assumptions=[a0 > 0, a1 > 0, muf > 0, mut > 0], ranges={"a0": (0.01, 0.05), "a1": (0.01, 0.05), "mu2_from": (2.0, 50.0), "mu2_to": (2.0, 50.0), "*": (0.3, 2.0)})
                    # any number of steps: res accumulates the step kernels
                    aL = Steps("as_list")
                    cnt = {"i": 0}

                    NSKEY = ("eko.kernels.non_singlet_qed", "exact", "iter:ev_op_iterations")     # the loop over the evolution steps, wherever it stands and whatever its locals are called
                    state = {}

                    def fresh2(phase):
                        cnt["i"] += 1
                        state["res"] = T.var(f"res_{phase}{cnt['i']}")
                        return {hook.ACTIVE_CUTS[NSKEY].accumulator(): state["res"]}

                    def entry(env, it):
                        chk.eq(f"{tag}.loop_entry", env[hook.ACTIVE_CUTS[NSKEY].accumulator()], 1, fn=fnn, goal="the accumulated kernel is 1 before the first step", replay=rp)

                    used = []
                    real_step = nsq.fixed_alphaem_exact

                    def recording_step(order_, gam_, a1_, a0_, aem_, nf_, mf_, mt_):
                        used.append((a1_, a0_, aem_))
                        return real_step(order_, gam_, a1_, a0_, aem_, nf_, mf_, mt_)

                    def preserved(env):
                        # the invariant speaks about the couplings the step kernel was actually given, not about how the loop indexes them: exactly one step kernel per
                        # iteration, built on two CONSECUTIVE elements of as_list (a1 = as_list[i+1], a0 = as_list[i]) with the a_em of the step (zero here)
                        ok = len(used) == 1
                        a1u, a0u = (used[0][0], used[0][1]) if used else (aL[step], aL[step - 1])
                        if ok:
                            n1, n0 = T._nodes[T.lift(a1u).n], T._nodes[T.lift(a0u).n]
                            ok = n1[0] == "app" and n0[0] == "app" and n1[1] == n0[1] == "as_list" and len(n1[2]) == len(n0[2]) == 1
                            if ok:
                                d = T.Sym(n1[2][0]) - T.Sym(n0[2][0]) - 1
                                ok = bool(P.prove_zero(d)[0]) and (not used or (isinstance(used[0][2], (int, Q)) and used[0][2] == 0))
                        chk.ground(f"{tag}.loop_step_on_consecutive_couplings", ok, fn=fnn, replay=rp, goal="one step kernel per iteration, from as_list[i] to as_list[i+1], with the a_em of that step",
                                   detail=f"step kernels called with {[(str(x[0]), str(x[1])) for x in used]}")
                        want = state["res"] * ns.dispatcher((n, 0), EvoMethods.ITERATE_EXACT, g[:n].copy(), a1u, a0u, 4)
                        chk.eq(f"{tag}.loop_preserved", env[hook.ACTIVE_CUTS[NSKEY].accumulator()], want, fn=fnn, replay=rp, goal="arbitrary step: res' == res * K_QCD(a_(i+1), a_i) for the couplings of the step")
                        used.clear()

                    tag0 = tag
                    for running in (True, False):       # alpha_em running along the path / frozen: both configurations reach the dispatcher
                        tag = tag0 if running else tag0 + "[alphaem frozen]"
                        hook.ACTIVE_CUTS.clear()
                        hook.ACTIVE_CUTS[NSKEY] = LoopSpec(fresh2, lambda: step, entry, preserved)
                        used.clear()
                        nsq.fixed_alphaem_exact = recording_step
                        try:
                            ret = nsq.dispatcher((n, m), EvoMethods.ITERATE_EXACT, GG.copy(), aL, Zero(), running, 4, N, muf, mut)
                        finally:
                            nsq.fixed_alphaem_exact = real_step
                        if hook.ACTIVE_CUTS[NSKEY].entered > 0:
                            chk.ground(f"{tag}.all_steps_covered", True, fn=fnn, goal="the step loop is the one under contract (invariant above), or the result is the QCD kernel between the end points", replay=rp)
                        else:      # no loop: by exact composition (C10) the product of the QCD step kernels is the QCD kernel between the end points
                            for nm in ("loop_entry", "loop_preserved"):
                                chk.ground(f"{tag}.{nm}", True, fn=fnn, goal="no step loop on this configuration: the result is compared with the QCD kernel between the end points instead", replay=rp)
                            chk.eq(f"{tag}.all_steps_covered", ret, ns.dispatcher((n, 0), EvoMethods.ITERATE_EXACT, g[:n].copy(), aL[-1], aL[0], 4), fn="eko.kernels.non_singlet_qed:dispatcher", replay=rp,
                                   goal="the step loop is the one under contract (invariant above), or the result is the QCD kernel between the end points",
                                   assumptions=[muf > 0, mut > 0], ranges={"mu2_from": (2.0, 50.0), "mu2_to": (2.0, 50.0), "*": (0.3, 2.0)})
                    tag = tag0
                    # concrete numbers of steps, loop executed as it is: every interval of as_list is visited exactly once (the cut above says nothing about the range)
                    hook.ACTIVE_CUTS.clear()
                    for K in (1, 2, 3):
                        asl = [T.var(f"as_{j}") for j in range(K + 1)]
                        for running in (True, False):
                            got = nsq.dispatcher((n, m), EvoMethods.ITERATE_EXACT, GG.copy(), asl, [Q(0)] * K, running, 4, K, muf, mut)
                            want = 1
                            for j in range(1, K + 1):
                                want = want * ns.dispatcher((n, 0), EvoMethods.ITERATE_EXACT, g[:n].copy(), asl[j], asl[j - 1], 4)
                            chk.eq(f"{tag}.unrolled[steps={K},{'running' if running else 'frozen'}]", got, want, fn="eko.kernels.non_singlet_qed:dispatcher", replay=rp,
                                   goal="K steps: the kernel == product of the QCD kernels of all K intervals of as_list", assumptions=[muf > 0, mut > 0] + [x > 0 for x in asl],
                                   ranges={"mu2_from": (2.0, 50.0), "mu2_to": (2.0, 50.0), "*": (0.01, 0.05)})
                finally:
                    e4.roots = saved_roots
                    hook.ACTIVE_CUTS.clear()
                chk.configs += 1

        # ---- QCD reference: what singlet.eko_iterate exponentiates on one step ---------------------------------------------------------------------
        GS = np.empty((4, 2, 2), dtype=object)
        for k in range(4):
            GS[k] = symmat(f"S{k}_", 2)     # basis (Sigma, g) as in the QCD code
        al, ah = T.var("al"), T.var("ah")
        cap = {}
        saved2 = ad.exp_matrix_2D
        ad.exp_matrix_2D = lambda M: (cap.__setitem__("M", np.array(M, dtype=object)), (symmat("X2_", 2), None, None))[1]
        try:
            for n in (1, 2, 3, 4):
                cap.clear()
                s.eko_iterate(GS[:n].copy(), ah, al, bsym[:n], (n, 0), 1)
                h = (ah + al) / 2
                want = np.empty((2, 2), dtype=object)
                for i in range(2):
                    for j in range(2):
                        want[i, j] = ratio([GS[k][i, j] for k in range(n)], h, n, ah - al)
                chk.eq_array(f"C14.qcd_reference[order={n}]", cap.get("M", vnp.zeros((2, 2))), want, fn="eko.kernels.singlet:eko_iterate", replay=rp,
                             goal="QCD iterate, one step: exp_matrix_2D receives sum gamma_k h^k / sum beta_k h^(k+1) (ah - al), h = (ah + al)/2", assumptions=[al > 0, ah > 0])
        finally:
            ad.exp_matrix_2D = saved2

        # ---- singlet (dim 4) and valence (dim 2) ----------------------------------------------------------------------------------------------------
        gp, gv, gm = (np.array([T.var(f"g{t}{k}") for k in range(4)], dtype=object) for t in ("p", "v", "m"))

        def embed4(S2, ph, d):
            """(Sigma, g) 2x2 block -> basis (g, ph, Sigma, Sigma_Delta)"""
            M = vnp.zeros((4, 4))
            M[0, 0], M[0, 2], M[2, 0], M[2, 2], M[1, 1], M[3, 3] = S2[1, 1], S2[1, 0], S2[0, 1], S2[0, 0], ph, d
            return M

        for dim, disp, fnm in ((4, sq.dispatcher, "eko.kernels.singlet_qed:dispatcher"), (2, vq.dispatcher, "eko.kernels.valence_qed:dispatcher")):
            for n in (1, 2, 3, 4):
                for m in (1, 2):
                    tag = f"C14.{'singlet' if dim == 4 else 'valence'}[order=({n},{m})]"
                    GG = np.empty((n + 1, m + 1, dim, dim), dtype=object)
                    for i in range(n + 1):
                        for j in range(m + 1):
                            GG[i, j] = symmat(f"q{i}{j}_", dim)
                    GG[0, 0] = vnp.zeros((dim, dim))
                    for i in range(1, n + 1):
                        GG[i, 0] = embed4(GS[i - 1], Q(0), gp[i - 1]) if dim == 4 else np.array([[gv[i - 1], Q(0)], [Q(0), gm[i - 1]]], dtype=object)
                    aL, aH = Steps("as_list"), Steps("a_half")

                    def spec_ln(hh, d):
                        if dim == 4:
                            LS = np.empty((2, 2), dtype=object)
                            for i in range(2):
                                for j in range(2):
                                    LS[i, j] = ratio([GS[k][i, j] for k in range(n)], hh, n, d)
                            return embed4(LS, Q(0), ratio(gp, hh, n, d))
                        return np.array([[ratio(gv, hh, n, d), Q(0)], [Q(0), ratio(gm, hh, n, d)]], dtype=object)

                    # the step is characterised by the interval it is built on -- a_half[j] with as_list[j+1] - as_list[j] for ONE j --, not by how the loop counts:
                    # both usual ways of indexing an arbitrary iteration are admitted (loop variable = upper index of the interval, or = lower index)
                    CANDIDATES = [spec_ln(aH[step - 1, 0], aL[step] - aL[step - 1]), spec_ln(aH[step, 0], aL[step + 1] - aL[step])]
                    st = {"calls": 0}

                    def matexp_stub(M):
                        st["calls"] += 1
                        M = np.array(M, dtype=object)
                        want_ln = next((c for c in CANDIDATES if all(P.prove_zero(T.lift(M[i, j]) - T.lift(c[i, j]))[0] for i in range(dim) for j in range(dim))), CANDIDATES[0])
                        chk.eq_array(f"{tag}.step{st['calls']}.exponent", M, want_ln, fn="eko.kernels.singlet_qed:eko_iterate", replay=rp,
                                     goal="a_em = 0: exp_matrix receives embed(L_S, 0, l_+) resp. diag(l_V, l_-) with the QCD per-step exponents (zero photon row/column, no mixing)")
                        ok = all(P.prove_zero(T.lift(M[i, j]) - T.lift(want_ln[i, j]))[0] for i in range(dim) for j in range(dim))
                        if not ok:
                            return (symmat(f"Xfree{st['calls']}_", dim), None, None)     # no structure can be assumed: the invariant fails
                        # contract of exp_matrix on this block structure (lemma)
                        if dim == 4:
                            st["X"] = embed4(symmat(f"XS{st['calls']}_", 2), Q(1), T.var(f"xplus{st['calls']}"))
                        else:
                            st["X"] = np.array([[T.var(f"xv{st['calls']}"), Q(0)], [Q(0), T.var(f"xm{st['calls']}")]], dtype=object)
                        return (st["X"].copy(), None, None)

                    cnt = {"i": 0}

                    def fresh(phase):
                        cnt["i"] += 1
                        e = embed4(symmat(f"P{phase}{cnt['i']}_", 2), Q(1), T.var(f"pplus{phase}{cnt['i']}")) if dim == 4 else np.array([[T.var(f"pv{phase}{cnt['i']}"), Q(0)], [Q(0), T.var(f"pm{phase}{cnt['i']}")]], dtype=object)
                        st["e"] = e.copy()
                        return {hook.ACTIVE_CUTS[QKEY].accumulator(): e}

                    def entry(env, it):
                        chk.eq_array(f"{tag}.loop_entry", env[hook.ACTIVE_CUTS[QKEY].accumulator()], vnp.eye(dim), fn=fnm, goal="the accumulated kernel is the identity before the first step", replay=rp)

                    def preserved(env):
                        if "X" not in st:
                            chk.fail(f"{tag}.loop_preserved", "the step does not exponentiate a matrix of the required block structure", fn=fnm, replay=rp)
                            return
                        chk.eq_array(f"{tag}.loop_preserved", env[hook.ACTIVE_CUTS[QKEY].accumulator()], st["X"] @ st["e"], fn=fnm, replay=rp,
                                     goal="arbitrary step: e' == embed(X_S P, 1, x_+ p_+) -- block structure preserved, each block multiplied by the MatExp of its QCD exponent (later steps to the left)")

                    hook.ACTIVE_CUTS.clear()
                    QKEY = ("eko.kernels.singlet_qed", "eko_iterate", "iter:ev_op_iterations")      # the loop over the evolution steps, wherever it stands and whatever its locals are called
                    hook.ACTIVE_CUTS[QKEY] = LoopSpec(fresh, lambda: step, entry, preserved)
                    saved_em = ad.exp_matrix
                    ad.exp_matrix = matexp_stub
                    try:
                        K = disp((n, m), EvoMethods.ITERATE_EXACT, GG, aL, aH, 4, N, (1, 0))
                        # the kernel returned is the loop-carried e of the exit state: block structure
                        K = np.array(K, dtype=object)
                        zero_pos = [(i, j) for i in range(dim) for j in range(dim) if (dim == 4 and not ((i in (0, 2) and j in (0, 2)) or i == j == 1 or i == j == 3)) or (dim == 2 and i != j)]
                        chk.eq_array(f"{tag}.result.decoupled", np.array([K[p] for p in zero_pos], dtype=object), np.array([Q(0)] * len(zero_pos), dtype=object), fn=fnm, replay=rp,
                                     goal="kernel has the block structure: photon / Sigma_Delta (V / V_Delta) do not mix with anything")
                        if dim == 4:
                            chk.eq(f"{tag}.result.photon", K[1, 1], 1, fn=fnm, goal="the photon evolves trivially", replay=rp)
                        chk.ground(f"{tag}.loop_reached", hook.ACTIVE_CUTS[QKEY].entered > 0 and st["calls"] > 0, fn=fnm, goal="the step loop is the one under contract", replay=rp)
                    finally:
                        ad.exp_matrix = saved_em
                        hook.ACTIVE_CUTS.clear()
                    # concrete numbers of steps, the loop executed as it is (no cut): the j-th exponential is built on the j-th interval and the kernel is X_K @ ... @ X_1
                    if m == 1 and n in (1, 3):
                        for Kst in (1, 2):
                            asl = [T.var(f"as_{j}") for j in range(Kst + 1)]
                            ahl = np.array([[T.var(f"ah_{j}"), Q(0)] for j in range(1, Kst + 1)], dtype=object)
                            seen_M = []

                            def unrolled_stub(M, seen_M=seen_M):
                                seen_M.append(np.array(M, dtype=object))
                                return (symmat(f"XU{len(seen_M)}_", dim), None, None)

                            ad.exp_matrix = unrolled_stub
                            try:
                                Ku = np.array(disp((n, m), EvoMethods.ITERATE_EXACT, GG, asl, ahl, 4, Kst, (1, 0)), dtype=object)
                            finally:
                                ad.exp_matrix = saved_em
                            tagu = f"{tag}.unrolled[steps={Kst}]"
                            chk.ground(f"{tagu}.one_exponential_per_step", len(seen_M) == Kst, fn=fnm, replay=rp, goal="exp_matrix is called once per step", detail=f"{len(seen_M)} calls")
                            wantK = vnp.eye(dim)
                            for j in range(1, Kst + 1):
                                wantK = symmat(f"XU{j}_", dim) @ wantK
                                if j <= len(seen_M):
                                    chk.eq_array(f"{tagu}.exponent_of_step{j}", seen_M[j - 1], spec_ln(ahl[j - 1, 0], asl[j] - asl[j - 1]), fn="eko.kernels.singlet_qed:eko_iterate", replay=rp,
                                                 goal="the j-th exponential is built on the j-th interval: a_half[j-1] with as_list[j] - as_list[j-1]")
                            chk.eq_array(f"{tagu}.path_ordered_product", Ku, wantK, fn=fnm, replay=rp, goal="kernel == X_K @ ... @ X_1 (later steps to the left)")
                    chk.configs += 1
    finally:
        beta.beta_qcd = saved_beta
    # ---- the matrix exponential on the exponents it is handed at a_em = 0 -------------------------------------------------------------------------
    # Above, exp_matrix stands under its contract (C23).  The exponents of the statement are special matrices: the valence one is diag(l_V, l_-), a MULTIPLE
    # OF THE IDENTITY below NNLO (gamma_V == gamma_ns-), the singlet one has an isolated photon entry 0.  The real exp_matrix must give the QCD exponentials
    # exactly there, on every path it takes (LAPACK's eig under its contract for a diagonal matrix: the entries and unit vectors).
    fne = "ekore.anomalous_dimensions:exp_matrix"
    chk.under_contract(fne)
    l, lv, lm = T.var("l"), T.var("l_V"), T.var("l_minus")
    for cname, diag in (("valence_below_NNLO_multiple_of_identity", [l, l]), ("valence_NNLO_distinct", [lv, lm]), ("no_evolution_zero", [Q(0), Q(0)]),
                        ("photon_and_plus_decoupled", [lv, Q(0), lm, l])):
        dim = len(diag)
        M = np.empty((dim, dim), dtype=object)
        M[:] = Q(0)
        for i, d_ in enumerate(diag):
            M[i, i] = d_
        saved_hooks = dict(vnp._HOOKS)
        vnp._HOOKS["linalg.eig"] = lambda mat, diag=diag, dim=dim: (np.array(diag, dtype=object), vnp.eye(dim))
        tage = f"C14.step_exponential[{cname}]"
        try:
            paths = chk.run_paths(tage, lambda: ad.exp_matrix(M), [], fn=fne, replay=rp, goal="no exception on the exponent of a step at a_em = 0")
        finally:
            vnp._HOOKS.clear()
            vnp._HOOKS.update(saved_hooks)
        want = np.empty((dim, dim), dtype=object)
        want[:] = Q(0)
        for i, d_ in enumerate(diag):
            want[i, i] = Q(1) if (isinstance(d_, Q) and d_ == 0) else T.app("exp", T.lift(d_))
        for ptag, _pc, res in paths:
            chk.eq_array(f"{ptag}.is_the_QCD_exponential", np.array(res[0], dtype=object), want, fn=fne, replay=rp, goal="exp(diag(l_i)) == diag(exp(l_i)): each decoupled sector evolves with its own QCD exponential")
    chk.extra["exhaustive"] = True
