"""C15 -- running couplings solve their renormalisation group equations (expanded, reference-point, monotonicity and dispatch clauses).

With t = lmu = ln(mu^2/mu_ref^2), ref the reference coupling and u := beta0*ref*t treated as O(1) (resummed logarithms):
 (i)   a(ref, t = 0) == ref for every expanded solution and order;
 (ii)  residual:  d a/dt + sum_{k<n} beta_k a^(k+2) == O(ref^(n+2)) at fixed u  -- executed in the Laurent-series ring in ref with
       t = u/(beta0 ref); d/dt = beta0 ref d/du (formal derivative).  Since the exact coupling is the unique solution of the RGE this is
       "the expanded solution agrees with the exact one up to terms beyond the working order";
 (iii) running alpha_em: both components of couplings_expanded_alphaem_running satisfy the coupled RGE through second order in the
       couplings at fixed t (the statement's own weaker bound), and the value at t = 0 is the reference pair;
 (iv)  LO: da/dt == -beta0 a^2 exactly and < 0 for beta0, ref, den > 0 (z3);
 (v)   dispatch: Couplings.compute selects expanded/exact x fixed/running by (method, alphaem_running); the right-hand sides handed to
       scipy.integrate.solve_ivp by the exact methods equal the specification beta functions (solve_ivp itself is assumed).
"""
from fractions import Fraction as Q

import numpy as np

from pyvc import terms as T
from pyvc.series import Series
from pyvc.replay import script
from contracts.C20 import spec_beta_qcd, NC, CF, TR, eu2, ed2

REPLAY = '''
def replay():
    from eko.couplings import Couplings
    from eko.quantities.couplings import CouplingsInfo, CouplingEvolutionMethod
    from eko.quantities.heavy_quarks import QuarkMassScheme
    from scipy import integrate
    out = []
    def beta_qcd(k, nf):   # independently typed literature values, a = alpha/4pi
        z3 = 1.2020569031595942
        return [11 - 2/3*nf, 102 - 38/3*nf, 2857/2 - 5033/18*nf + 325/54*nf**2,
                149753/6 + 3564*z3 - (1078361/162 + 6508/27*z3)*nf + (50065/162 + 6472/81*z3)*nf**2 + 1093/729*nf**3][k]
    for alphas in (0.118, 0.25):
        for order in (1, 2, 3, 4):
            errs = {}
            for method in (CouplingEvolutionMethod.EXACT, CouplingEvolutionMethod.EXPANDED):
                ref = CouplingsInfo.from_dict(dict(alphas=alphas, alphaem=0.007496, ref=(10.0, 4), em_running=False))
                sc = Couplings(ref, (order, 0), method, masses=[0.0, 1e9, 1e10], hqm_scheme=QuarkMassScheme.POLE, thresholds_ratios=[1.0, 1.0, 1.0])
                a0 = alphas / 4 / np.pi
                if abs(sc.a_s(100.0, 4) - a0) > 1e-15: out.append(f"a_s at the reference point: {sc.a_s(100.0, 4)} != {a0}")
                for mu2 in (30.0, 400.0, 2500.0):
                    sol = integrate.solve_ivp(lambda t, y: [-sum(beta_qcd(k, 4) * y[0] ** (k + 2) for k in range(order))], (0, np.log(mu2 / 100.0)), [a0], rtol=1e-12, atol=1e-15)
                    ex = sol.y[0][-1]
                    got = sc.a_s(mu2, 4)
                    if method is CouplingEvolutionMethod.EXACT and abs(got - ex) > 2e-5 * ex: out.append(f"exact order {order}: a_s({mu2}) = {got} vs RGE {ex}")
                    if method is CouplingEvolutionMethod.EXPANDED: errs.setdefault(mu2, []).append(abs(got - ex) / ex)
            # expanded error must be of relative size a^order * O(1)
            for mu2, e in errs.items():
                if e[0] > 60 * (alphas / 4 / np.pi) ** order: out.append(f"expanded order {order} alphas {alphas}: relative deviation {e[0]:.2e} from the RGE solution at mu2={mu2} exceeds the working order")
    return bool(out), "; ".join(out[:5]) if out else "native couplings agree with the numerically integrated RGE"
'''

REPLAY_TAU = '''
def replay():
    # native: a_em below the tau mass reached from above inside one patch against an independent integration of the coupled RGEs with the lepton number switching at m_tau
    from scipy.integrate import solve_ivp
    from eko import beta, constants
    from eko.couplings import Couplings
    from eko.quantities.couplings import CouplingEvolutionMethod, CouplingsInfo
    from eko.quantities.heavy_quarks import QuarkMassScheme
    out = []
    for order in ((2, 1), (3, 2)):
        for q_ref, q_to in ((2.0, 1.55), (1.6, 2.5)):
            ci = CouplingsInfo.from_dict(dict(alphas=0.30, alphaem=0.00781, ref=(q_ref, 4), em_running=True))
            sc = Couplings(ci, order=order, method=CouplingEvolutionMethod.EXACT, masses=[1.2**2, 4.5**2, 173.0**2], hqm_scheme=QuarkMassScheme.POLE, thresholds_ratios=[1.0, 1.0, 1.0])
            got = sc.a(q_to**2, 4)
            def rhs(t, y, nl):
                a_s, a_em = y
                bs = sum(beta.beta_qcd((2 + k, 0), 4) * a_s**k for k in range(order[0])) + a_em * beta.beta_qcd((2, 1), 4)
                be = sum(beta.beta_qed((0, 2 + k), 4, nl) * a_em**k for k in range(order[1])) + a_s * beta.beta_qed((1, 2), 4, nl)
                return [-a_s**2 * bs, -a_em**2 * be]
            y, t = [0.30 / 4 / np.pi, 0.00781 / 4 / np.pi], np.log(q_ref**2)
            stops = [np.log(constants.MTAU**2)] if min(q_ref, q_to) < constants.MTAU < max(q_ref, q_to) else []
            for t1 in stops + [np.log(q_to**2)]:
                mid = np.exp((t + t1) / 2)
                nl = 3 if mid > constants.MTAU**2 else 2
                y = solve_ivp(rhs, (t, t1), y, args=(nl,), method="DOP853", rtol=1e-11, atol=1e-14).y[:, -1]
                t = t1
            if abs(got[1] / y[1] - 1) > 2e-6 or abs(got[0] / y[0] - 1) > 2e-6:
                out.append(f"order {order}, {q_ref} GeV -> {q_to} GeV (nf=4): a_em = {got[1]:.9g} but the RGE with the lepton number switching at the tau mass gives {y[1]:.9g} (relative {got[1]/y[1]-1:+.2e}); a_s relative {got[0]/y[0]-1:+.2e}")
    return bool(out), "; ".join(out[:3]) if out else "couplings across the tau mass agree with an independent integration"
'''


def run(chk):
    from eko import couplings, beta
    from eko.couplings import Couplings

    rp = script(REPLAY, kind="rge_oracle")
    rp_tau = script(REPLAY_TAU, kind="rge_oracle")
    chk.under_contract("eko.couplings:exact_lo", "eko.couplings:expanded_nlo", "eko.couplings:expanded_nnlo", "eko.couplings:expanded_n3lo", "eko.couplings:expanded_qcd",
                       "eko.couplings:expanded_qed", "eko.couplings:couplings_expanded_alphaem_running", "eko.couplings:couplings_expanded_fixed_alphaem",
                       "eko.couplings:Couplings.compute", "eko.couplings:Couplings.compute_exact_alphaem_running", "eko.couplings:Couplings.compute_exact_fixed_alphaem",
                       "eko.couplings:Couplings.unidimensional_exact")
    chk.trust("lemma: the RGE has a unique solution through the reference point; a function satisfying it up to O(ref^(n+2)) agrees with the solution to the working order",
              "scipy.integrate.solve_ivp integrates the right-hand side it is given (rtol 1e-6): assumed; the right-hand side closures are compared with the specification")
    chk.uncovered("numerical accuracy of the exact (solve_ivp) solutions; mixed QCDxQED terms beyond second order in the couplings")
    lam = Series.indet("lam", 9)
    u, beta0 = T.var("u"), T.var("beta0")
    bs = [T.var(f"b{k}") for k in range(4)]     # b_k = beta_k / beta0 (b0 = 1)
    RANGES = {"u": (-0.3, 0.6), "beta0": (7.0, 9.0), "*": (0.2, 2.0)}

    def du(series):
        return Series(series.var, series.val, [T.diff(T.lift(c), "u") for c in series.c])

    lmu = (u / beta0) / lam        # t = u/(beta0 ref)
    funcs = {1: lambda ref, t: couplings.exact_lo(ref, beta0, t), 2: lambda ref, t: couplings.expanded_nlo(ref, beta0, bs[1], t),
             3: lambda ref, t: couplings.expanded_nnlo(ref, beta0, bs[1], bs[2], t), 4: lambda ref, t: couplings.expanded_n3lo(ref, beta0, bs[1], bs[2], bs[3], t)}
    names = {1: "exact_lo", 2: "expanded_nlo", 3: "expanded_nnlo", 4: "expanded_n3lo"}
    ref = T.var("ref")
    for n in (1, 2, 3, 4):
        fn = f"eko.couplings:{names[n]}"
        # (i) value at the reference point
        chk.eq(f"C15.reference_point.{names[n]}", funcs[n](ref, Q(0)), ref, fn=fn, goal="a(ref, t=0) == ref", replay=rp, assumptions=[ref > 0, beta0 > 0])
        # (ii) residual in the series ring
        a = funcs[n](lam, lmu)
        resid = (du(a) * lam) * beta0
        for k in range(n):
            resid = resid + (a ** (k + 2)) * (beta0 if k == 0 else bs[k] * beta0)
        for p in range(2, n + 2):
            chk.eq(f"C15.rge_residual.{names[n]}.ref^{p}", resid.coeff(p), 0, fn=fn, replay=rp, ranges=RANGES, assumptions=[1 + u > 0],
                   goal=f"[ref^{p}] (da/dt + sum_(k<{n}) beta_k a^(k+2)) == 0 at fixed u = beta0 ref t   (p < n+2)")
        # dispatcher expanded_qcd
        bv = [T.ONE] + bs[1:]
        chk.eq(f"C15.expanded_qcd[order={n}]", couplings.expanded_qcd(ref, n, beta0, bv, T.var("t")), funcs[n](ref, T.var("t")), fn="eko.couplings:expanded_qcd",
               goal="expanded_qcd(order) is the function proved above", replay=rp)
        if n <= 2:
            chk.eq(f"C15.expanded_qed[order={n}]", couplings.expanded_qed(ref, n, beta0, bv, T.var("t")), funcs[n](ref, T.var("t")), fn="eko.couplings:expanded_qed",
                   goal="expanded_qed(order) is the same function with the QED coefficients", replay=rp)
    # (iv) LO exactly and monotone
    t = T.var("t")
    aLO = couplings.exact_lo(ref, beta0, t)
    chk.eq("C15.lo.rge_exact", T.diff(aLO, "t") + beta0 * aLO * aLO, 0, fn="eko.couplings:exact_lo", goal="da/dt == -beta0 a^2 exactly", replay=rp)
    den = 1 + beta0 * ref * t
    chk.smt("C15.lo.decreasing", [beta0 > 0, ref > 0, den > 0], T.lift(-beta0 * (ref / den) * (ref / den)) < 0, fn="eko.couplings:exact_lo",
            goal="beta0 > 0, ref > 0, den > 0  =>  da/dt < 0", replay=rp)

    # (iii)+(v) fixed and running alpha_em wrappers: nf concrete, order enumerated
    as0, aem0, s_from, s_to = T.var("as0"), T.var("aem0"), T.var("mu2_from"), T.var("mu2_to")
    nl = T.var("nl")

    def spec_b_qcd(nf, n):
        return [spec_beta_qcd(k, nf) for k in range(n)]

    for nf in (3, 4, 5, 6):
        nu = nf // 2
        s2, s4 = nu * eu2 + (nf - nu) * ed2, nu * eu2**2 + (nf - nu) * ed2**2
        b_qed = [-Q(4, 3) * (nl + NC * s2), -4 * (nl + NC * s4)]
        b21, b12 = -4 * TR * s2, -4 * CF * NC * s2
        for n in (1, 2, 3, 4):
            for m in (0, 1, 2):
                tag = f"[nf={nf},order=({n},{m})]"
                lm = T.app("ln", s_to / s_from)
                # fixed alpha_em: QCD expanded solution with beta0 shifted by aem*beta21 when m >= 1; a_em untouched
                got = couplings.couplings_expanded_fixed_alphaem((n, m), np.array([as0, aem0], dtype=object), nf, s_from, s_to)
                bq = spec_b_qcd(nf, n)
                b0s = bq[0] + (aem0 * b21 if m >= 1 else 0)
                want_s = {1: lambda: couplings.exact_lo(as0, b0s, lm), 2: lambda: couplings.expanded_nlo(as0, b0s, bq[1] / b0s, lm),
                          3: lambda: couplings.expanded_nnlo(as0, b0s, bq[1] / b0s, bq[2] / b0s, lm),
                          4: lambda: couplings.expanded_n3lo(as0, b0s, bq[1] / b0s, bq[2] / b0s, bq[3] / b0s, lm)}[n]()
                chk.eq(f"C15.fixed_aem{tag}.a_s", got[0], want_s, fn="eko.couplings:couplings_expanded_fixed_alphaem", replay=rp, assumptions=[s_to > 0, s_from > 0],
                       goal="a_s == expanded solution with (beta0 + aem beta^(2,1) if QED order >= 1, literature beta vector, t = ln(to/from))")
                chk.eq(f"C15.fixed_aem{tag}.a_em", got[1], aem0, fn="eko.couplings:couplings_expanded_fixed_alphaem", goal="a_em unchanged", replay=rp)
                # running alpha_em
                got = couplings.couplings_expanded_alphaem_running((n, m), np.array([as0, aem0], dtype=object), nf, nl, s_from, s_to, False)
                # value at the reference point
                at0 = couplings.couplings_expanded_alphaem_running((n, m), np.array([as0, aem0], dtype=object), nf, nl, s_from, s_from, False)
                chk.eq(f"C15.running_aem{tag}.reference_point.a_s", at0[0], as0, fn="eko.couplings:couplings_expanded_alphaem_running", goal="a_s(t=0) == reference", replay=rp, assumptions=[s_from > 0])
                chk.eq(f"C15.running_aem{tag}.reference_point.a_em", at0[1], aem0, fn="eko.couplings:couplings_expanded_alphaem_running", goal="a_em(t=0) == reference", replay=rp, assumptions=[s_from > 0])
                # coupled RGE through second order in the couplings at fixed t: couplings = lam * rho
                rs, re_, tt = T.var("rho_s"), T.var("rho_em"), T.var("t")
                import math
                saved_log = couplings.np.log
                # run with scale_to/scale_from such that ln(...) = t : patch np.log on the ratio by passing scale_from=1, scale_to=exp(t) symbolic atom
                et = T.app("exp", tt)
                res = couplings.couplings_expanded_alphaem_running((n, m), np.array([lam * rs, lam * re_], dtype=object), nf, nl, Q(1), et, False)

                def dt(series):
                    return Series(series.var, series.val, [T.diff(T.lift(c), "t") for c in series.c]) if isinstance(series, Series) else T.diff(T.lift(series), "t")

                a_s_, a_e_ = res[0], res[1]
                Rs = dt(a_s_) + a_s_ * a_s_ * (bq[0] + (a_e_ * b21 if m >= 1 else 0))
                chk.eq(f"C15.running_aem{tag}.rge.a_s.order2", _coeff(Rs, 2), 0, fn="eko.couplings:couplings_expanded_alphaem_running", replay=rp,
                       goal="[couplings^2] (da_s/dt + beta_QCD(a_s, a_em)) == 0", ranges={"t": (-0.5, 0.5), "*": (0.2, 2.0)})
                if m >= 1:
                    Re = dt(a_e_) + a_e_ * a_e_ * (b_qed[0] + a_s_ * b12)
                    chk.eq(f"C15.running_aem{tag}.rge.a_em.order2", _coeff(Re, 2), 0, fn="eko.couplings:couplings_expanded_alphaem_running", replay=rp,
                           goal="[couplings^2] (da_em/dt + beta_QED(a_s, a_em)) == 0", ranges={"t": (-0.5, 0.5), "nl": (2, 3), "*": (0.2, 2.0)})
                else:
                    chk.eq(f"C15.running_aem{tag}.a_em_constant_without_qed_order", got[1], aem0, fn="eko.couplings:couplings_expanded_alphaem_running", goal="QED order 0: a_em == reference", replay=rp)
                chk.configs += 1

    # (v) Couplings.compute dispatch and the right-hand sides of the exact methods
    import scipy.integrate as sint
    captured = {}

    def fake_solve_ivp(rge, span, y0, args=(), method=None, rtol=None):
        captured["rge"], captured["span"], captured["y0"], captured["args"], captured["method"], captured["rtol"] = rge, span, y0, args, method, rtol

        class R:
            y = [[T.app("ivp_s", *list(np.atleast_1d(y0)))], [T.app("ivp_em", *list(np.atleast_1d(y0)))]]
        return R()

    saved_ivp = couplings.scipy.integrate.solve_ivp
    couplings.scipy.integrate.solve_ivp = fake_solve_ivp
    try:
        for nf in (3, 4, 5, 6):
            for n in (2, 3, 4):
                for m in (0, 1, 2):
                    obj = object.__new__(Couplings)
                    obj.order, obj.decoupled_running = (n, m), False
                    bq = spec_b_qcd(nf, n)
                    nu = nf // 2
                    s2 = nu * eu2 + (nf - nu) * ed2
                    b21 = -4 * TR * s2
                    # fixed alpha_em
                    captured.clear()
                    r = obj.compute_exact_fixed_alphaem(np.array([as0, aem0], dtype=object), nf, s_from, s_to)
                    tag = f"C15.exact_fixed[nf={nf},order=({n},{m})]"
                    fn = "eko.couplings:Couplings.compute_exact_fixed_alphaem"
                    if "rge" not in captured:
                        chk.fail(f"{tag}.uses_solve_ivp", "solve_ivp not called", fn=fn, replay=rp)
                        continue
                    x = T.var("x")
                    rhs = captured["rge"](0, x, *captured["args"])
                    b0s = bq[0] + (aem0 * b21 if m >= 1 else 0)
                    # integration variable tau with span (0, beta0*u): da/dtau = rhs  <=>  da/dt = beta0 * rhs
                    want = -sum((bq[k] * x ** (k + 2) for k in range(1, n)), b0s * x**2)
                    chk.eq(f"{tag}.rhs", rhs * b0s, want, fn=fn, replay=rp, goal="solve_ivp right-hand side x beta0 == -(sum_k beta_k a^(k+2)) with shifted beta0")
                    chk.eq(f"{tag}.span", captured["span"][1], b0s * T.app("ln", s_to / s_from), fn=fn, replay=rp, goal="integrated over beta0 * ln(mu2_to/mu2_from)", assumptions=[s_to > 0, s_from > 0])
                    chk.ground(f"{tag}.initial_value", T.lift(captured["y0"][0]).n == as0.n and captured["span"][0] == 0, fn=fn, goal="starts from the reference coupling at 0")
                    chk.eq(f"{tag}.a_em", r[1], aem0, fn=fn, goal="a_em unchanged")
                    # running alpha_em
                    captured.clear()
                    r = obj.compute_exact_alphaem_running(np.array([as0, aem0], dtype=object), nf, nl, s_from, s_to)
                    tag = f"C15.exact_running[nf={nf},order=({n},{m})]"
                    fn = "eko.couplings:Couplings.compute_exact_alphaem_running"
                    if "rge" not in captured:
                        chk.fail(f"{tag}.uses_solve_ivp", "solve_ivp not called", fn=fn, replay=rp)
                        continue
                    if m == 0:
                        rhs = captured["rge"](0, x, *captured["args"])
                        chk.eq(f"{tag}.rhs", rhs * bq[0], -sum((bq[k] * x ** (k + 2) for k in range(n)), T.ZERO), fn=fn, replay=rp, goal="pure QCD RGE right-hand side")
                    else:
                        y = T.var("y")
                        rhs = captured["rge"](0, np.array([x, y], dtype=object), *captured["args"])
                        s4 = nu * eu2**2 + (nf - nu) * ed2**2
                        bqed = [-Q(4, 3) * (nl + NC * s2), -4 * (nl + NC * s4)]
                        b12 = -4 * CF * NC * s2
                        want_s = -(x * x) * (sum((bq[k] * x**k for k in range(n)), T.ZERO) + y * b21)
                        want_e = -(y * y) * (sum((bqed[k] * y**k for k in range(m)), T.ZERO) + x * b12)
                        chk.eq(f"{tag}.rhs.a_s", rhs[0], want_s, fn=fn, replay=rp, goal="da_s/dt == -a_s^2 (sum beta_k a_s^k + a_em beta^(2,1))", ranges={"nl": (2, 3), "*": (0.01, 0.1)})
                        chk.eq(f"{tag}.rhs.a_em", rhs[1], want_e, fn=fn, replay=rp, goal="da_em/dt == -a_em^2 (sum beta_QED_k a_em^k + a_s beta^(1,2))", ranges={"nl": (2, 3), "*": (0.01, 0.1)})
                        chk.eq(f"{tag}.span", captured["span"][1], T.app("ln", s_to / s_from), fn=fn, replay=rp, goal="integrated over ln(mu2_to/mu2_from)", assumptions=[s_to > 0, s_from > 0])
    finally:
        couplings.scipy.integrate.solve_ivp = saved_ivp

    # ---- the RGE that is solved on each stretch has the lepton number of that stretch: Couplings.a splits a fixed-nf segment at the tau mass ---------------------
    # requires: compute(a, nf, nl, from, to) solves the coupled RGEs with nl leptons (clauses above).  ensures: along a fixed-nf segment the calls form a chain
    # origin -> ... -> target whose links do not contain the tau mass in their interior and carry the number of leptons active on the link (QED orders only).
    from eko import matchings, constants
    MT2 = constants.MTAU**2
    fn = "eko.couplings:Couplings.a"
    for order in ((2, 0), (2, 1), (3, 2)):
        for lab, ref, (q2, nfto) in (("down_across_tau", (Q(4), 4), (Q(5, 2), 4)), ("up_across_tau", (Q(5, 2), 4), (Q(10), 4)), ("above_tau", (Q(10), 4), (Q(16), 4)), ("below_tau", (Q(3), 4), (Q(5, 2), 4)),
                                     ("down_across_tau_and_charm", (Q(100), 5), (Q(1), 3)), ("up_from_below_tau_to_bottom", (Q(5, 2), 4), (Q(1000), 5))):
            c = object.__new__(couplings.Couplings)
            c.order, c.method, c.alphaem_running, c.decoupled_running, c.cache = order, "expanded", True, False, {}
            c.a_ref = np.array([T.var("as_ref"), T.var("aem_ref")], dtype=object)
            c.thresholds_ratios = [Q(1), Q(1), Q(1)]
            c.atlas = matchings.Atlas([Q(2), Q(81, 4), Q(30000)], ref)
            c.hqm_scheme = "POLE"
            calls = []
            c.compute = lambda a_ref, nf_, nl_, sfrom, sto, calls=calls: (calls.append((nf_, nl_, sfrom, sto)), np.array([T.app("compute_as", T.lift(a_ref[0]), T.lift(sfrom), T.lift(sto), T.lift(nl_)), a_ref[1]], dtype=object))[1]
            tag = f"C15.lepton_patches[order={order},{lab}]"
            try:
                c.a(q2, nfto)
            except Exception as e:  # noqa: BLE001
                chk.raised(f"{tag}.no_exception", e, fn=fn, replay=rp_tau)
                continue
            bad = []
            # group the calls by flavour patch: inside one patch they must chain and respect the tau mass
            cur_nf, chain = None, []
            groups = []
            for nf_, nl_, sf_, st_ in calls:
                if nf_ != cur_nf:
                    chain = []
                    groups.append((nf_, chain))
                    cur_nf = nf_
                chain.append((nl_, sf_, st_))
            for nf_, chain in groups:
                for i, (nl_, sf_, st_) in enumerate(chain):
                    lo, hi = (sf_, st_) if sf_ <= st_ else (st_, sf_)
                    if i and chain[i - 1][2] != sf_:
                        bad.append(f"nf={nf_}: stretch {i} starts at {sf_}, the previous one ended at {chain[i-1][2]}")
                    if order[1] != 0:
                        if lo < MT2 < hi:
                            bad.append(f"nf={nf_}: one RGE solve from {sf_} to {st_} across the tau mass (m_tau^2 = {float(MT2):.4f}) with nl = {nl_}")
                        want_nl = 3 if lo >= MT2 else 2
                        if not (lo < MT2 < hi) and nl_ != want_nl:
                            bad.append(f"nf={nf_}: stretch {sf_} -> {st_} solved with nl = {nl_}, {want_nl} leptons are active there")
            chk.ground(f"{tag}.lepton_number_of_each_stretch", not bad, fn=fn, replay=rp_tau, backend="symbolic-execution",
                       goal="every RGE solve along the path stays on one side of the tau mass and uses the number of leptons active there (QED orders); the stretches chain", detail="; ".join(bad) or None)
    chk.extra["exhaustive"] = True


def _coeff(x, k):
    if isinstance(x, Series):
        try:
            return x.coeff(k)
        except Exception:
            return Q(0)
    return x if k == 0 else Q(0)
