"""C16 -- coupling threshold matching follows the decoupling relations.

 (i)   constants c[2,0], c[3,0] (POLE, MSBAR) == published values (Chetyrkin-Kniehl-Steinhauser 1997, eqs. for 1/zeta_g^2 in the
       on-shell and MSbar schemes; same numbers as PEGASUS eq. 2.42 for POLE), typed below as exact expressions in zeta2, zeta3,
       ln2 and as the printed decimals; the code's decimals must agree within one unit of their last printed digit.
 (ii)  logarithms: with a' = a (1 + sum_n a^n C_n(L)),  da/dt = -beta^(nf)(a),  da'/dt = -beta^(nf+1)(a'),  dL/dt = 1 (POLE) resp.
       1 + 2 gamma_m^(nf+1)(a') (MSBAR: L = ln(mu^2/m(mu)^2) with the running heavy-quark mass), the residual of the RG identity
       vanishes through O(a^4) as a polynomial identity in (nf, L) -- generated mechanically in the series ring, with the code's own
       beta / gamma functions (tied to the literature by C20).
 (iii) c[1,0] = 0: at ratio 1 (L = 0) the matching factor is 1 for order <= 2 (continuity at LO and NLO).
 (iv)  downward = perturbative inverse: C22.
 (v)   Couplings.a(scale_to, nf_to) with compute() replaced by its contract F(a_ref, nf, nl, from, to) is the composition of F and
       matching factors along exactly Atlas.path (C19): crossing between nf and nf+1 uses thresholds_ratios[heavier quark - 4], the
       coefficients with nf = lighter count, and the coupling just computed; all 16 (nf_ref, nf_to) pairs, symbolic scales.
"""
from fractions import Fraction as Q

import numpy as np

from pyvc import terms as T
from pyvc.series import Series
from pyvc.replay import script
from contracts.common import abstract_stages, expand_stages
from pyvc.vnp import INF

z2, z3, ln2 = T.app("zeta2"), T.app("zeta3"), T.app("ln", T.const(2))

# CKS 1997 (hep-ph/9706430) 1/zeta_g^2 at mu = m_h, converted from alpha_s/pi to a = alpha_s/(4 pi) (factor 4^n), nl = number of light flavours
LIT = {
    "POLE": {  # on-shell mass M_h
        (2, 0): (Q(7, 24) * 16, "4.66667"),
        (3, 0): (64 * (Q(58933, 124416) + Q(2, 3) * z2 * (1 + ln2 / 3) + Q(80507, 27648) * z3), "340.729"),
        (3, 0, "nl"): (-64 * (Q(2479, 31104) + z2 / 9), "-16.7981"),
    },
    "MSBAR": {  # scale-invariant mass m_h(m_h)
        (2, 0): (-Q(11, 72) * 16, "-2.44444"),
        (3, 0): (-64 * (Q(564731, 124416) - Q(82043, 27648) * z3), "-62.2116"),
        (3, 0, "nl"): (64 * Q(2633, 31104), "5.4177"),
    },
}

REPLAY = '''
def replay():
    """numerical RG consistency of the up-matching table: transport a across the threshold at two nearby matching scales"""
    from eko import couplings, beta, gamma
    from scipy import integrate
    out = []
    for scheme in ("POLE", "MSBAR"):
        for nf in (3, 4, 5):
            c = couplings.compute_matching_coeffs_up(scheme, nf)
            bl = lambda a, n: sum(beta.beta_qcd((k + 2, 0), n) * a ** (k + 2) for k in range(4))
            gm = lambda a, n: sum(gamma.gamma(k + 1, n) * a ** (k + 1) for k in range(4))
            def up(a, L): return a * (1 + sum(a ** n * L ** l * c[n, l] for n in range(1, 4) for l in range(n + 1)))
            errs = []
            for a0 in (0.01, 0.005):
                # evolve (a, L) in t = ln mu^2 from L = 0 to L = 0.5 with nf flavours, match, compare with matching at L=0 then evolving with nf+1
                def rhs_l(t, y):
                    a, L = y
                    ah = up(a, L)
                    return [-bl(a, nf), 1.0 + (2 * gm(ah, nf + 1) if scheme == "MSBAR" else 0.0)]
                s1 = integrate.solve_ivp(rhs_l, (0, 0.5), [a0, 0.0], rtol=1e-12, atol=1e-15)
                a_l, L1 = s1.y[0][-1], s1.y[1][-1]
                lhs = up(a_l, L1)
                s2 = integrate.solve_ivp(lambda t, y: [-bl(y[0], nf + 1)], (0, 0.5), [up(a0, 0.0)], rtol=1e-12, atol=1e-15)
                errs.append(abs(lhs - s2.y[0][-1]))
            # mismatch must be O(a^6): halving a divides it by ~64 (allow 20)
            if errs[1] > 0 and errs[0] / errs[1] < 20: out.append(f"{scheme} nf={nf}: matching at two scales disagrees like a^{np.log2(errs[0]/errs[1]):.2f} (expected >= a^5..a^6): {errs}")
    return bool(out), "; ".join(out) if out else "up-matching commutes with the running through O(a^4) natively"
'''


def run(chk):
    from eko import couplings, beta, gamma, matchings
    from eko.couplings import Couplings

    rp = script(REPLAY, kind="rg_commutation_oracle")
    chk.under_contract("eko.couplings:compute_matching_coeffs_up", "eko.couplings:Couplings.a", "eko.matchings:flavor_shift", "eko.matchings:is_downward_path")
    chk.trust("literature constants typed in contracts/C16.py (exact forms cross-checked against their printed decimals on every run)",
              "beta and gamma_m coefficients tied to the literature by C20", "Atlas.path contract (C19)", "C22 for the downward direction")
    nf, L = T.var("nf"), T.var("L")

    # ---- (i) constants ----------------------------------------------------------------------------------------------------
    for scheme in ("POLE", "MSBAR"):
        c = couplings.compute_matching_coeffs_up(scheme, nf)
        for key, (exact, dec) in LIT[scheme].items():
            val = float(T.evalmp(T.lift(exact), {}, 30).real)
            if abs(val - float(dec)) > 0.6 * 10 ** (-len(dec.split(".")[1])) + 1e-12:
                raise RuntimeError(f"specification typo? {scheme} {key}: exact {val} vs printed {dec}")
        c20, c30 = c[2, 0], c[3, 0]
        chk.eq(f"C16.constants[{scheme}].c20", c20, LIT[scheme][(2, 0)][0], fn="eko.couplings:compute_matching_coeffs_up", goal="c[2,0] == CKS value", replay=rp)
        # c30 is given in the code with 6 significant digits: compare numerically at nf = 0 and the nf slope
        c30_0 = float(T.evalmp(T.subst(T.lift(c30), {"nf": 0}), {}, 30).real)
        c30_1 = float(T.evalmp(T.subst(T.lift(c30), {"nf": 1}), {}, 30).real) - c30_0
        lit0 = float(T.evalmp(T.lift(LIT[scheme][(3, 0)][0]), {}, 30).real)
        lit1 = float(T.evalmp(T.lift(LIT[scheme][(3, 0, "nl")][0]), {}, 30).real)
        chk.ground(f"C16.constants[{scheme}].c30_const", abs(c30_0 - lit0) <= 6e-4 * max(1, abs(lit0) / 100), fn="eko.couplings:compute_matching_coeffs_up",
                   goal="c[3,0](nf=0) == CKS value to the printed digits", detail=f"code {c30_0} vs literature {lit0}", replay=rp)
        chk.ground(f"C16.constants[{scheme}].c30_nf", abs(c30_1 - lit1) <= 6e-5, fn="eko.couplings:compute_matching_coeffs_up",
                   goal="nf-slope of c[3,0] == CKS value to the printed digits", detail=f"code {c30_1} vs literature {lit1}", replay=rp)
        chk.eq(f"C16.constants[{scheme}].c10", c[1, 0], 0, fn="eko.couplings:compute_matching_coeffs_up", goal="c[1,0] == 0 (continuity at LO/NLO for unit ratio)")
        for n in range(4):
            for l in range(4):
                if l > n or n == 0:
                    chk.eq(f"C16.constants[{scheme}].c{n}{l}_unused_zero", c[n, l], 0, fn="eko.couplings:compute_matching_coeffs_up", goal="no coefficient outside 1 <= n <= 3, l <= n")

        # ---- (ii) RG identity through O(a^4) ---------------------------------------------------------------------------------
        a = Series.indet("a", 7)
        F = 1
        for n in range(1, 4):
            for l in range(n + 1):
                F = F + (a**n) * (L**l * c[n, l])
        ap = a * F
        b = lambda x, nfv: sum((beta.beta_qcd((k + 2, 0), nfv) * x ** (k + 2) for k in range(4)), 0)
        gm = lambda x, nfv: sum((gamma.gamma(k + 1, nfv) * x ** (k + 1) for k in range(4)), 0)
        dLdt = 1 + 2 * gm(ap, nf + 1) if scheme == "MSBAR" else 1
        dap_dL = Series("a", ap.val, [T.diff(T.lift(cc), "L") for cc in ap.c])
        resid = -b(ap, nf + 1) - (ap.deriv() * (-b(a, nf)) + dap_dL * dLdt)
        for k in (2, 3, 4):
            chk.eq(f"C16.rg[{scheme}].a^{k}", resid.coeff(k), 0, fn="eko.couplings:compute_matching_coeffs_up", replay=rp, ranges={"nf": (3, 5), "L": (-1.0, 1.0)},
                   goal=f"[a^{k}] ( d a'/dt + beta^(nf+1)(a') ) == 0 with a' = a(1 + sum a^n C_n(L)), all nf, all L")

    # ---- (iii)+(v): Couplings.a over symbolic scales ------------------------------------------------------------------------------
    c_, b_, t_, mu0, muf = (T.var(x) for x in ("mc", "mb", "mt", "mu0", "muf"))
    ratios = [T.var("kc"), T.var("kb"), T.var("kt")]
    as0, aem0 = T.var("as0"), T.var("aem0")
    MT2 = Q(1777, 1000) ** 2

    def F(comp, aref, nfv, nl, frm, to):
        return T.app(f"F{comp}", aref[0], aref[1], nfv, nl, frm, to)

    def mk(scheme, order, nf_ref):
        obj = object.__new__(Couplings)
        obj.order = order
        obj.method = "expanded"
        obj.alphaem_running = False
        obj.decoupled_running = False
        obj.a_ref = np.array([as0, aem0], dtype=object)
        obj.thresholds_ratios = list(ratios)
        obj.atlas = matchings.Atlas([c_, b_, t_], (mu0, nf_ref))
        obj.hqm_scheme = scheme
        obj.cache = {}
        obj.compute = lambda aref, nfv, nl, frm, to: np.array([F(0, aref, nfv, nl, frm, to), F(1, aref, nfv, nl, frm, to)], dtype=object)
        return obj

    walls = [c_, b_, t_]
    req = [mu0 > MT2, muf > MT2, c_ > MT2, c_ <= b_, b_ <= t_] + [r > 0 for r in ratios]
    tasks = [(scheme, order, nf_ref, nf_to) for scheme in ("POLE", "MSBAR") for order in ((1, 0), (2, 0), (3, 0), (4, 0))
             for nf_ref in (3, 4, 5, 6) for nf_to in (3, 4, 5, 6)]
    if chk.tier == "quick":
        tasks = [t for t in tasks if t[1] in ((2, 0), (4, 0)) or (t[2], t[3]) in ((3, 6), (6, 3))]

    def worker(chk, task):
        scheme, order, nf_ref, nf_to = task
        tag = f"C16.a[{scheme},order={order[0]},{nf_ref}->{nf_to}]"
        fn = "eko.couplings:Couplings.a"
        obj = mk(scheme, order, nf_ref)
        calls = []

        # contract of compute: "some pair of couplings, a function of (a_ref, nf, nl, from, to)" -- handed back as FRESH variables per call, with the arguments recorded,
        # so that every obligation below contains one matching polynomial at most (no nested expansions: the proof does not depend on how the code writes the factor)
        def compute_stub(aref, nfv, nl, frm, to):
            k = len(calls)
            out = [T.var(f"A{k}"), T.var(f"B{k}")]
            calls.append((list(aref), nfv, nl, frm, to, out))
            return np.array(out, dtype=object)

        obj.compute = compute_stub

        def thunk():
            calls.clear()
            r = obj.a(muf, nf_to)
            return r, list(calls)

        for pt, pc, (res, log) in chk.run_paths(tag, thunk, req, fn=fn, replay=rp):
            hyp = req + list(pc)
            # specification along the path (Atlas.path is C19's contract; recomputed here on the same symbolic atlas)
            # the spec must follow the same isclose decisions: re-derive them from the path condition with z3
            from pyvc import smt
            sg = 1 if nf_to > nf_ref else -1
            nfs = list(range(nf_ref, nf_to + sg, sg)) if nf_to != nf_ref else [nf_ref]
            bounds = [mu0] + [walls[max(n1, n2) - 4] for n1, n2 in zip(nfs, nfs[1:])] + [muf]
            cur = [as0, aem0]
            ok_spec, used, bad_calls, inputs_l, inputs_r, stages = True, 0, [], [], [], []
            for k, nfv in enumerate(nfs):
                o, t = bounds[k], bounds[k + 1]
                close = vnp_isclose(o, t)
                if smt.prove(hyp, close):
                    new = list(cur)
                elif smt.prove(hyp, T.bnot(close)):
                    if used >= len(log):
                        bad_calls.append(f"segment {o} -> {t} (nf={nfv}) is not evolved")
                        new = list(cur)
                    else:
                        aref, nfc, nlc, frm, to, out = log[used]
                        used += 1
                        if nfc != nfv or T.lift(frm).n != T.lift(o).n or T.lift(to).n != T.lift(t).n:
                            bad_calls.append(f"compute called with (nf={nfc}, {frm} -> {to}), the path has (nf={nfv}, {o} -> {t})")
                        inputs_l += [aref[0], aref[1]]
                        inputs_r += [cur[0], cur[1]]
                        new = list(out)
                else:
                    ok_spec = False
                    break
                if k < len(nfs) - 1:
                    down = sg < 0
                    light = nfv - 1 if down else nfv
                    heavy = light + 1
                    Lr = T.app("ln", ratios[heavy - 4])
                    coef = couplings.compute_matching_coeffs_down(scheme, light) if down else couplings.compute_matching_coeffs_up(scheme, light)
                    fact = T.ONE
                    for n in range(1, order[0]):
                        for l in range(n + 1):
                            fact = fact + new[0] ** n * Lr**l * coef[n, l]
                    # the matched value becomes a lemma variable: the next stage is stated over it, and the code's corresponding sub-term is abstracted once proved equal
                    Sj = T.var(f"S{len(stages)}")
                    stages.append((Sj, new[0] * fact))
                    new = [Sj, new[1]]
                cur = new
            if not ok_spec:
                chk.error(f"{pt}.spec", "could not decide an isclose() of the specification under the path condition")
                continue
            if used != len(log):
                bad_calls.append(f"{len(log)} evolution steps for {used} non-trivial segments")
            chk.ground(f"{pt}.segments", not bad_calls, fn=fn, replay=rp, goal="one evolution step per non-trivial segment of Atlas.path, with its nf and end points", detail="; ".join(bad_calls) or None)
            # nested matchings (several thresholds without evolution in between) are compared stage by stage: each proved stage is replaced by its lemma variable on both sides
            def both_sides(code_x, spec_x):
                cx = abstract_stages(code_x, stages, chk.rng)
                left = set(T.free_vars(T.lift(cx)))
                # stages the code term was not abstracted with are expanded again on the specification side
                return cx, expand_stages(spec_x, [(S_, y_) for S_, y_ in stages if T._varname(S_) not in left])

            code_as, spec_as = both_sides(res[0], cur[0])
            if inputs_l:
                pairs = [both_sides(x, y) for x, y in zip(inputs_l, inputs_r)]
                inputs_l, inputs_r = [p_[0] for p_ in pairs], [p_[1] for p_ in pairs]
            chk.eq(f"{pt}.a_s", code_as, spec_as, fn=fn, replay=rp, goal="a_s == F and matching factors composed along Atlas.path with (ratio of the heavier quark, coefficients at the lighter nf)")
            if inputs_l:
                chk.eq_block(f"{pt}.step_inputs", np.array(inputs_l, dtype=object), np.array(inputs_r, dtype=object), fn=fn, replay=rp,
                             goal="every evolution step starts from the matched couplings of the previous one: a_s times the matching factor (ratio of the heavier quark, coefficients at the lighter nf), a_em unchanged")
            chk.eq(f"{pt}.a_em", res[1], cur[1], fn=fn, replay=rp, goal="a_em transported by F only")
            chk.ground(f"{pt}.a_ref_untouched", obj.a_ref[0] is as0 and obj.a_ref[1] is aem0, fn=fn, goal="self.a_ref is not modified")
        chk.configs += 1

    def vnp_isclose(x, y):
        from pyvc import vnp
        return vnp.isclose(x, y)

    chk.parallel(tasks, worker)

    # ---- (iii) continuity at unit ratio for order <= 2 --------------------------------------------------------------------------
    for scheme in ("POLE", "MSBAR"):
        for order in ((1, 0), (2, 0)):
            for direction, light in (("up", 4), ("down", 4)):
                coef = couplings.compute_matching_coeffs_up(scheme, light) if direction == "up" else couplings.compute_matching_coeffs_down(scheme, light)
                fact = T.ONE
                x = T.var("x")
                for n in range(1, order[0]):
                    for l in range(n + 1):
                        fact = fact + x**n * (T.ZERO if l else T.ONE) * coef[n, l]       # L = ln 1 = 0
                chk.eq(f"C16.continuity[{scheme},order={order[0]},{direction}]", fact, 1, fn="eko.couplings:Couplings.a", goal="matching factor == 1 at ratio 1 for LO and NLO")
    chk.extra["exhaustive"] = chk.tier == "thorough"
