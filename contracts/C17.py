"""C17 -- coupling evaluations are independent of evaluation history.

Ghost view of self.cache: key -> value.  Class invariant Inv: every cached value equals F(key) (F = the fresh computation selected by
(method, alphaem_running) on exactly the arguments recorded in the key) and no cached array is reachable from a value returned earlier.
   compute(a_ref, nf, nl, from, to)  requires Inv  ensures Inv, result == F(key), result is a fresh object not stored in the cache,
                                     the key determines every argument handed to the underlying solver, arguments unmodified
   a(scale, nf)                      requires Inv  ensures Inv (cached values unchanged although the result is scaled in place by the
                                     matching factor), result == G(query; construction data) not mentioning the cache, self.a_ref unmodified
History independence then follows by induction over the query sequence (lemma: an invariant preserved by every public operation holds
after any sequence; with Inv a hit returns the same value a miss would compute).
"""
from fractions import Fraction as Q

import numpy as np

from pyvc import terms as T
from pyvc.replay import script

REPLAY = '''
def replay():
    from eko.couplings import Couplings
    from eko.quantities.couplings import CouplingsInfo, CouplingEvolutionMethod
    from eko.quantities.heavy_quarks import QuarkMassScheme
    rng = np.random.default_rng(12)
    out = []
    def make(order, method, running, at_threshold=False):
        if at_threshold:   # reference point exactly on the bottom matching scale: the first segment has zero length
            ref = CouplingsInfo.from_dict(dict(alphas=0.21, alphaem=0.007496, ref=(4.5, 4), em_running=running))
            return Couplings(ref, order, method, masses=[2.0, 20.25, 30000.0], hqm_scheme=QuarkMassScheme.POLE, thresholds_ratios=[1.0, 1.0, 1.0])
        ref = CouplingsInfo.from_dict(dict(alphas=0.118, alphaem=0.007496, ref=(91.0, 5), em_running=running))
        return Couplings(ref, order, method, masses=[2.0, 20.25, 30000.0], hqm_scheme=QuarkMassScheme.POLE, thresholds_ratios=[1.0, 1.2, 0.8])
    for order in ((3, 0), (4, 0)):
        sc = make(order, CouplingEvolutionMethod.EXPANDED, False, True)
        for (q, nf) in ((100.0, 5), (20.25, 5), (100.0, 5), (9.0, 4), (100.0, 5)):
            got = sc.a(q, nf); fresh = make(order, CouplingEvolutionMethod.EXPANDED, False, True).a(q, nf)
            if not np.allclose(got, fresh, rtol=1e-13, atol=0, equal_nan=True): out.append(f"reference on a threshold, order {order}: a({q},{nf}) = {got} after history vs {fresh} fresh")
    for order, method, running in (((3, 0), CouplingEvolutionMethod.EXPANDED, False), ((4, 0), CouplingEvolutionMethod.EXACT, False), ((2, 1), CouplingEvolutionMethod.EXPANDED, True), ((3, 2), CouplingEvolutionMethod.EXACT, True)):
        sc = make(order, method, running)
        queries = [(float(rng.choice([1.5, 2.0, 4.0, 20.25, 50.0, 8281.0, 1e4, 3e4, 1e5])), rng.choice([None, 3, 4, 5, 6])) for _ in range(25)]
        for (q, nf) in queries:
            nf = None if nf is None else int(nf)
            got = sc.a(q, nf)
            fresh = make(order, method, running).a(q, nf)
            if not np.allclose(got, fresh, rtol=1e-13, atol=0, equal_nan=True): out.append(f"order {order} {method.value}: a({q},{nf}) = {got} after history vs {fresh} fresh")
            got *= 7.0          # the caller mutates the returned array
            again = sc.a(q, nf)
            if not np.allclose(again, fresh, rtol=1e-13, atol=0, equal_nan=True): out.append(f"order {order} {method.value}: a({q},{nf}) changed after the caller modified the returned array")
    return bool(out), "; ".join(out[:5]) if out else "native coupling queries agree with fresh objects whatever the history"
'''


def run(chk):
    from eko import couplings, matchings
    from eko.couplings import Couplings

    rp = script(REPLAY, kind="history_oracle")
    chk.under_contract("eko.couplings:Couplings.compute", "eko.couplings:Couplings.a", "eko.couplings:Couplings.a_s", "eko.couplings:Couplings.a_em")
    chk.trust("lemma: an invariant preserved by every public operation holds after any sequence of operations",
              "Python dict semantics with structural keys (executed by CPython); float() is the identity (A1)",
              "the solver functions behind compute() are pure functions of their arguments and of construction data (method, order, alphaem_running): their dispatch is C15")
    as0, aem0, frm, to = T.var("as0"), T.var("aem0"), T.var("mu2_from"), T.var("mu2_to")
    nfv, nlv = 4, 3
    calls = []

    def solver(name):
        def f(*args):
            calls.append((name, args))
            vals = []
            for x in args:
                if isinstance(x, np.ndarray):
                    vals.extend(list(x))
                elif isinstance(x, (tuple, list)):
                    vals.extend(list(x))
                elif isinstance(x, bool):
                    vals.append(int(x))
                else:
                    vals.append(x)
            return np.array([T.app(f"{name}_s", *vals), T.app(f"{name}_em", *vals)], dtype=object)
        return f

    saved = (couplings.couplings_expanded_alphaem_running, couplings.couplings_expanded_fixed_alphaem)
    couplings.couplings_expanded_alphaem_running = solver("exp_running")
    couplings.couplings_expanded_fixed_alphaem = solver("exp_fixed")
    try:
        for method in ("expanded", "exact"):
            for running in (True, False):
                tag = f"C17.compute[{method},running={running}]"
                fn = "eko.couplings:Couplings.compute"
                obj = object.__new__(Couplings)
                obj.order, obj.method, obj.alphaem_running, obj.decoupled_running = (3, 1), method, running, False
                obj.cache = {}
                obj.compute_exact_alphaem_running = lambda *a: solver("exact_running")(*a)
                obj.compute_exact_fixed_alphaem = lambda *a: solver("exact_fixed")(*a)
                aref = np.array([as0, aem0], dtype=object)
                aref_before = aref.copy()
                calls.clear()
                r1 = obj.compute(aref, nfv, nlv, frm, to)
                chk.ground(f"{tag}.miss.one_solver_call", len(calls) == 1, fn=fn, goal="a miss calls exactly one solver", detail=str([c[0] for c in calls]))
                want = {("expanded", True): "exp_running", ("expanded", False): "exp_fixed", ("exact", True): "exact_running", ("exact", False): "exact_fixed"}[(method, running)]
                chk.ground(f"{tag}.miss.solver_selected", bool(calls) and calls[0][0] == want, fn=fn, goal=f"solver selected by (method, alphaem_running) = {want}", detail=str([c[0] for c in calls]), replay=rp)
                chk.ground(f"{tag}.miss.cached", len(obj.cache) == 1, fn=fn, goal="the miss stores exactly one entry")
                key, stored = next(iter(obj.cache.items()))
                stored_before = tuple(stored)
                chk.ground(f"{tag}.miss.result_not_aliased_with_cache", not _aliased(stored, r1), fn=fn, goal="returned array is not the cached object", replay=rp)
                chk.eq_array(f"{tag}.miss.cached_value_equals_result", _vals(stored), r1, fn=fn, goal="cache[key] == F(key)")
                # the key determines every argument handed to the solver
                keyset = {T.lift(k).n for k in key if isinstance(k, (T.Sym, int, Q))}
                need = {"a_ref[0]": as0, "a_ref[1]": aem0, "nf": nfv, "scale_from": frm, "scale_to": to}
                if want != "exp_fixed" and want != "exact_fixed":
                    need["nl"] = nlv
                for nm, v in need.items():
                    chk.ground(f"{tag}.key_contains.{nm}", T.lift(v).n in keyset, fn=fn, goal="every argument that reaches the solver is a component of the cache key", detail=repr(key), replay=rp)
                chk.ground(f"{tag}.arguments_unmodified", all(T.lift(x).n == T.lift(y).n for x, y in zip(aref, aref_before)), fn=fn, goal="a_ref argument unmodified")
                # caller mutates the result; a hit must still return F(key) as a fresh object
                r1[0] = r1[0] * 7
                calls.clear()
                r2 = obj.compute(np.array([as0, aem0], dtype=object), nfv, nlv, frm, to)
                chk.ground(f"{tag}.hit.no_solver_call", len(calls) == 0, fn=fn, goal="a hit does not recompute")
                chk.ground(f"{tag}.hit.fresh_object", not _aliased(r2, stored) and r2 is not r1, fn=fn, goal="a hit returns a copy", replay=rp)
                chk.eq_array(f"{tag}.hit.value", r2, _vals(stored), fn=fn, goal="hit value == cached value == F(key) although the earlier result was modified by the caller", replay=rp)
                r2[1] = r2[1] + 1
                chk.ground(f"{tag}.hit.cache_unchanged_after_caller_write", all(T.lift(x).n == T.lift(y).n for x, y in zip(obj.cache[key], stored_before)) and len(obj.cache[key]) == len(stored_before), fn=fn, goal="cache unaffected by writes to returned arrays", replay=rp)
                # a different query differs in the key
                for nm, args in (("scale_to", (aref, nfv, nlv, frm, T.var("other_to"))), ("scale_from", (aref, nfv, nlv, T.var("other_from"), to)), ("nf", (aref, 5, nlv, frm, to)),
                                 ("a_ref", (np.array([T.var("as1"), aem0], dtype=object), nfv, nlv, frm, to))):
                    before = len(obj.cache)
                    obj.compute(*args)
                    chk.ground(f"{tag}.distinct_key.{nm}", len(obj.cache) == before + 1, fn=fn, goal=f"a query differing in {nm} gets its own cache entry", replay=rp)
    finally:
        couplings.couplings_expanded_alphaem_running, couplings.couplings_expanded_fixed_alphaem = saved

    # ---- a(): cache values unchanged by the in-place matching factor, a_ref unmodified, result independent of the cache content -------
    c_, b_, t_, mu0, muf = (T.var(x) for x in ("mc", "mb", "mt", "mu0", "muf"))
    MT2 = Q(1777, 1000) ** 2
    req = [mu0 > MT2, muf > MT2, c_ > MT2, c_ <= b_, b_ <= t_]
    for nf_ref, nf_to in ((3, 5), (5, 3), (4, 4), (4, 6), (6, 4)):
        for warm in (False, True):
            tag = f"C17.a[{nf_ref}->{nf_to},warm_cache={warm}]"
            fn = "eko.couplings:Couplings.a"
            obj = object.__new__(Couplings)
            obj.order, obj.method, obj.alphaem_running, obj.decoupled_running = (3, 0), "expanded", False, False
            obj.a_ref = np.array([as0, aem0], dtype=object)
            obj.thresholds_ratios = [T.var("kc"), T.var("kb"), T.var("kt")]
            obj.atlas = matchings.Atlas([c_, b_, t_], (mu0, nf_ref))
            obj.hqm_scheme = "POLE"
            obj.cache = {}
            saved = couplings.couplings_expanded_fixed_alphaem
            couplings.couplings_expanded_fixed_alphaem = solver("F")
            try:
                results = []
                for rnd in range(2 if warm else 1):
                    paths = chk.run_paths(f"{tag}.round{rnd}", lambda: obj.a(muf, nf_to), req + [r > 0 for r in obj.thresholds_ratios], fn=fn, replay=rp)
                    snap = {k: tuple(v) for k, v in obj.cache.items()}
                    results.append((paths, snap))
                paths, snap = results[-1]
                for pt, pc, res in paths[:1]:
                    # every cached value still equals the solver result for its key (not scaled by the matching factor)
                    okc = True
                    for k, v in obj.cache.items():
                        if len(k) != 6:
                            okc = False
                            break
                        exp = solver("F")(obj.order, np.array([k[0], k[1]], dtype=object), k[2], k[4], k[5])
                        okc = okc and all(T.lift(x).n == T.lift(y).n for x, y in zip(v, exp))
                    chk.ground(f"{pt}.cache_values_are_F_of_key", bool(okc), fn=fn, goal="Inv: cached values equal F(key) after a() (the in-place matching factor did not reach the cache)", replay=rp)
                    chk.ground(f"{pt}.a_ref_unmodified", T.lift(obj.a_ref[0]).n == as0.n and T.lift(obj.a_ref[1]).n == aem0.n, fn=fn, goal="self.a_ref unmodified", replay=rp)
                    chk.ground(f"{pt}.result_fresh", all(not _aliased(res, v) for v in obj.cache.values()) and res is not obj.a_ref, fn=fn, goal="result not aliased with cache or a_ref", replay=rp)
                if warm and results[0][0] and results[1][0]:
                    first = {tuple(T.lift(b).n for b in pc): res for _, pc, res in results[0][0]}
                    for pt, pc, res in results[1][0]:
                        ref = first.get(tuple(T.lift(b).n for b in pc))
                        if ref is not None:
                            chk.eq_array(f"{pt}.same_as_cold", res, ref, fn=fn, goal="warm-cache result == cold-cache result on the same path", replay=rp)
            finally:
                couplings.couplings_expanded_fixed_alphaem = saved


def _vals(v):
    """the cached pair as an array, whatever container the cache uses for it (the ghost view of the cache is key -> (a_s, a_em))"""
    return np.array(list(v), dtype=object)


def _aliased(a, b):
    return a is b or (isinstance(a, np.ndarray) and isinstance(b, np.ndarray) and np.shares_memory(a, b))


def _flat(x):
    return x


def calls_args(*a):
    return []
