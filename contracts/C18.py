"""C18 -- MSbar heavy-quark masses are computable fixed points m(m) = m.

proof part
  (a) msbar_masses.ker_expanded solves the mass RGE to the working order, for generic beta and gamma_m coefficients (hence every nf) and orders 1-4:
          ker(a0, a0) == 1    and    [a1^j] ( d/da1 ln ker(a0, a1) * a1 * sum_{k<n} beta_k a1^k  -  sum_{k<n} gamma_k a1^k ) == 0   for j < n
      i.e. d ln m / da = gamma_m(a) / (a beta(a)) up to the terms the order drops -- the integrand msbar_masses.ker_exact integrates numerically.
      ker_dispatcher hands the couplings at xif2 * scale in the requested flavour patch to the kernel selected by the coupling method.
bounded part (bounded/C18_native.py, deal run-time contracts over a seeded stated input set; never counted as proved)
  (b) compute() returns sorted masses that are fixed points m(m) = m inside the patch adjoining the quark's threshold on the side of the coupling reference
      (48 draws: reference nf 3-6 x orders 1-4 x exact / expanded, random masses, reference scales, matching ratios, xif), and refuses inconsistent inputs
      with ValueError (12 variants).  One defect repaired by a fix commit: under NumPy >= 2 no mass that needs solving could be computed (TypeError).
observation (not a claim): solve() ignores the convergence flag of scipy.optimize.fsolve -- outside the perturbative range (e.g. alpha_s = 0.118 imposed at 400 GeV with
nf = 6, N3LO exact, charm) it returns a value that is not a fixed point without any error; the bounded inputs use real-world alpha_s(Qref).
  (c) decoupling of the running mass across a matching scale: with m^(nf+1) = m^(nf) zeta(L, a'), a' the decoupled coupling (C16) and L = ln(mu^2/m_h(mu)^2), the RG residual
      d ln m^(nf+1)/dt + gamma_m^(nf+1)(a') vanishes through O(a^3) identically in nf and L (the L^0 term at a^3 to the printed digits of the decimal coefficients).
  (d) evolve(): executed on ghost couplings (walls = masses x own ratios, a_s and ker_dispatcher opaque) for orders 2-4, upward and downward paths across one, two and three
      thresholds, in the three calling conventions that occur (ratios only in evolve as in the tests; unit ratios; Couplings built with matching x xif2 as compute() does):
      the mass path changes patch at m_h^2 x ratio -- the scale at which the decoupling logarithm L = ln(ratio) is written (one defect repaired by a fix commit: the ratios of
      the coupling were applied twice) -- and m^2(q2_to) = m2_ref prod ker^2 prod zeta(L, a'(xif2 mu^2))^2.  Known finding F29: the code multiplies m^2 by zeta, not zeta^2.
      The bounded part repeats the crossings with an independent bookkeeping of the mass path (bounded/C18_native.py: own_evolve).
not covered: the L-independent decoupling constants themselves (literature values); convergence of scipy.optimize.fsolve
(the returned value is checked to be a fixed point on the sampled inputs only).
"""
from fractions import Fraction as Q

import numpy as np

from pyvc import terms as T
from pyvc.replay import script
from contracts.common import coeffs_in

REPLAY = '''
def replay():
    from eko import msbar_masses, beta, gamma
    from scipy import integrate
    out = []
    def err(nf, order, a0, a1):
        b = [beta.beta_qcd((2 + k, 0), nf) for k in range(order)]
        g = [gamma.gamma(k + 1, nf) for k in range(order)]
        # reference: the RGE with the coefficients kept at this order, integrated numerically
        val, _ = integrate.quad(lambda a: sum(g[k] * a**k for k in range(order)) / (a * sum(b[k] * a**k for k in range(order))), a0, a1, epsabs=1e-15, epsrel=1e-13)
        return abs(msbar_masses.ker_expanded(a0, a1, (order, 0), nf) / np.exp(val) - 1)
    for nf in (3, 4, 5, 6):
        for order in (1, 2, 3, 4):
            for a0, a1 in ((0.004, 0.002), (0.002, 0.004)):
                # the expanded kernel solves the RGE up to the dropped order: the difference is O(a^order), i.e. shrinks by 2^order when both couplings are halved
                e1, e2 = err(nf, order, a0, a1), err(nf, order, a0 / 2, a1 / 2)
                if e2 > e1 / 2 ** (order - 0.5) + 1e-11 or e1 > 5 * (20 * max(a0, a1)) ** order:
                    out.append(f"nf={nf} order={order} a0={a0} a1={a1}: ker_expanded differs from the RGE solution by {e1:.2e}, and by {e2:.2e} at half the couplings (must fall by 2^{order})")
            if abs(msbar_masses.ker_expanded(0.02, 0.02, (order, 0), nf) - 1) > 1e-14: out.append(f"nf={nf} order={order}: ker(a, a) != 1")
    return bool(out), "; ".join(out[:4]) if out else "ker_expanded agrees with the numerically integrated mass RGE to the working order"
'''

REPLAY_EVOLVE = '''
def replay():
    # independent bookkeeping of the mass path: thresholds at m_h^2 x ratio, decoupling factor of the mass squared; kernels and coefficients are the real ones
    import warnings
    from eko import msbar_masses
    from eko.couplings import Couplings
    from eko.quantities.couplings import CouplingEvolutionMethod, CouplingsInfo
    from eko.quantities.heavy_quarks import HeavyQuarkMasses, QuarkMassRef, QuarkMassScheme
    warnings.simplefilter("ignore")
    def own(m2, q2, sc, masses, ratios, xif2, q2_to, nf, nf_to):
        T_ = np.array(masses) * np.array(ratios)
        up = nf_to > nf
        while nf != nf_to:
            k = nf - 3 if up else nf - 4
            wall = T_[k]
            m2 *= msbar_masses.ker_dispatcher(wall, q2, sc, xif2, nf) ** 2
            c = msbar_masses.compute_matching_coeffs_up(nf) if up else msbar_masses.compute_matching_coeffs_down(nf - 1)
            a = sc.a(wall * xif2, nf + 1 if up else nf)[0]
            L = np.log(ratios[k])
            m2 *= (1.0 + sum(a**p * L**l * c[p, l] for p in range(1, sc.order[0]) for l in range(p + 1))) ** 2
            q2, nf = wall, nf + (1 if up else -1)
        return m2 * msbar_masses.ker_dispatcher(q2_to, q2, sc, xif2, nf) ** 2
    out = []
    for order in ((2, 0), (3, 0), (4, 0)):
        for ratios, xif in (([1.0, 1.0, 1.0], 1.0), ([1.0, 1.5, 1.0], 1.0), ([1.0, 1.0, 1.0], 1.5)):
            # coupling given with nf = 4 at 3 GeV; the top mass is given at 3 GeV, below the bottom threshold: its running crosses that threshold
            ci = CouplingsInfo.from_dict(dict(alphas=0.25, alphaem=0.007496, ref=(3.0, 4), em_running=False))
            vals, scales = [1.5, 4.5, 170.0], [2.0, 4.0, 3.0]
            mref = HeavyQuarkMasses([QuarkMassRef([v, s]) for v, s in zip(vals, scales)])
            res = msbar_masses.compute(mref, ci, order, CouplingEvolutionMethod.EXACT, ratios, xif2=xif**2)
            sc = Couplings(ci, order=order, method=CouplingEvolutionMethod.EXACT, masses=res.tolist(), thresholds_ratios=(np.array(ratios) * xif**2).tolist(), hqm_scheme=QuarkMassScheme.MSBAR)
            back = own(vals[2] ** 2, scales[2] ** 2, sc, res, ratios, xif**2, res[2], 4, 5)
            if abs(back / res[2] - 1) > 1e-6:
                out.append(f"order {order} ratios {ratios} xif {xif}: computed m_t^2 = {res[2]:.8g}, but the running mass evolved from its reference (3 GeV, nf=4) to that scale is {back:.8g} (relative {back/res[2]-1:+.2e})")
    return bool(out), "; ".join(out[:3]) if out else "compute() agrees with an independent bookkeeping of the mass path"
'''


def chk_equal(a, b):
    from pyvc import poly as P
    try:
        ok, _ = P.prove_zero(T.lift(a) - T.lift(b), P.NFContext())
        return bool(ok)
    except Exception:  # noqa: BLE001
        return False


REPLAY_ENTRY = '''
def replay():
    """native: runcards.masses on a real theory card (MSbar scheme, xif = 1.7) must hand compute() the card's own settings"""
    from eko.io import runcards as rcm
    from eko.io.types import EvolutionMethod
    from eko.couplings import couplings_mod_ev
    from eko.quantities.heavy_quarks import QuarkMassScheme
    from ekobox import cards
    th = cards.example.theory()
    th.order, th.xif = (3, 0), 1.7
    th.heavy.masses_scheme = QuarkMassScheme.MSBAR
    th.heavy.matching_ratios.c, th.heavy.matching_ratios.b, th.heavy.matching_ratios.t = 0.7, 1.3, 1.9
    rec = {}
    def recorder(masses_ref, couplings, order, evmeth, matching, xif2=1.0):
        rec.update(masses_ref=masses_ref, couplings=couplings, order=tuple(order), evmeth=evmeth, matching=list(matching), xif2=xif2)
        return np.array([2.0, 20.0, 30000.0])
    saved = rcm.msbar_masses.compute
    rcm.msbar_masses.compute = recorder
    try:
        rcm.masses(th, EvolutionMethod.TRUNCATED)
    finally:
        rcm.msbar_masses.compute = saved
    out = []
    if abs(rec.get("xif2", 0) - 1.7 ** 2) > 1e-12: out.append(f"compute() received xif2 = {rec.get('xif2')} for a card with xif = 1.7")
    if [round(m, 12) for m in rec.get("matching", [])] != [round(k * k, 12) for k in (0.7, 1.3, 1.9)]: out.append(f"matching ratios handed over: {rec.get('matching')}")
    if rec.get("masses_ref") is not th.heavy.masses or rec.get("couplings") is not th.couplings or rec.get("order") != (3, 0) or rec.get("evmeth") != couplings_mod_ev(EvolutionMethod.TRUNCATED):
        out.append("reference masses / couplings / order / method are not the card's")
    return bool(out), "; ".join(out) if out else "runcards.masses hands compute() the settings of the card"
'''


def run(chk):
    from eko import msbar_masses as mm
    from pyvc import bounded

    rp = script(REPLAY, kind="mass_rge_oracle")
    rp_ev = script(REPLAY_EVOLVE, kind="mass_path_oracle")
    chk.under_contract("eko.msbar_masses:compute_matching_coeffs_up", "eko.msbar_masses:ker_expanded", "eko.msbar_masses:ker_dispatcher", "eko.msbar_masses:compute", "eko.msbar_masses:solve", "eko.msbar_masses:evolve")
    chk.trust("C20: beta and gamma_m coefficient functions equal the literature values (generic symbols here)", "BOUNDED part (b): deal run-time contracts over the stated finite input set only")
    chk.uncovered("the L-independent decoupling constants of the running mass (literature values c[2,0], c[3,0])",
                  "convergence of scipy.optimize.fsolve / integrate.quad (numerical libraries)")
    chk.bounded_parts.append("(b) fixed points m(m) = m, sortedness and refusal of inconsistent inputs: deal run-time contracts on msbar_masses.compute over 48 + 12 seeded inputs (bounded/C18_native.py)")

    # ---- (a) ker_expanded solves the mass RGE to the working order --------------------------------------------------------------------------------
    b = [T.var(f"beta{k}") for k in range(4)]
    g = [T.var(f"gamma{k}") for k in range(4)]
    saved = (mm.beta_qcd, mm.b_qcd, mm.gamma)
    mm.beta_qcd = lambda k, nf: b[k[0] - 2]
    mm.b_qcd = lambda k, nf: b[k[0] - 2] / b[0]
    mm.gamma = lambda k, nf: g[k - 1]
    a0, a1 = T.var("a0"), T.var("a1")
    RG = {"a0": (0.01, 0.04), "a1": (0.01, 0.04), "*": (0.5, 2.0)}
    try:
        Pw = T.var("leading_power")
        rec = {}
        saved_pow = mm.np.power
        mm.np.power = lambda base, e: (rec.__setitem__("args", (base, e)), Pw)[1]
        try:
            for n in (1, 2, 3, 4):
                rec.clear()
                ker = mm.ker_expanded(a0, a1, (n, 0), 4)
                c0 = g[0] / b[0]
                base, e = rec.get("args", (None, None))
                chk.ground(f"C18.ker_expanded[order={n}].leading_power_called", base is not None, fn="eko.msbar_masses:ker_expanded", goal="the leading behaviour is np.power(a1/a0, c0)", replay=rp)
                if base is None:
                    continue
                chk.eq(f"C18.ker_expanded[order={n}].leading_power_base", base, a1 / a0, fn="eko.msbar_masses:ker_expanded", goal="base of the leading power == a1/a0", replay=rp, assumptions=[a0 > 0, a1 > 0], ranges=RG)
                chk.eq(f"C18.ker_expanded[order={n}].leading_power_exponent", e, c0, fn="eko.msbar_masses:ker_expanded", goal="exponent of the leading power == gamma_0/beta_0", replay=rp, ranges=RG)
                q = T.lift(ker) / Pw                     # the rational factor num(a1)/den(a0)
                chk.eq(f"C18.ker_expanded[order={n}].unit_at_equal_couplings", T.subst(q, {"a1": a0}), 1, fn="eko.msbar_masses:ker_expanded", goal="ker(a0, a0) == 1 (leading power 1^c0 = 1, rational factor 1)", replay=rp, assumptions=[a0 > 0], ranges=RG)
                B = sum(b[k] * a1 ** k for k in range(n))
                Gm = sum(g[k] * a1 ** k for k in range(n))
                # d ln ker/da1 = c0/a1 + q'/q ;  residual of the RGE times a1 B(a1):  c0 B + a1 B q'/q - Gm   (regular at a1 = 0)
                resid = c0 * B + a1 * B * T.diff(q, "a1") / q - Gm
                for j, c in enumerate(coeffs_in(resid, "a1", n)):
                    chk.eq(f"C18.ker_expanded[order={n}].rge.a1^{j}", c, 0, fn="eko.msbar_masses:ker_expanded", replay=rp, assumptions=[a0 > 0], ranges=RG,
                           goal=f"[a1^{j}] (d ln ker/da1 * a1 beta(a1) - gamma_m(a1)) == 0  (j < n = {n})")
        finally:
            mm.np.power = saved_pow
        # ker_dispatcher: couplings at xif2 * scale in the requested patch, kernel by the coupling method
        calls = []

        class SC:
            def __init__(self, method):
                self.method, self.order = method, (3, 0)

            def a(self, scale, nf=None):      # signature of Couplings.a: without nf the patch is inferred from the scale
                calls.append((scale, nf))
                return (T.app("a_s", T.lift(scale), T.lift(nf) if nf is not None else T.app("patch_inferred_from_scale")), Q(0))

        q2to, q2ref, xif2 = T.var("q2_to"), T.var("q2m_ref"), T.var("xif2")
        seen = {}
        sk = (mm.ker_expanded, mm.ker_exact)
        mm.ker_expanded = lambda a0_, a1_, order, nf: (seen.__setitem__("expanded", (a0_, a1_, order, nf)), T.var("K"))[1]
        mm.ker_exact = lambda a0_, a1_, order, nf: (seen.__setitem__("exact", (a0_, a1_, order, nf)), T.var("K"))[1]
        mm.float = lambda x: x
        try:
            for method in ("expanded", "exact"):
                seen.clear()
                calls.clear()
                mm.ker_dispatcher(q2to, q2ref, SC(method), xif2, 5)
                got = seen.get(method)
                ok = got is not None and len(seen) == 1 and got[2] == (3, 0) and got[3] == 5
                chk.ground(f"C18.ker_dispatcher[{method}].kernel_selected", bool(ok), fn="eko.msbar_masses:ker_dispatcher", goal="the kernel of the coupling method is called with the order and the patch", detail=str(seen), replay=rp)
                if ok:
                    chk.eq(f"C18.ker_dispatcher[{method}].initial_coupling", got[0], T.app("a_s", T.lift(q2ref * xif2), T.lift(5)), fn="eko.msbar_masses:ker_dispatcher", goal="a0 == a_s(xif2 * q2m_ref, nf)", replay=rp)
                    chk.eq(f"C18.ker_dispatcher[{method}].final_coupling", got[1], T.app("a_s", T.lift(q2to * xif2), T.lift(5)), fn="eko.msbar_masses:ker_dispatcher", goal="a1 == a_s(xif2 * q2_to, nf)", replay=rp)
        finally:
            mm.ker_expanded, mm.ker_exact = sk
            del mm.float
    finally:
        mm.beta_qcd, mm.b_qcd, mm.gamma = saved
    # ---- (c) decoupling of the running mass across a matching scale: the logarithms are those required by RG invariance ------------------------------
    from pyvc.series import Series
    from eko import beta as beta_mod, gamma as gamma_mod, couplings as cpl
    from contracts.common import coeffs_in as _coeffs
    nf, Lg = T.var("nf"), T.var("L")
    cm = mm.compute_matching_coeffs_up(nf)
    cc = cpl.compute_matching_coeffs_up("MSBAR", nf)
    a = Series.indet("a", 6)
    bfun = lambda x, nfv: sum((beta_mod.beta_qcd((k + 2, 0), nfv) * x ** (k + 2) for k in range(3)), 0)
    gfun = lambda x, nfv: sum((gamma_mod.gamma(k + 1, nfv) * x ** (k + 1) for k in range(3)), 0)
    F = 1
    for n in range(1, 4):
        for l in range(n + 1):
            F = F + (a ** n) * (Lg ** l * cc[n, l])
    ap = a * F                                         # coupling of the nf+1 scheme in terms of the nf one (C16)
    zeta = 1
    for n in range(1, 4):
        for l in range(n + 1):
            zeta = zeta + (ap ** n) * (Lg ** l * cm[n, l])
    lnz = zeta.log()                                   # m^(nf+1) = m^(nf) * zeta
    dLdt = 1 + 2 * gfun(ap, nf + 1)                    # L = ln(mu^2 / m_h(mu)^2) with the running heavy-quark mass (same convention as the coupling decoupling, C16)
    dlnz_dL = Series("a", lnz.val, [T.diff(T.lift(c_), "L") for c_ in lnz.c])
    resid = -gfun(a, nf) + lnz.deriv() * (-bfun(a, nf)) + dlnz_dL * dLdt + gfun(ap, nf + 1)
    fnm = "eko.msbar_masses:compute_matching_coeffs_up"
    for k in (1, 2):
        chk.eq(f"C18.mass_decoupling.rg.a^{k}", resid.coeff(k), 0, fn=fnm, replay=rp, ranges={"nf": (3, 5), "L": (-1.0, 1.0)}, goal=f"[a^{k}] ( d ln m^(nf+1)/dt + gamma_m^(nf+1)(a') ) == 0 for every nf and L")
    c3 = _coeffs(T.lift(resid.coeff(3)), "L", 4)
    for l in (1, 2, 3):
        chk.eq(f"C18.mass_decoupling.rg.a^3.L^{l}", c3[l], 0, fn=fnm, replay=rp, ranges={"nf": (3, 5)}, goal=f"[a^3 L^{l}] of the RG residual == 0 for every nf (coefficients given as exact fractions)")
    for nfv in (3, 4, 5):
        val = abs(complex(T.evalmp(T.subst(T.lift(c3[0]), {"nf": nfv}), {}, 30)))
        chk.ground(f"C18.mass_decoupling.rg.a^3.L^0[nf={nfv}]", val <= 3e-4, fn=fnm, replay=rp, backend="exact-eval+mpmath",
                   goal="[a^3 L^0] of the RG residual vanishes to the printed digits of the decimal coefficients c[3,1] = 71.7887 + 7.85185 nf", detail=f"residual {val:.3e}")
    chk.eq_array("C18.mass_decoupling.unused_coefficients", np.array([cm[n, l] for n in range(4) for l in range(4) if l > n or n < 2], dtype=object), np.array([Q(0)] * len([1 for n in range(4) for l in range(4) if l > n or n < 2]), dtype=object),
                 fn=fnm, goal="no coefficient below O(a_s^2) or with more logs than the order", replay=rp)

    # ---- (d) evolve(): where the mass path changes patch, and the factor applied there ----------------------------------------------------------------
    # requires: the coupling object carries walls = heavy masses x its own thresholds ratios (Couplings.__init__); evolve() receives the matching ratios of the mass.
    # ensures:  the mass path changes patch at  m_h^2 x ratio  (the scale where L = ln(ratio) = ln(mu^2 / m_h^2), i.e. where the decoupling relation (c) is written), and
    #           m^2(q2_to) = m2_ref x prod_segments ker^2 x prod_crossings zeta(L, a'(mu^2 xif2))^2       (zeta is the factor of the MASS, here its square is evolved)
    fne = "eko.msbar_masses:evolve"
    kcalls = []

    class SCd:
        def __init__(self, masses2, own_ratios, order):
            self.thresholds_ratios = list(own_ratios)
            self.atlas = type("GhostAtlas", (), {})()
            self.atlas.walls = [0] + [m * r for m, r in zip(masses2, own_ratios)] + [mm.np.inf]
            self.order = order

        def a(self, scale, nf=None):
            return (T.app("a_s", T.lift(scale), T.lift(nf) if nf is not None else T.app("patch_inferred_from_scale")), Q(0))

    skd = mm.ker_dispatcher
    mm.ker_dispatcher = lambda q2_to, q2_from, sc_, xif2_, nf_: (kcalls.append((q2_to, q2_from, nf_)), T.app("K", T.lift(q2_to), T.lift(q2_from), T.lift(nf_)))[1]
    masses2 = [Q(9, 4), Q(20), Q(30000)]
    CONFIGS = [
        ("ratios_in_evolve_only", (Q(1), Q(1), Q(1)), (Q(2), Q(3, 2), Q(1, 2)), Q(1), (Q(9), 4), (Q(10**6), 6)),
        ("ratios_in_evolve_only", (Q(1), Q(1), Q(1)), (Q(2), Q(3, 2), Q(1, 2)), Q(1), (Q(10**6), 6), (Q(9), 4)),
        ("unit_ratios", (Q(1), Q(1), Q(1)), (Q(1), Q(1), Q(1)), Q(1), (Q(9), 4), (Q(1000), 5)),
        # the reference scale lies beyond the displaced matching scale of its own patch: the first segment runs DOWN in scale although the flavour number goes UP (and vice versa)
        ("first_segment_against_the_flavour_direction", (Q(1), Q(1), Q(1)), (Q(2), Q(3, 2), Q(1, 2)), Q(1), (Q(40), 4), (Q(1000), 5)),
        ("first_segment_against_the_flavour_direction", (Q(1), Q(1), Q(1)), (Q(2), Q(3, 2), Q(1, 2)), Q(1), (Q(25), 5), (Q(9), 4)),
        ("as_called_by_compute", (Q(9, 4), Q(27, 8), Q(9, 2)), (Q(1), Q(3, 2), Q(2)), Q(9, 4), (Q(9), 4), (Q(10**6), 6)),        # Couplings ratios = matching x xif2
        ("as_called_by_compute", (Q(9, 4), Q(27, 8), Q(9, 2)), (Q(1), Q(3, 2), Q(2)), Q(9, 4), (Q(10**6), 6), (Q(3), 3)),
        ("as_called_by_compute", (Q(3, 2), Q(3, 2), Q(3, 2)), (Q(1), Q(1), Q(1)), Q(3, 2), (Q(9), 4), (Q(1000), 5)),                # xif2 != 1 alone
    ]
    m2r = T.var("m2_ref")
    try:
        for order in ((2, 0), (3, 0), (4, 0)):
            for lab, own, tr, xif2v, (q0, nf0), (q1, nf1) in CONFIGS:
                tag = f"C18.evolve[{lab},order={order[0]},nf={nf0}->{nf1},xif2={xif2v}]"
                kcalls.clear()
                try:
                    got = mm.evolve(m2r, q0, SCd(masses2, own, order), list(tr), xif2v, q1, nf_ref=nf0, nf_to=nf1)
                except Exception as e:  # noqa: BLE001
                    chk.raised(f"{tag}.no_exception", e, fn=fne, replay=rp_ev)
                    continue
                up = nf1 > nf0
                Tk = [m * r for m, r in zip(masses2, tr)]                       # spec: the mass changes patch at m_h^2 x ratio
                segs, q, nf = [], q0, nf0
                while nf != nf1:
                    wall = Tk[nf - 3] if up else Tk[nf - 4]
                    segs.append((wall, q, nf))
                    q, nf = wall, nf + (1 if up else -1)
                segs.append((q1, q, nf))
                rec = [(T.lift(a_), T.lift(b_), int(n_)) for a_, b_, n_ in kcalls]
                want = [(T.lift(a_), T.lift(b_), n_) for a_, b_, n_ in segs if a_ != b_]
                same = len(rec) == len(want) and all(x[0].n == y[0].n and x[1].n == y[1].n and x[2] == y[2] for x, y in zip(rec, want))
                chk.ground(f"{tag}.patch_changes_at_mass_times_ratio", same, fn=fne, replay=rp_ev, backend="symbolic-execution",
                           goal="segments of the mass path: (q2m_ref -> m_h^2 ratio -> ... -> q2_to), each in its own patch",
                           detail=f"kernel calls (to, from, nf) {[(str(a_), str(b_), n_) for a_, b_, n_ in kcalls]} but the decoupling relation is written at {[(str(a_), str(b_), n_) for a_, b_, n_ in segs]}")
                # factor structure over the segments the code actually used
                for power, what in ((2, "decoupling_factor_of_the_mass_squared"),):
                    exp_ = m2r
                    for a_, b_, n_ in kcalls:
                        exp_ = exp_ * T.app("K", T.lift(a_), T.lift(b_), T.lift(n_)) ** 2
                    crossings = kcalls[:-1] if len(kcalls) == len(segs) else kcalls[: abs(nf1 - nf0)]
                    zs = []
                    for (a_, b_, n_) in crossings:
                        k = n_ - 3 if up else n_ - 4
                        Lk = mm.np.log(tr[k])
                        cm_ = mm.compute_matching_coeffs_up(n_) if up else mm.compute_matching_coeffs_down(n_ - 1)
                        ak = T.app("a_s", T.lift(a_ * xif2v), T.lift(n_ + 1 if up else n_))
                        z = 1
                        for pto in range(1, order[0]):
                            for lp in range(pto + 1):
                                z = z + ak ** pto * Lk ** lp * cm_[pto, lp]
                        zs.append(z)
                    sq, lin = exp_, exp_
                    for z in zs:
                        sq, lin = sq * z * z, lin * z
                    if not zs or order[0] < 3:
                        chk.eq(f"{tag}.{what}", got, sq, fn=fne, replay=rp_ev, goal="m^2(q2_to) == m2_ref prod ker^2 prod zeta^2")
                    else:
                        chk.eq(f"{tag}.{what}", got, sq, fn=fne, replay=rp_ev, goal="m^2(q2_to) == m2_ref prod ker^2 prod zeta^2 (zeta: decoupling factor of the mass)")
                        ok_lin = chk_equal(got, lin) or chk_equal(got, sq)
                        chk.ground(f"{tag}.{what}_or_the_recorded_linear_factor", ok_lin, fn=fne, replay=rp_ev, backend="poly-NF",
                                   goal="pins known finding F29: the only admitted deviation is zeta instead of zeta^2")
    finally:
        mm.ker_dispatcher = skd

    # ---- (e) the entry point the runner uses: runcards.masses hands compute() the card's own settings -------------------------------------------------
    # "with the same coupling, order and matching ratios" (and scale ratio xif): the masses the runner works with are those of compute() for the theory card's
    # reference masses, coupling reference, order, coupling evolution method, SQUARED matching ratios and xif^2 -- every argument is compared, compute() itself is
    # replaced by a recorder.  POLE scheme: the squared masses of the card.
    from eko.io import runcards as rcm
    from eko.couplings import couplings_mod_ev
    from eko.io.types import EvolutionMethod
    from eko.quantities.heavy_quarks import QuarkMassScheme
    fne = "eko.io.runcards:masses"
    chk.under_contract(fne)
    rp_main, rp = rp, script(REPLAY_ENTRY, kind="entry_point_oracle")

    class _Box:
        pass

    for evm in (EvolutionMethod.ITERATE_EXACT, EvolutionMethod.TRUNCATED, EvolutionMethod.ITERATE_EXPANDED):
        for xif in (1.0, 1.7, 0.6):
            th = _Box()
            th.heavy, th.couplings, th.order, th.xif = _Box(), _Box(), (3, 0), xif
            th.heavy.masses_scheme, th.heavy.masses, th.heavy.matching_ratios = QuarkMassScheme.MSBAR, [_Box(), _Box(), _Box()], [0.7, 1.3, 1.9]
            rec = {}

            def recorder(masses_ref, couplings, order, evmeth, matching, xif2=1.0, rec=rec):
                rec.update(masses_ref=masses_ref, couplings=couplings, order=order, evmeth=evmeth, matching=list(matching), xif2=xif2)
                return np.array([2.0, 20.0, 30000.0])

            saved_c = rcm.msbar_masses.compute
            rcm.msbar_masses.compute = recorder
            try:
                out = rcm.masses(th, evm)
            finally:
                rcm.msbar_masses.compute = saved_c
            close = lambda a, b: abs(float(a) - float(b)) <= 1e-14 * abs(float(b))  # noqa: E731
            tage = f"C18.entry_point[{evm.value},xif={xif}]"
            chk.ground(f"{tage}.card_settings_handed_to_compute", bool(rec) and rec["masses_ref"] is th.heavy.masses and rec["couplings"] is th.couplings and tuple(rec["order"]) == (3, 0)
                       and rec["evmeth"] == couplings_mod_ev(evm) and len(rec["matching"]) == 3 and all(close(m, k * k) for m, k in zip(rec["matching"], th.heavy.matching_ratios)),
                       fn=fne, replay=rp, goal="compute() receives the card's reference masses, coupling reference, order, coupling evolution method and the squared matching ratios", detail=str({k: v for k, v in rec.items() if k in ("order", "evmeth", "matching")}))
            chk.ground(f"{tage}.scale_ratio_handed_to_compute", bool(rec) and close(rec["xif2"], xif * xif), fn=fne, replay=rp, goal="compute() receives xif^2 of the card", detail=f"xif2 = {rec.get('xif2')}")
            chk.ground(f"{tage}.result_returned", [float(v) for v in out] == [2.0, 20.0, 30000.0], fn=fne, replay=rp, goal="the squared masses computed are returned unchanged")
    thp = _Box()
    thp.heavy = _Box()
    thp.heavy.masses_scheme = QuarkMassScheme.POLE
    thp.heavy.masses = [_Box(), _Box(), _Box()]
    for q_, v_ in zip(thp.heavy.masses, (1.51, 4.92, 172.5)):
        q_.value = v_
    chk.ground("C18.entry_point[pole].squared_card_masses", [float(v) for v in rcm.masses(thp, EvolutionMethod.TRUNCATED)] == [1.51 ** 2, 4.92 ** 2, 172.5 ** 2], fn=fne, replay=rp, goal="pole scheme: the squared masses of the card")

    rp = rp_main
    # ---- (b) bounded ----------------------------------------------------------------------------------------------------------------------------------
    n = bounded.run_native(chk, "C18_native.py", backend="deal-runtime(bounded)")
    chk.extra["bounded_contract_evaluations"] = n
    chk.extra["exhaustive"] = False
