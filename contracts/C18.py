"""C18 -- MSbar heavy-quark masses are computable fixed points m(m) = m.

proof part
  (a) msbar_masses.ker_expanded solves the mass RGE to the working order, for generic beta and gamma_m coefficients (hence every nf) and orders 1-4:
          ker(a0, a0) == 1    and    [a1^j] ( d/da1 ln ker(a0, a1) * a1 * sum_{k<n} beta_k a1^k  -  sum_{k<n} gamma_k a1^k ) == 0   for j < n
      i.e. d ln m / da = gamma_m(a) / (a beta(a)) up to the terms the order drops -- the integrand msbar_masses.ker_exact integrates numerically.
      ker_dispatcher hands the couplings at xif2 * scale in the requested flavour patch to the kernel selected by the coupling method.
bounded part (bounded/C18_native.py, deal run-time contracts over a seeded stated input set; never counted as proved)
  (b) compute() returns sorted masses that are fixed points m(m) = m inside the patch adjoining the quark's threshold on the side of the coupling reference
      (48 draws: reference nf 3-6 x orders 1-4 x exact / expanded, random masses, reference scales, matching ratios, xif), and refuses inconsistent inputs
      with ValueError (12 variants).  One defect repaired by a fix commit: under NumPy >= 2 no mass that needs solving could be computed (TypeError).
observation (not a claim): solve() ignores the convergence flag of scipy.optimize.fsolve -- outside the perturbative range (e.g. alpha_s = 0.118 imposed at 400 GeV with
nf = 6, N3LO exact, charm) it returns a value that is not a fixed point without any error; the bounded inputs use real-world alpha_s(Qref).
not covered: the decoupling constants of the running mass across matching scales and their RG-required logarithms; convergence of scipy.optimize.fsolve
(the returned value is checked to be a fixed point on the sampled inputs only).
"""
from fractions import Fraction as Q

import numpy as np

from pyvc import terms as T
from pyvc.replay import script
from contracts.common import coeffs_in

REPLAY = '''
def replay():
    from eko import msbar_masses, beta, gamma
    from scipy import integrate
    out = []
    for nf in (3, 4, 5, 6):
        for order in (1, 2, 3, 4):
            for a0, a1 in ((0.03, 0.015), (0.012, 0.02)):
                b = [beta.beta_qcd((2 + k, 0), nf) for k in range(order)]
                g = [gamma.gamma(k + 1, nf) for k in range(order)]
                # reference: the RGE with the coefficients kept at this order, integrated numerically; the expanded kernel must agree up to the dropped order a^order
                val, _ = integrate.quad(lambda a: sum(g[k] * a**k for k in range(order)) / (a * sum(b[k] * a**k for k in range(order))), a0, a1, epsabs=1e-13, epsrel=1e-12)
                ref = np.exp(val)
                got = msbar_masses.ker_expanded(a0, a1, (order, 0), nf)
                tol = 40 * max(a0, a1) ** order
                if abs(got / ref - 1) > tol: out.append(f"nf={nf} order={order} a0={a0} a1={a1}: ker_expanded {got} vs RGE solution {ref} (relative {got/ref-1:.2e} > {tol:.1e})")
            if abs(msbar_masses.ker_expanded(0.02, 0.02, (order, 0), nf) - 1) > 1e-14: out.append(f"nf={nf} order={order}: ker(a, a) != 1")
    return bool(out), "; ".join(out[:4]) if out else "ker_expanded agrees with the numerically integrated mass RGE to the working order"
'''


def run(chk):
    from eko import msbar_masses as mm
    from pyvc import bounded

    rp = script(REPLAY, kind="mass_rge_oracle")
    chk.under_contract("eko.msbar_masses:ker_expanded", "eko.msbar_masses:ker_dispatcher", "eko.msbar_masses:compute", "eko.msbar_masses:solve", "eko.msbar_masses:evolve")
    chk.trust("C20: beta and gamma_m coefficient functions equal the literature values (generic symbols here)", "BOUNDED part (b): deal run-time contracts over the stated finite input set only")
    chk.uncovered("decoupling constants of the running mass across matching scales and the RG-required logarithmic terms (compute_matching_coeffs_up/down)",
                  "convergence of scipy.optimize.fsolve / integrate.quad (numerical libraries)")
    chk.bounded_parts.append("(b) fixed points m(m) = m, sortedness and refusal of inconsistent inputs: deal run-time contracts on msbar_masses.compute over 48 + 12 seeded inputs (bounded/C18_native.py)")

    # ---- (a) ker_expanded solves the mass RGE to the working order --------------------------------------------------------------------------------
    b = [T.var(f"beta{k}") for k in range(4)]
    g = [T.var(f"gamma{k}") for k in range(4)]
    saved = (mm.beta_qcd, mm.b_qcd, mm.gamma)
    mm.beta_qcd = lambda k, nf: b[k[0] - 2]
    mm.b_qcd = lambda k, nf: b[k[0] - 2] / b[0]
    mm.gamma = lambda k, nf: g[k - 1]
    a0, a1 = T.var("a0"), T.var("a1")
    RG = {"a0": (0.01, 0.04), "a1": (0.01, 0.04), "*": (0.5, 2.0)}
    try:
        Pw = T.var("leading_power")
        rec = {}
        saved_pow = mm.np.power
        mm.np.power = lambda base, e: (rec.__setitem__("args", (base, e)), Pw)[1]
        try:
            for n in (1, 2, 3, 4):
                rec.clear()
                ker = mm.ker_expanded(a0, a1, (n, 0), 4)
                c0 = g[0] / b[0]
                base, e = rec.get("args", (None, None))
                chk.ground(f"C18.ker_expanded[order={n}].leading_power_called", base is not None, fn="eko.msbar_masses:ker_expanded", goal="the leading behaviour is np.power(a1/a0, c0)", replay=rp)
                if base is None:
                    continue
                chk.eq(f"C18.ker_expanded[order={n}].leading_power_base", base, a1 / a0, fn="eko.msbar_masses:ker_expanded", goal="base of the leading power == a1/a0", replay=rp, assumptions=[a0 > 0, a1 > 0], ranges=RG)
                chk.eq(f"C18.ker_expanded[order={n}].leading_power_exponent", e, c0, fn="eko.msbar_masses:ker_expanded", goal="exponent of the leading power == gamma_0/beta_0", replay=rp, ranges=RG)
                q = T.lift(ker) / Pw                     # the rational factor num(a1)/den(a0)
                chk.eq(f"C18.ker_expanded[order={n}].unit_at_equal_couplings", T.subst(q, {"a1": a0}), 1, fn="eko.msbar_masses:ker_expanded", goal="ker(a0, a0) == 1 (leading power 1^c0 = 1, rational factor 1)", replay=rp, assumptions=[a0 > 0], ranges=RG)
                B = sum(b[k] * a1 ** k for k in range(n))
                Gm = sum(g[k] * a1 ** k for k in range(n))
                # d ln ker/da1 = c0/a1 + q'/q ;  residual of the RGE times a1 B(a1):  c0 B + a1 B q'/q - Gm   (regular at a1 = 0)
                resid = c0 * B + a1 * B * T.diff(q, "a1") / q - Gm
                for j, c in enumerate(coeffs_in(resid, "a1", n)):
                    chk.eq(f"C18.ker_expanded[order={n}].rge.a1^{j}", c, 0, fn="eko.msbar_masses:ker_expanded", replay=rp, assumptions=[a0 > 0], ranges=RG,
                           goal=f"[a1^{j}] (d ln ker/da1 * a1 beta(a1) - gamma_m(a1)) == 0  (j < n = {n})")
        finally:
            mm.np.power = saved_pow
        # ker_dispatcher: couplings at xif2 * scale in the requested patch, kernel by the coupling method
        calls = []

        class SC:
            def __init__(self, method):
                self.method, self.order = method, (3, 0)

            def a(self, scale, nf):
                calls.append((scale, nf))
                return (T.app("a_s", T.lift(scale), T.lift(nf)), Q(0))

        q2to, q2ref, xif2 = T.var("q2_to"), T.var("q2m_ref"), T.var("xif2")
        seen = {}
        sk = (mm.ker_expanded, mm.ker_exact)
        mm.ker_expanded = lambda a0_, a1_, order, nf: (seen.__setitem__("expanded", (a0_, a1_, order, nf)), T.var("K"))[1]
        mm.ker_exact = lambda a0_, a1_, order, nf: (seen.__setitem__("exact", (a0_, a1_, order, nf)), T.var("K"))[1]
        mm.float = lambda x: x
        try:
            for method in ("expanded", "exact"):
                seen.clear()
                calls.clear()
                mm.ker_dispatcher(q2to, q2ref, SC(method), xif2, 5)
                got = seen.get(method)
                ok = got is not None and len(seen) == 1 and got[2] == (3, 0) and got[3] == 5
                chk.ground(f"C18.ker_dispatcher[{method}].kernel_selected", bool(ok), fn="eko.msbar_masses:ker_dispatcher", goal="the kernel of the coupling method is called with the order and the patch", detail=str(seen), replay=rp)
                if ok:
                    chk.eq(f"C18.ker_dispatcher[{method}].initial_coupling", got[0], T.app("a_s", T.lift(q2ref * xif2), T.lift(5)), fn="eko.msbar_masses:ker_dispatcher", goal="a0 == a_s(xif2 * q2m_ref, nf)", replay=rp)
                    chk.eq(f"C18.ker_dispatcher[{method}].final_coupling", got[1], T.app("a_s", T.lift(q2to * xif2), T.lift(5)), fn="eko.msbar_masses:ker_dispatcher", goal="a1 == a_s(xif2 * q2_to, nf)", replay=rp)
        finally:
            mm.ker_expanded, mm.ker_exact = sk
            del mm.float
    finally:
        mm.beta_qcd, mm.b_qcd, mm.gamma = saved
    # ---- (b) bounded ----------------------------------------------------------------------------------------------------------------------------------
    n = bounded.run_native(chk, "C18_native.py", backend="deal-runtime(bounded)")
    chk.extra["bounded_contract_evaluations"] = n
    chk.extra["exhaustive"] = False
