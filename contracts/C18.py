"""C18 -- MSbar heavy-quark masses are computable fixed points m(m) = m.

proof part
  (a) msbar_masses.ker_expanded solves the mass RGE to the working order, for generic beta and gamma_m coefficients (hence every nf) and orders 1-4:
          ker(a0, a0) == 1    and    [a1^j] ( d/da1 ln ker(a0, a1) * a1 * sum_{k<n} beta_k a1^k  -  sum_{k<n} gamma_k a1^k ) == 0   for j < n
      i.e. d ln m / da = gamma_m(a) / (a beta(a)) up to the terms the order drops -- the integrand msbar_masses.ker_exact integrates numerically.
      ker_dispatcher hands the couplings at xif2 * scale in the requested flavour patch to the kernel selected by the coupling method.
bounded part (bounded/C18_native.py, deal run-time contracts over a seeded stated input set; never counted as proved)
  (b) compute() returns sorted masses that are fixed points m(m) = m inside the patch adjoining the quark's threshold on the side of the coupling reference
      (48 draws: reference nf 3-6 x orders 1-4 x exact / expanded, random masses, reference scales, matching ratios, xif), and refuses inconsistent inputs
      with ValueError (12 variants).  One defect repaired by a fix commit: under NumPy >= 2 no mass that needs solving could be computed (TypeError).
observation (not a claim): solve() ignores the convergence flag of scipy.optimize.fsolve -- outside the perturbative range (e.g. alpha_s = 0.118 imposed at 400 GeV with
nf = 6, N3LO exact, charm) it returns a value that is not a fixed point without any error; the bounded inputs use real-world alpha_s(Qref).
  (c) decoupling of the running mass across a matching scale: with m^(nf+1) = m^(nf) zeta(L, a'), a' the decoupled coupling (C16) and L = ln(mu^2/m_h(mu)^2), the RG residual
      d ln m^(nf+1)/dt + gamma_m^(nf+1)(a') vanishes through O(a^3) identically in nf and L (the L^0 term at a^3 to the printed digits of the decimal coefficients).
not covered: the L-independent decoupling constants themselves (literature values); convergence of scipy.optimize.fsolve
(the returned value is checked to be a fixed point on the sampled inputs only).
"""
from fractions import Fraction as Q

import numpy as np

from pyvc import terms as T
from pyvc.replay import script
from contracts.common import coeffs_in

REPLAY = '''
def replay():
    from eko import msbar_masses, beta, gamma
    from scipy import integrate
    out = []
    def err(nf, order, a0, a1):
        b = [beta.beta_qcd((2 + k, 0), nf) for k in range(order)]
        g = [gamma.gamma(k + 1, nf) for k in range(order)]
        # reference: the RGE with the coefficients kept at this order, integrated numerically
        val, _ = integrate.quad(lambda a: sum(g[k] * a**k for k in range(order)) / (a * sum(b[k] * a**k for k in range(order))), a0, a1, epsabs=1e-15, epsrel=1e-13)
        return abs(msbar_masses.ker_expanded(a0, a1, (order, 0), nf) / np.exp(val) - 1)
    for nf in (3, 4, 5, 6):
        for order in (1, 2, 3, 4):
            for a0, a1 in ((0.004, 0.002), (0.002, 0.004)):
                # the expanded kernel solves the RGE up to the dropped order: the difference is O(a^order), i.e. shrinks by 2^order when both couplings are halved
                e1, e2 = err(nf, order, a0, a1), err(nf, order, a0 / 2, a1 / 2)
                if e2 > e1 / 2 ** (order - 0.5) + 1e-11 or e1 > 5 * (20 * max(a0, a1)) ** order:
                    out.append(f"nf={nf} order={order} a0={a0} a1={a1}: ker_expanded differs from the RGE solution by {e1:.2e}, and by {e2:.2e} at half the couplings (must fall by 2^{order})")
            if abs(msbar_masses.ker_expanded(0.02, 0.02, (order, 0), nf) - 1) > 1e-14: out.append(f"nf={nf} order={order}: ker(a, a) != 1")
    return bool(out), "; ".join(out[:4]) if out else "ker_expanded agrees with the numerically integrated mass RGE to the working order"
'''


def run(chk):
    from eko import msbar_masses as mm
    from pyvc import bounded

    rp = script(REPLAY, kind="mass_rge_oracle")
    chk.under_contract("eko.msbar_masses:compute_matching_coeffs_up", "eko.msbar_masses:ker_expanded", "eko.msbar_masses:ker_dispatcher", "eko.msbar_masses:compute", "eko.msbar_masses:solve", "eko.msbar_masses:evolve")
    chk.trust("C20: beta and gamma_m coefficient functions equal the literature values (generic symbols here)", "BOUNDED part (b): deal run-time contracts over the stated finite input set only")
    chk.uncovered("the L-independent decoupling constants of the running mass (literature values c[2,0], c[3,0])",
                  "convergence of scipy.optimize.fsolve / integrate.quad (numerical libraries)")
    chk.bounded_parts.append("(b) fixed points m(m) = m, sortedness and refusal of inconsistent inputs: deal run-time contracts on msbar_masses.compute over 48 + 12 seeded inputs (bounded/C18_native.py)")

    # ---- (a) ker_expanded solves the mass RGE to the working order --------------------------------------------------------------------------------
    b = [T.var(f"beta{k}") for k in range(4)]
    g = [T.var(f"gamma{k}") for k in range(4)]
    saved = (mm.beta_qcd, mm.b_qcd, mm.gamma)
    mm.beta_qcd = lambda k, nf: b[k[0] - 2]
    mm.b_qcd = lambda k, nf: b[k[0] - 2] / b[0]
    mm.gamma = lambda k, nf: g[k - 1]
    a0, a1 = T.var("a0"), T.var("a1")
    RG = {"a0": (0.01, 0.04), "a1": (0.01, 0.04), "*": (0.5, 2.0)}
    try:
        Pw = T.var("leading_power")
        rec = {}
        saved_pow = mm.np.power
        mm.np.power = lambda base, e: (rec.__setitem__("args", (base, e)), Pw)[1]
        try:
            for n in (1, 2, 3, 4):
                rec.clear()
                ker = mm.ker_expanded(a0, a1, (n, 0), 4)
                c0 = g[0] / b[0]
                base, e = rec.get("args", (None, None))
                chk.ground(f"C18.ker_expanded[order={n}].leading_power_called", base is not None, fn="eko.msbar_masses:ker_expanded", goal="the leading behaviour is np.power(a1/a0, c0)", replay=rp)
                if base is None:
                    continue
                chk.eq(f"C18.ker_expanded[order={n}].leading_power_base", base, a1 / a0, fn="eko.msbar_masses:ker_expanded", goal="base of the leading power == a1/a0", replay=rp, assumptions=[a0 > 0, a1 > 0], ranges=RG)
                chk.eq(f"C18.ker_expanded[order={n}].leading_power_exponent", e, c0, fn="eko.msbar_masses:ker_expanded", goal="exponent of the leading power == gamma_0/beta_0", replay=rp, ranges=RG)
                q = T.lift(ker) / Pw                     # the rational factor num(a1)/den(a0)
                chk.eq(f"C18.ker_expanded[order={n}].unit_at_equal_couplings", T.subst(q, {"a1": a0}), 1, fn="eko.msbar_masses:ker_expanded", goal="ker(a0, a0) == 1 (leading power 1^c0 = 1, rational factor 1)", replay=rp, assumptions=[a0 > 0], ranges=RG)
                B = sum(b[k] * a1 ** k for k in range(n))
                Gm = sum(g[k] * a1 ** k for k in range(n))
                # d ln ker/da1 = c0/a1 + q'/q ;  residual of the RGE times a1 B(a1):  c0 B + a1 B q'/q - Gm   (regular at a1 = 0)
                resid = c0 * B + a1 * B * T.diff(q, "a1") / q - Gm
                for j, c in enumerate(coeffs_in(resid, "a1", n)):
                    chk.eq(f"C18.ker_expanded[order={n}].rge.a1^{j}", c, 0, fn="eko.msbar_masses:ker_expanded", replay=rp, assumptions=[a0 > 0], ranges=RG,
                           goal=f"[a1^{j}] (d ln ker/da1 * a1 beta(a1) - gamma_m(a1)) == 0  (j < n = {n})")
        finally:
            mm.np.power = saved_pow
        # ker_dispatcher: couplings at xif2 * scale in the requested patch, kernel by the coupling method
        calls = []

        class SC:
            def __init__(self, method):
                self.method, self.order = method, (3, 0)

            def a(self, scale, nf):
                calls.append((scale, nf))
                return (T.app("a_s", T.lift(scale), T.lift(nf)), Q(0))

        q2to, q2ref, xif2 = T.var("q2_to"), T.var("q2m_ref"), T.var("xif2")
        seen = {}
        sk = (mm.ker_expanded, mm.ker_exact)
        mm.ker_expanded = lambda a0_, a1_, order, nf: (seen.__setitem__("expanded", (a0_, a1_, order, nf)), T.var("K"))[1]
        mm.ker_exact = lambda a0_, a1_, order, nf: (seen.__setitem__("exact", (a0_, a1_, order, nf)), T.var("K"))[1]
        mm.float = lambda x: x
        try:
            for method in ("expanded", "exact"):
                seen.clear()
                calls.clear()
                mm.ker_dispatcher(q2to, q2ref, SC(method), xif2, 5)
                got = seen.get(method)
                ok = got is not None and len(seen) == 1 and got[2] == (3, 0) and got[3] == 5
                chk.ground(f"C18.ker_dispatcher[{method}].kernel_selected", bool(ok), fn="eko.msbar_masses:ker_dispatcher", goal="the kernel of the coupling method is called with the order and the patch", detail=str(seen), replay=rp)
                if ok:
                    chk.eq(f"C18.ker_dispatcher[{method}].initial_coupling", got[0], T.app("a_s", T.lift(q2ref * xif2), T.lift(5)), fn="eko.msbar_masses:ker_dispatcher", goal="a0 == a_s(xif2 * q2m_ref, nf)", replay=rp)
                    chk.eq(f"C18.ker_dispatcher[{method}].final_coupling", got[1], T.app("a_s", T.lift(q2to * xif2), T.lift(5)), fn="eko.msbar_masses:ker_dispatcher", goal="a1 == a_s(xif2 * q2_to, nf)", replay=rp)
        finally:
            mm.ker_expanded, mm.ker_exact = sk
            del mm.float
    finally:
        mm.beta_qcd, mm.b_qcd, mm.gamma = saved
    # ---- (c) decoupling of the running mass across a matching scale: the logarithms are those required by RG invariance ------------------------------
    from pyvc.series import Series
    from eko import beta as beta_mod, gamma as gamma_mod, couplings as cpl
    from contracts.common import coeffs_in as _coeffs
    nf, Lg = T.var("nf"), T.var("L")
    cm = mm.compute_matching_coeffs_up(nf)
    cc = cpl.compute_matching_coeffs_up("MSBAR", nf)
    a = Series.indet("a", 6)
    bfun = lambda x, nfv: sum((beta_mod.beta_qcd((k + 2, 0), nfv) * x ** (k + 2) for k in range(3)), 0)
    gfun = lambda x, nfv: sum((gamma_mod.gamma(k + 1, nfv) * x ** (k + 1) for k in range(3)), 0)
    F = 1
    for n in range(1, 4):
        for l in range(n + 1):
            F = F + (a ** n) * (Lg ** l * cc[n, l])
    ap = a * F                                         # coupling of the nf+1 scheme in terms of the nf one (C16)
    zeta = 1
    for n in range(1, 4):
        for l in range(n + 1):
            zeta = zeta + (ap ** n) * (Lg ** l * cm[n, l])
    lnz = zeta.log()                                   # m^(nf+1) = m^(nf) * zeta
    dLdt = 1 + 2 * gfun(ap, nf + 1)                    # L = ln(mu^2 / m_h(mu)^2) with the running heavy-quark mass (same convention as the coupling decoupling, C16)
    dlnz_dL = Series("a", lnz.val, [T.diff(T.lift(c_), "L") for c_ in lnz.c])
    resid = -gfun(a, nf) + lnz.deriv() * (-bfun(a, nf)) + dlnz_dL * dLdt + gfun(ap, nf + 1)
    fnm = "eko.msbar_masses:compute_matching_coeffs_up"
    for k in (1, 2):
        chk.eq(f"C18.mass_decoupling.rg.a^{k}", resid.coeff(k), 0, fn=fnm, replay=rp, ranges={"nf": (3, 5), "L": (-1.0, 1.0)}, goal=f"[a^{k}] ( d ln m^(nf+1)/dt + gamma_m^(nf+1)(a') ) == 0 for every nf and L")
    c3 = _coeffs(T.lift(resid.coeff(3)), "L", 4)
    for l in (1, 2, 3):
        chk.eq(f"C18.mass_decoupling.rg.a^3.L^{l}", c3[l], 0, fn=fnm, replay=rp, ranges={"nf": (3, 5)}, goal=f"[a^3 L^{l}] of the RG residual == 0 for every nf (coefficients given as exact fractions)")
    for nfv in (3, 4, 5):
        val = abs(complex(T.evalmp(T.subst(T.lift(c3[0]), {"nf": nfv}), {}, 30)))
        chk.ground(f"C18.mass_decoupling.rg.a^3.L^0[nf={nfv}]", val <= 3e-4, fn=fnm, replay=rp, backend="exact-eval+mpmath",
                   goal="[a^3 L^0] of the RG residual vanishes to the printed digits of the decimal coefficients c[3,1] = 71.7887 + 7.85185 nf", detail=f"residual {val:.3e}")
    chk.eq_array("C18.mass_decoupling.unused_coefficients", np.array([cm[n, l] for n in range(4) for l in range(4) if l > n or n < 2], dtype=object), np.array([Q(0)] * len([1 for n in range(4) for l in range(4) if l > n or n < 2]), dtype=object),
                 fn=fnm, goal="no coefficient below O(a_s^2) or with more logs than the order", replay=rp)

    # ---- (b) bounded ----------------------------------------------------------------------------------------------------------------------------------
    n = bounded.run_native(chk, "C18_native.py", backend="deal-runtime(bounded)")
    chk.extra["bounded_contract_evaluations"] = n
    chk.extra["exhaustive"] = False
