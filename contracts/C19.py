"""C19 -- flavour-number paths through the matching scales are well formed.

Contract on Atlas.path / matched_path / nf_default / normalize / ffns / is_downward_path / flavor_shift:
  requires  walls 0 <= c <= b <= t <= INF (coincident and infinite allowed), mu0^2, muf^2 > 0 finite, nf0 in 3..6,
            nff in 3..6 or None
  ensures   (clauses of the statement, see the names of the obligations below)
All 16 (+4 with nff=None) pairs are enumerated; the scales are symbolic reals; every comparison forks (A4);
infinite walls are enumerated as the 4 suffix patterns of {c,b,t}.
"""
import itertools
import json

import numpy as np

from pyvc import terms as T
from pyvc.explore import explore
from pyvc.vnp import INF
from pyvc.replay import script

ORACLE = '''
P = json.loads(%s)
def clauses(walls, origin, target):
    """native re-evaluation of every clause of the statement; returns list of failed clause names"""
    from eko.matchings import Atlas, Segment, Matching
    from eko.quantities.heavy_quarks import MatchingScales
    bad = []
    at = Atlas(MatchingScales(list(walls)), tuple(origin))
    mu0, nf0 = at.origin
    muf, nff = target
    if nff is None:
        nff_exp = 3 + sum(1 for w in walls if w <= muf)
    else:
        nff_exp = nff
    p = at.path((muf, nff))
    W = [0.0] + list(walls) + [float("inf")]
    if p[0].origin != mu0: bad.append("starts_at_origin_scale")
    if p[0].nf != nf0: bad.append("starts_with_origin_nf")
    if p[-1].target != muf: bad.append("ends_at_target_scale")
    if p[-1].nf != nff_exp: bad.append("ends_with_target_nf")
    if len(p) != abs(nff_exp - nf0) + 1: bad.append("length")
    sg = (nff_exp > nf0) - (nff_exp < nf0)
    for i in range(len(p) - 1):
        if p[i].target != p[i+1].origin: bad.append("contiguous")
        if p[i+1].nf - p[i].nf != sg: bad.append("unit_steps")
        if p[i].target != W[max(p[i].nf, p[i+1].nf) - 3]: bad.append("junction_on_wall")
    m = at.matched_path((muf, nff))
    if len(m) != 2 * len(p) - 1: bad.append("matched_length")
    for i, el in enumerate(m):
        if i %% 2 == 0:
            if not isinstance(el, Segment) or el != p[i // 2]: bad.append("matched_segments")
        else:
            a, b = p[i // 2], p[i // 2 + 1]
            if not isinstance(el, Matching) or el.scale != a.target or el.hq != max(a.nf, b.nf) or el.inverse != (nff_exp < nf0):
                bad.append("matched_matching")
    return sorted(set(bad))

def replay():
    inf = float("inf")
    cases = [tuple(c) for c in P["cases"]]
    out = []
    for walls, origin, target in cases:
        walls = [inf if w is None else w for w in walls]
        try:
            bad = clauses(walls, origin, target)
        except Exception as e:
            bad = [f"exception {type(e).__name__}: {e}"]
        if bad:
            out.append(f"walls={walls} origin={origin} target={target}: {bad}")
    return bool(out), ("; ".join(out[:4]) if out else f"all {len(cases)} native cases satisfy every clause")
'''


def battery():
    cases = []
    wallsets = [[2.0, 20.0, 30000.0], [2.0, 2.0, 30000.0], [2.0, 20.0, None], [4.0, None, None], [None, None, None], [0.0, 0.0, 30000.0], [3.0, 3.0, 3.0]]
    for walls in wallsets:
        fin = [w for w in walls if w is not None]
        scales = sorted(set([1.0, 10.0, 100.0, 1e5] + fin))
        scales = [s for s in scales if s > 0]
        for nf0 in (3, 4, 5, 6):
            for nff in (3, 4, 5, 6, None):
                for mu0 in scales[:2]:
                    for muf in scales:
                        cases.append((walls, [mu0, nf0], [muf, nff]))
    return cases


def make_replay(nf0, nff):
    def gen(witness):
        cases = [c for c in battery() if c[1][1] == nf0 and c[2][1] == nff]
        if witness and isinstance(witness, dict):
            try:
                g = lambda k, d: float(witness.get(k, d))
                cases.insert(0, ([g("c", 2.0), g("b", 20.0), g("t", 3e4)], [g("mu0", 1.0), nf0], [g("muf", 10.0), nff]))
            except Exception:
                pass
        return script(ORACLE % json.dumps(json.dumps(dict(cases=cases))), kind="native_clause_oracle")
    return gen


def run(chk):
    from eko import matchings
    from eko.matchings import Atlas, Segment, Matching
    from eko.quantities.heavy_quarks import MatchingScales

    chk.under_contract("eko.matchings:Atlas.__init__", "eko.matchings:Atlas.normalize", "eko.matchings:Atlas.path", "eko.matchings:Atlas.matched_path",
                       "eko.matchings:Atlas.ffns", "eko.matchings:nf_default", "eko.matchings:is_downward_path", "eko.matchings:flavor_shift",
                       "eko.matchings:Segment.is_downward")
    chk.trust("Python list slicing / dataclass equality semantics (executed by CPython itself)")
    c, b, t, mu0, muf = (T.var(x) for x in ("c", "b", "t", "mu0", "muf"))
    fn = "eko.matchings:Atlas.path"
    npaths = 0
    # wall layouts: (A) ordered 0 <= c <= b <= t with an infinite suffix (the physical case, includes the default-nf clause);
    #               (B) "any matching scales": no ordering assumed at all, every subset of {c,b,t} infinite, explicit target nf
    layouts = []
    for ninf in range(4):
        fin = [c, b, t][: 3 - ninf]
        layouts.append((f"inf={ninf}", fin + [INF] * ninf, fin, [x <= y for x, y in zip(fin, fin[1:])], (3, 4, 5, 6, None)))
    import itertools as _it
    for mask in _it.product((False, True), repeat=3):
        ws = [INF if m else v for m, v in zip(mask, (c, b, t))]
        fin = [v for m, v in zip(mask, (c, b, t)) if not m]
        layouts.append(("unordered,inf=" + "".join("1" if m else "0" for m in mask), ws, fin, [], (3, 4, 5, 6)))
    for lname, walls, fin, order_req, nff_list in layouts:
        req = [mu0 > 0, muf > 0] + [w >= 0 for w in fin] + order_req
        for nf0 in (3, 4, 5, 6):
            for nff in nff_list:
                cfg = f"[{lname},nf0={nf0},nff={nff}]"
                rp = make_replay(nf0, nff)
                W = [0] + walls + [INF]

                def body():
                    at = Atlas(MatchingScales(list(walls)), (mu0, nf0))
                    p = at.path((muf, nff))
                    m = at.matched_path((muf, nff))
                    return at, p, m

                paths = explore(body, req)
                sat, _ = __import__("pyvc.smt", fromlist=["x"]).satisfiable(req)
                chk.ground(f"C19{cfg}.requires_satisfiable", sat != "unsat", fn=fn, goal="precondition is satisfiable (vacuity guard)")
                for k, pr in enumerate(paths):
                    npaths += 1
                    tag = f"C19{cfg}.path{k}"
                    if pr.exc is not None:
                        chk.raised(f"{tag}.no_exception", pr.exc, fn=fn, replay=rp)
                        continue
                    at, p, m = pr.value
                    hyp = req + pr.pc
                    # expected final nf
                    if nff is None:
                        cnt = T.ZERO
                        for w in fin:
                            cnt = cnt + T.ite(w <= muf, 1, 0)
                        nff_exp = 3 + cnt
                        nf_last = p[-1].nf
                        chk.smt(f"{tag}.default_nf", hyp, T.lift(nf_last) == nff_exp, fn="eko.matchings:nf_default",
                                goal="default nf = 3 + #{finite walls <= muf}", replay=rp)
                        nffc = int(nf_last)
                    else:
                        nffc = nff
                    sg = (nffc > nf0) - (nffc < nf0)

                    def same(x, y):
                        if isinstance(x, T.Sym) or isinstance(y, T.Sym):
                            return T.lift(x).n == T.lift(y).n if not (isinstance(x, type(INF)) or isinstance(y, type(INF))) else False
                        return x == y

                    chk.ground(f"{tag}.starts_at_origin", same(p[0].origin, mu0) and p[0].nf == nf0, fn=fn, goal="p[0] = (mu0^2, nf0)", detail=repr(p[0]), replay=rp)
                    chk.ground(f"{tag}.ends_at_target", same(p[-1].target, muf) and p[-1].nf == nffc, fn=fn, goal="p[-1] = (muf^2, nff)", detail=repr(p[-1]), replay=rp)
                    chk.ground(f"{tag}.length", len(p) == abs(nffc - nf0) + 1, fn=fn, goal="len = |nff-nf0|+1", detail=str(len(p)), replay=rp)
                    ok_c = all(same(p[i].target, p[i + 1].origin) for i in range(len(p) - 1))
                    ok_s = all(p[i + 1].nf - p[i].nf == sg for i in range(len(p) - 1))
                    ok_w = all(same(p[i].target, W[max(p[i].nf, p[i + 1].nf) - 3]) for i in range(len(p) - 1))
                    chk.ground(f"{tag}.contiguous", ok_c, fn=fn, goal="p[i].target = p[i+1].origin", detail=repr(p), replay=rp)
                    chk.ground(f"{tag}.unit_steps_one_direction", ok_s, fn=fn, goal="nf changes by sign(nff-nf0) per step", detail=repr(p), replay=rp)
                    chk.ground(f"{tag}.junction_on_wall_of_heavier_quark", ok_w, fn=fn, goal="junction nf<->nf+1 at wall of quark nf+1", detail=repr(p), replay=rp)
                    okm = len(m) == 2 * len(p) - 1
                    symfacts = []
                    for i, el in enumerate(m):
                        if not okm:
                            break
                        if i % 2 == 0:
                            q = p[i // 2]
                            okm = isinstance(el, Segment) and (el is q or (same(el.origin, q.origin) and same(el.target, q.target) and el.nf == q.nf))
                        else:
                            a_, b_ = p[i // 2], p[i // 2 + 1]
                            okm = isinstance(el, Matching) and same(el.scale, a_.target) and el.hq == max(a_.nf, b_.nf)
                            if okm:
                                if isinstance(el.inverse, T.Sym):
                                    symfacts.append(el.inverse if nffc < nf0 else T.bnot(el.inverse))
                                else:
                                    okm = bool(el.inverse) == (nffc < nf0)
                    gl = "alternation Segment/Matching; matching at p[i].target, hq = heavier nf, inverse <=> nff < nf0"
                    if okm and symfacts:
                        chk.smt(f"{tag}.matched_path", hyp, T.conj(*symfacts), fn="eko.matchings:Atlas.matched_path", goal=gl, replay=rp)
                    else:
                        chk.ground(f"{tag}.matched_path", bool(okm), fn="eko.matchings:Atlas.matched_path", goal=gl, detail=repr(m), replay=rp)
                chk.configs += 1
    # is_downward_path on a single segment, flavor_shift, ffns
    s_up = [Segment(mu0, muf, 4)]
    for k, pr in enumerate(explore(lambda: matchings.is_downward_path(s_up), [mu0 > 0, muf > 0])):
        v = pr.value
        goal = ((mu0 > muf) if v else T.bnot(mu0 > muf)) if isinstance(v, bool) else T.cmp("==", T.lift(v), mu0 > muf)
        chk.smt(f"C19.is_downward_single.path{k}", [mu0 > 0, muf > 0] + pr.pc, goal,
                fn="eko.matchings:is_downward_path", goal="single segment: downward <=> origin > target")
    chk.ground("C19.flavor_shift", matchings.flavor_shift(True) == 4 and matchings.flavor_shift(False) == 3, fn="eko.matchings:flavor_shift",
               goal="shift 4 (down) / 3 (up): index of the heavier quark's threshold ratio")
    for nf in (3, 4, 5, 6):
        at = Atlas.ffns(nf, mu0)
        ok = at.walls[0] == 0 and all(w == 0 for w in at.walls[1:nf - 2]) and all(isinstance(w, type(INF)) for w in at.walls[nf - 2:]) and at.origin[1] == nf
        chk.ground(f"C19.ffns[nf={nf}]", bool(ok), fn="eko.matchings:Atlas.ffns", goal="ffns walls: lighter quarks at 0, heavier at INF; origin nf = nf", detail=repr(at.walls))
        pths = explore(lambda: at.path((muf, None)), [mu0 > 0, muf > 0])
        chk.ground(f"C19.ffns[nf={nf}].single_segment", all(len(pr.value) == 1 and pr.value[0].nf == nf for pr in pths if pr.exc is None) and all(pr.exc is None for pr in pths),
                   fn="eko.matchings:Atlas.ffns", goal="in FFNS every target is reached by one segment with nf flavours")
    chk.extra["paths_explored"] = npaths
    chk.extra["exhaustive"] = True
