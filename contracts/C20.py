"""C20 -- beta-function and mass anomalous-dimension coefficients match the literature.

Contract: for symbolic real nf (QCD) resp. every nf in 0..6 with symbolic number of leptons nl (QED, where
the code uses nf // 2), each coefficient function of eko/beta.py and eko/gamma.py returns the published
polynomial.  The literature table below is typed twice: as exact rationals with zeta atoms, and as the
decimal forms printed in the papers; the two are compared first (a typo in the specification is a checker
error, not a verdict on the code).

Sources (normalisation a = alpha/(4 pi),  d a/d ln mu^2 = - sum_k beta_k a^(k+2),  gamma_m = sum_k gamma_k a^(k+1)):
  * Herzog, Ruijl, Ueda, Vermaseren, Vogt, JHEP 02 (2017) 090, eqs. (3.1)-(3.6): beta_0..beta_3 (beta_3 = eq. 3.6 in SU(3) numbers)
  * Vermaseren, Larin, van Ritbergen, PLB 405 (1997) 327, eqs. (15),(16); Chetyrkin, PLB 404 (1997) 161:
    gamma_0..gamma_3 given there for a = alpha_s/pi, i.e. gamma_k(here) = 4^(k+1) gamma_k(VLR)
  * Surguladze, hep-ph/9803211 (1996) eq. (7): QED and mixed QCDxQED two-loop coefficients
"""
from fractions import Fraction as Q

from pyvc import terms as T
from pyvc.replay import native_call

z3_, z4_, z5_ = T.app("zeta3"), T.app("zeta4"), T.app("zeta5")
NC, CF, CA, TR = 3, Q(4, 3), 3, Q(1, 2)
eu2, ed2 = Q(4, 9), Q(1, 9)


# ---- specification: exact forms -------------------------------------------------------------------
def spec_beta_qcd(k, nf):
    if k == 0:
        return Q(11) - Q(2, 3) * nf
    if k == 1:
        return Q(102) - Q(38, 3) * nf
    if k == 2:
        return Q(2857, 2) - Q(5033, 18) * nf + Q(325, 54) * nf**2
    if k == 3:
        return (Q(149753, 6) + 3564 * z3_ - (Q(1078361, 162) + Q(6508, 27) * z3_) * nf
                + (Q(50065, 162) + Q(6472, 81) * z3_) * nf**2 + Q(1093, 729) * nf**3)


def spec_gamma(k, nf):
    if k == 0:
        return Q(4)
    if k == 1:
        return Q(202, 3) - Q(20, 9) * nf
    if k == 2:
        return Q(1249) - (Q(2216, 27) + Q(160, 3) * z3_) * nf - Q(140, 81) * nf**2
    if k == 3:
        return (Q(4603055, 162) + Q(135680, 27) * z3_ - 8800 * z5_
                + (-Q(91723, 27) - Q(34192, 9) * z3_ + 880 * z4_ + Q(18400, 9) * z5_) * nf
                + (Q(5242, 243) + Q(800, 9) * z3_ - Q(160, 3) * z4_) * nf**2
                + (-Q(332, 243) + Q(64, 27) * z3_) * nf**3)


# ---- the same table as printed decimals (alpha_s/pi normalisation for gamma; 4pi for beta) ----------
# VLR eq. (16): gamma_m/(a_s/pi) coefficients;  Herzog et al. / van Ritbergen et al. numeric beta_3
DEC_GAMMA = {  # k -> coefficients of nf^0, nf^1, ... in alpha_s/pi units (gamma_k / 4^(k+1))
    0: ["1"],
    1: ["4.20833", "-0.138889"],
    2: ["19.5156", "-2.28412", "-0.0270062"],
    3: ["98.9434", "-19.1075", "0.276163", "0.00579322"],
}
DEC_BETA = {  # beta_k / 4^(k+1) in alpha_s/pi units: van Ritbergen, Vermaseren, Larin 1997 eq. (10)
    0: ["2.75", "-0.166667"],
    1: ["6.375", "-0.791667"],
    2: ["22.3203", "-4.36892", "0.0940394"],
    3: ["114.23", "-27.1339", "1.58238", "0.0058567"],
}


def _coeffs_numeric(expr, nfvar, deg):
    """coefficients of nf^j of a polynomial expression, numerically (zeta atoms by their values)."""
    import numpy as np

    pts = list(range(deg + 1))
    vals = [T.evalf(T.subst(T.lift(expr), {nfvar: p}), {}).real for p in pts]
    V = np.vander(pts, deg + 1, increasing=True)
    return np.linalg.solve(V, np.array(vals))


def _digits_agree(x, txt):
    from decimal import Decimal

    d = Decimal(txt)
    exp = -d.as_tuple().exponent if d.as_tuple().exponent < 0 else 0
    sig = len(d.as_tuple().digits)
    tol = 0.6 * 10 ** (-exp) if exp else 0.6
    # printed with 6 significant digits: allow one unit of the last printed digit
    return abs(x - float(d)) <= max(tol, abs(float(d)) * 1e-5)


def run(chk):
    import eko.beta as beta
    import eko.gamma as gamma
    import eko.constants as constants

    chk.under_contract(*(f"eko.beta:{n}" for n in ("beta_qcd_as2", "beta_qcd_as3", "beta_qcd_as4", "beta_qcd_as5", "beta_qed_aem2",
                                                  "beta_qed_aem3", "beta_qcd_as2aem1", "beta_qed_aem2as1", "beta_qcd", "beta_qed", "b_qcd", "b_qed")),
                       *(f"eko.gamma:{n}" for n in ("gamma_qcd_as1", "gamma_qcd_as2", "gamma_qcd_as3", "gamma_qcd_as4", "gamma")),
                       "eko.constants:uplike_flavors", "eko.constants:(NC,TR,CA,CF,eu2,ed2)")
    chk.trust("literature table typed in contracts/C20.py (exact forms cross-checked against the published decimal forms on every run)",
              "zeta(3), zeta(4), zeta(5) are atoms: identities hold for any value of them (stronger than needed)")
    nf = T.var("nf")

    # 0. specification self-check (typed twice)
    for k in range(4):
        cg = _coeffs_numeric(spec_gamma(k, nf), "nf", k)
        cb = _coeffs_numeric(spec_beta_qcd(k, nf), "nf", min(k, 3) if k else 1)
        for j, txt in enumerate(DEC_GAMMA[k]):
            if not _digits_agree(cg[j] / 4 ** (k + 1), txt):
                raise RuntimeError(f"specification typo? gamma_{k} nf^{j}: exact {cg[j]/4**(k+1)} vs printed {txt}")
        for j, txt in enumerate(DEC_BETA[k]):
            if not _digits_agree(cb[j] / 4 ** (k + 1), txt):
                raise RuntimeError(f"specification typo? beta_{k} nf^{j}: exact {cb[j]/4**(k+1)} vs printed {txt}")

    # 1. constants
    for name, val in (("NC", NC), ("TR", TR), ("CA", CA), ("CF", CF), ("eu2", eu2), ("ed2", ed2)):
        chk.ground(f"C20.constants.{name}", getattr(constants, name) == val, fn="eko.constants", goal=f"{name} == {val}",
                   detail=f"{name} = {getattr(constants, name)}")

    ranges = {"nf": (3, 6), "nl": (2, 3)}

    def rp(target, args, spec_expr, env):
        exp = T.evalf(T.lift(spec_expr), env)
        return native_call(target, args, exp.real, rtol=1e-10, note="literature value at " + str(env))

    # 2. QCD beta and gamma: symbolic nf
    for k, fname in enumerate(("beta_qcd_as2", "beta_qcd_as3", "beta_qcd_as4", "beta_qcd_as5")):
        chk.eq(f"C20.beta_qcd.{fname}", getattr(beta, fname)(nf), spec_beta_qcd(k, nf), fn=f"eko.beta:{fname}",
               goal=f"{fname}(nf) == Herzog et al. beta_{k}(nf) for all nf", ranges=ranges,
               replay=rp(f"eko.beta:{fname}", [5], spec_beta_qcd(k, 5), {}))
        chk.eq(f"C20.beta_qcd.dispatch({k+2},0)", beta.beta_qcd((k + 2, 0), nf), spec_beta_qcd(k, nf), fn="eko.beta:beta_qcd",
               goal=f"beta_qcd(({k+2},0), nf) == beta_{k}(nf)", replay=rp("eko.beta:beta_qcd", [(k + 2, 0), 4], spec_beta_qcd(k, 4), {}))
        if k:
            chk.eq(f"C20.b_qcd({k+2},0)", beta.b_qcd((k + 2, 0), nf) * spec_beta_qcd(0, nf), spec_beta_qcd(k, nf), fn="eko.beta:b_qcd",
                   goal="b_qcd(k) * beta_0 == beta_k", replay=rp("eko.beta:b_qcd", [(k + 2, 0), 4], spec_beta_qcd(k, 4) / spec_beta_qcd(0, 4), {}))
    for k, fname in enumerate(("gamma_qcd_as1", "gamma_qcd_as2", "gamma_qcd_as3", "gamma_qcd_as4")):
        f = getattr(gamma, fname)
        val = f() if k == 0 else f(nf)
        chk.eq(f"C20.gamma.{fname}", val, spec_gamma(k, nf), fn=f"eko.gamma:{fname}",
               goal=f"{fname}(nf) == 4^{k+1} * VLR/Chetyrkin gamma_{k}(nf) for all nf", ranges=ranges,
               replay=rp(f"eko.gamma:{fname}", [] if k == 0 else [3], spec_gamma(k, 3), {}))
        chk.eq(f"C20.gamma.dispatch({k+1})", gamma.gamma(k + 1, nf), spec_gamma(k, nf), fn="eko.gamma:gamma",
               goal=f"gamma({k+1}, nf) == gamma_{k}(nf)", replay=rp("eko.gamma:gamma", [k + 1, 5], spec_gamma(k, 5), {}))

    # 3. QED / mixed: every nf in 0..6, symbolic nl
    nl = T.var("nl")
    for n in range(0, 7):
        nu = n // 2
        nd = n - nu
        s2, s4 = nu * eu2 + nd * ed2, nu * eu2**2 + nd * ed2**2
        specs = {
            "beta_qed_aem2": (-Q(4, 3) * (nl + NC * s2), (n, nl)),
            "beta_qed_aem3": (-4 * (nl + NC * s4), (n, nl)),
            "beta_qcd_as2aem1": (-4 * TR * s2, (n,)),
            "beta_qed_aem2as1": (-4 * CF * NC * s2, (n,)),
        }
        for fname, (spec, args) in specs.items():
            cargs = [n, 3][: len(args)]
            chk.eq(f"C20.qed.{fname}[nf={n}]", getattr(beta, fname)(*args), spec, fn=f"eko.beta:{fname}",
                   goal=f"{fname} == Surguladze eq.7 at nf={n}, all nl", ranges=ranges,
                   replay=rp(f"eko.beta:{fname}", cargs, T.subst(T.lift(spec), {"nl": 3}), {}))
        chk.eq(f"C20.qed.dispatch(0,2)[nf={n}]", beta.beta_qed((0, 2), n, nl), specs["beta_qed_aem2"][0], fn="eko.beta:beta_qed")
        chk.eq(f"C20.qed.dispatch(0,3)[nf={n}]", beta.beta_qed((0, 3), n, nl), specs["beta_qed_aem3"][0], fn="eko.beta:beta_qed")
        chk.eq(f"C20.qed.dispatch(1,2)[nf={n}]", beta.beta_qed((1, 2), n, nl), specs["beta_qed_aem2as1"][0], fn="eko.beta:beta_qed")
        chk.eq(f"C20.qcd.dispatch(2,1)[nf={n}]", beta.beta_qcd((2, 1), n), specs["beta_qcd_as2aem1"][0], fn="eko.beta:beta_qcd")
        chk.eq(f"C20.b_qed(0,3)[nf={n}]", beta.b_qed((0, 3), n, nl) * specs["beta_qed_aem2"][0], specs["beta_qed_aem3"][0], fn="eko.beta:b_qed")
        chk.ground(f"C20.uplike_flavors[nf={n}]", constants.uplike_flavors(n) == n // 2, fn="eko.constants:uplike_flavors",
                   goal="number of up-type flavours = floor(nf/2)")
    chk.configs = 7
    chk.extra["exhaustive"] = True

    # 4. dispatchers refuse unknown indices
    for fn_, bad in ((lambda: beta.beta_qcd((6, 0), 4), "beta_qcd((6,0))"), (lambda: beta.beta_qed((0, 4), 4, 3), "beta_qed((0,4))"),
                     (lambda: gamma.gamma(5, 4), "gamma(5)"), (lambda: beta.beta_qcd((3, 1), 4), "beta_qcd((3,1))")):
        try:
            fn_()
            ok = False
        except ValueError:
            ok = True
        chk.ground(f"C20.refuse.{bad}", ok, goal=f"{bad} raises ValueError", detail="no ValueError")
