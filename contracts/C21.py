"""C21 -- scale-variation prescriptions equal their renormalisation-group expansions.

Specification, generated mechanically from the statement (nothing typed by hand):
  * A(a', L) := coupling at mu^2 in terms of a' = a(xi^2 mu^2), L = ln xi^2: the unique power series with
        dA/dL = beta(A),  A(L=0) = a'      (da/dln mu^2 = -beta(a), path from xi^2 mu^2 to mu^2)
    computed by Picard iteration in the truncated ring  R[L][[a']]/(a'^(n+1)).
  * exponentiated:  gamma_bar_j(L) = [a'^(j+1)]  sum_k gamma_k A^(k+1)                    (j < order)
  * expanded:       K(a', L) = truncated path-ordered exponential: dK/dL = Gamma(L) K, K(0) = 1, with
        Gamma(L) = sum_k gamma_k A(a',L)^(k+1);  compared through a'^(order-1).
    gamma_k are free non-commuting symbols (singlet) or commuting symbols (non-singlet).
  * QED variants: the QCD axis gamma[1:,0] as above; gamma[0,2] += beta0_qed gamma[0,1] L  resp.  K += a_em L gamma[0,1]
    exactly when alphaem_running and order[1] >= 2, everything else untouched; the adjusted array is returned
    for both values of alphaem_running.
beta_k are the literature polynomials in symbolic nf (C20's table), so every identity holds for all nf.
"""
from fractions import Fraction as Q

import numpy as np

from pyvc import terms as T
from pyvc.series import Series
from pyvc.free import Free, free_eq_obligations
from pyvc.vnp import AbstractDim
from pyvc.replay import script
from contracts.C20 import spec_beta_qcd, NC, eu2, ed2

LORD = 8  # polynomials in L are exact below this degree (max degree needed: 3)


def Lser():
    return Series.indet("L", LORD)


def picard_A(n, betas):
    """A = a' + sum_{m=2..n} c_m(L) a'^m  as Series in 'ap' with L-Series coefficients."""
    one_L = Series.const("L", Q(1), LORD)
    ap = Series("ap", 1, [one_L] + [Series.const("L", Q(0), LORD)] * (n - 1))
    A = ap
    for _ in range(n):
        rhs = None
        for k, bk in enumerate(betas):
            term = (A ** (k + 2)) * bk
            rhs = term if rhs is None else rhs + term
        # integrate coefficientwise in L
        integ = Series("ap", rhs.val, [c.integ() if isinstance(c, Series) else Series.const("L", c, LORD).integ() for c in rhs.c])
        A = (ap + integ).truncate(n + 1)
    return A


def Lcoeffs(x, deg=4):
    """coefficients of L^0..L^deg of an L-Series / scalar"""
    if isinstance(x, Series):
        return [x.coeff(k) for k in range(deg + 1)]
    return [x] + [Q(0)] * deg


def gamma_of_A(n, gam, A):
    tot = None
    for k in range(n):
        term = (A ** (k + 1)) * gam[k] if not isinstance(gam[k], Free) else _smul(A ** (k + 1), gam[k])
        tot = term if tot is None else tot + term
    return tot


def _smul(series, free_elem):
    """(outer series with L-series coefficients) * free element, coefficientwise"""
    return Series(series.var, series.val, [_lmul(c, free_elem) for c in series.c])


def _lmul(c, f):
    if isinstance(c, Series):
        return Series(c.var, c.val, [x * f if not isinstance(x, Free) else x * f for x in c.c])
    return f * c


REPLAY = '''
P = json.loads(%s)
def replay():
    """independent numeric oracle: integrate the coefficient ODEs d c_m/dL = [a'^m] beta(A), dK_j/dL = sum Gamma_i K_(j-i)
    (truncated series arithmetic in floats) and compare with the native functions"""
    from eko.scale_variations import exponentiated, expanded
    from eko import beta
    from scipy import integrate
    import numpy as np
    nf, L, order = P["nf"], P["L"], tuple(P["order"])
    n = order[0]
    out = []
    bet = [beta.beta_qcd((2 + k, 0), nf) for k in range(4)]
    N = n + 1                       # keep a'^0..a'^n
    def pmul(x, y):                 # truncated polynomial product in a'
        z = np.zeros(N, dtype=complex)
        for i in range(N):
            for j in range(N - i):
                z[i + j] += x[i] * y[j]
        return z
    def ppow(x, k):
        r = np.zeros(N, dtype=complex); r[0] = 1
        for _ in range(k):
            r = pmul(r, x)
        return r
    def rhsA(l, c):
        c = c.view(complex)
        return sum(bet[k] * ppow(c, k + 2) for k in range(n)).view(float)
    c0 = np.zeros(N, dtype=complex); c0[1] = 1
    A = integrate.solve_ivp(rhsA, (0, L), c0.view(float), rtol=1e-12, atol=1e-14).y[:, -1].view(complex)
    g = np.array(P["g"][:n], dtype=complex)
    spec = sum(g[k] * ppow(A, k + 1) for k in range(n))     # coefficients of a'^(j+1)
    res = exponentiated.gamma_variation(g.copy(), order, nf, L)
    if res is None:
        return True, "gamma_variation returned None"
    for j in range(n):
        if abs(spec[j + 1] - res[j]) > 1e-8 * max(1, abs(spec[j + 1])):
            out.append(f"exponentiated gamma[{j}]: native {res[j]} vs RG re-expansion {spec[j+1]}")
    # expanded, non-commuting 2x2 matrices
    rng = np.random.default_rng(7)
    G = rng.normal(size=(4, 2, 2)) + 1j * rng.normal(size=(4, 2, 2))
    Acoef = lambda l: integrate.solve_ivp(rhsA, (0, l), c0.view(float), rtol=1e-12, atol=1e-14).y[:, -1].view(complex) if l > 0 else c0
    def rhsK(l, y):
        K = y.view(complex).reshape(n, 2, 2)
        Al = Acoef(l)
        pw = [ppow(Al, k + 1) for k in range(max(n - 1, 1))]
        dK = np.zeros_like(K)
        for j in range(n):
            for i in range(1, j + 1):
                Gam_i = sum(pw[k][i] * G[k] for k in range(max(n - 1, 1)))
                dK[j] += Gam_i @ K[j - i]
        return dK.reshape(-1).view(float)
    K0 = np.zeros((n, 2, 2), dtype=complex); K0[0] = np.eye(2)
    K = integrate.solve_ivp(rhsK, (0, L), K0.reshape(-1).view(float), rtol=1e-10, atol=1e-12).y[:, -1].view(complex).reshape(n, 2, 2)
    a_s = 0.013
    nat = expanded.singlet_variation(G[:max(n, 1)].copy(), a_s, order, nf, L, 2)
    ref = sum(a_s**j * K[j] for j in range(n))
    if np.max(np.abs(nat - ref)) > 1e-7 * np.max(np.abs(ref)):
        out.append(f"expanded singlet_variation: max deviation {np.max(np.abs(nat - ref))} from the truncated path-ordered exponential")
    natns = expanded.non_singlet_variation(G[:max(n, 1), 0, 0].copy(), a_s, order, nf, L)
    # scalar case: same ODE with 1x1 matrices
    def rhsk(l, y):
        k = y.view(complex); Al = Acoef(l); pw = [ppow(Al, q + 1) for q in range(max(n - 1, 1))]
        d = np.zeros_like(k)
        for j in range(n):
            for i in range(1, j + 1):
                d[j] += sum(pw[q][i] * G[q, 0, 0] for q in range(max(n - 1, 1))) * k[j - i]
        return d.view(float)
    k0 = np.zeros(n, dtype=complex); k0[0] = 1
    kk = integrate.solve_ivp(rhsk, (0, L), k0.view(float), rtol=1e-10, atol=1e-12).y[:, -1].view(complex)
    refns = sum(a_s**j * kk[j] for j in range(n))
    if abs(natns - refns) > 1e-7 * abs(refns):
        out.append(f"expanded non_singlet_variation: native {natns} vs truncated exponential {refns}")
    if P.get("qed"):
        Gq = np.array(P["G"], dtype=complex)
        qo = tuple(P["qorder"])
        for running in (True, False):
            r = exponentiated.gamma_variation_qed(Gq.copy(), qo, nf, 3, L, running)
            if r is None:
                out.append(f"gamma_variation_qed(alphaem_running={running}) returned None")
                continue
            want = Gq.copy()
            want[1:, 0] = exponentiated.gamma_variation(Gq[1:, 0].copy(), qo, nf, L)
            if running and qo[1] >= 2:
                want[0, 2] += beta.beta_qed((0, 2), nf, 3) * Gq[0, 1] * L
            if np.max(np.abs(r - want)) > 1e-10:
                out.append(f"gamma_variation_qed(running={running}) deviates from the documented rule by {np.max(np.abs(r - want))}")
            a_em = 0.0007
            k = expanded.non_singlet_variation_qed(Gq.copy(), a_s, a_em, running, qo, nf, L)
            wk = expanded.non_singlet_variation(Gq[1:, 0].copy(), a_s, qo, nf, L) + (a_em * L * Gq[0, 1] if running and qo[1] >= 2 else 0)
            if abs(k - wk) > 1e-12:
                out.append(f"non_singlet_variation_qed(running={running}) deviates by {abs(k - wk)}")
    return bool(out), "; ".join(out) if out else "native functions agree with the numerical RG re-expansion"
'''


def mk_replay(order, qed=False, qorder=(1, 1)):
    import json

    payload = dict(nf=4, L=0.7, order=list(order), g=[[1.0], [2.5], [-7.0], [31.0]], qed=qed, qorder=list(qorder))
    payload["g"] = [x[0] for x in payload["g"]]
    if qed:
        payload["G"] = [[0.1 * (i + 1) + 0.01 * j for j in range(qorder[1] + 1)] for i in range(qorder[0] + 1)]
    return script(REPLAY % json.dumps(json.dumps(payload)), kind="rg_reexpansion_vs_native")


def run(chk):
    from eko.scale_variations import exponentiated, expanded

    chk.under_contract("eko.scale_variations.exponentiated:gamma_variation", "eko.scale_variations.exponentiated:gamma_variation_qed",
                       "eko.scale_variations.expanded:variation_as1", "eko.scale_variations.expanded:variation_as2", "eko.scale_variations.expanded:variation_as3",
                       "eko.scale_variations.expanded:non_singlet_variation", "eko.scale_variations.expanded:singlet_variation",
                       "eko.scale_variations.expanded:non_singlet_variation_qed", "eko.scale_variations.expanded:singlet_variation_qed",
                       "eko.scale_variations.expanded:valence_variation_qed")
    chk.trust("lemma: the formal power-series solution of dA/dL = beta(A), A(0)=a' (resp. dK/dL = Gamma K, K(0)=1) is unique; Picard iteration computes it order by order",
              "literature beta coefficients as polynomials in nf (C20)")
    nf = T.var("nf")
    betas = [spec_beta_qcd(k, nf) for k in range(4)]
    L = Lser()

    def cmp_L(name, got, want, fn, goal, replay, free=False):
        """compare two L-polynomials (Series in L or scalars) coefficientwise"""
        g, w = Lcoeffs(got), Lcoeffs(want)
        for d in range(len(g)):
            if free or isinstance(g[d], Free) or isinstance(w[d], Free):
                free_eq_obligations(chk, f"{name}.L^{d}", g[d] if isinstance(g[d], Free) else Free({(): g[d]}), w[d] if isinstance(w[d], Free) else Free({(): w[d]}),
                                    fn=fn, goal=goal, replay=replay)
            else:
                chk.eq(f"{name}.L^{d}", g[d], w[d], fn=fn, goal=goal, replay=replay, ranges={"nf": (3, 6)})

    # ---------------------------------------------------------------------------------------------------
    # exponentiated
    # ---------------------------------------------------------------------------------------------------
    fn = "eko.scale_variations.exponentiated:gamma_variation"
    for kind in ("commuting", "noncommuting"):
        for n in (1, 2, 3, 4):
            gam = [T.var(f"g{k}") if kind == "commuting" else Free.sym(f"G{k}") for k in range(4)]
            A = picard_A(n, betas[: max(n - 1, 1)] if False else betas[:n])
            spec = gamma_of_A(n, gam, A)
            arr = np.empty(n, dtype=object)
            for k in range(n):
                arr[k] = gam[k]
            rp = mk_replay((n, 0))
            try:
                res = exponentiated.gamma_variation(arr, (n, 0), nf, L)
            except Exception as e:  # escaping exception = violation of "returns the adjusted array"
                chk.raised(f"C21.exponentiated.{kind}[order={n}].no_exception", e, fn=fn, replay=rp)
                continue
            if res is None:
                chk.fail(f"C21.exponentiated.{kind}[order={n}].returns_array", "returned None", fn=fn, replay=rp)
                continue
            chk.ground(f"C21.exponentiated.{kind}[order={n}].returns_array", res is arr or len(res) == n, fn=fn, goal="returns the adjusted array")
            for j in range(n):
                cmp_L(f"C21.exponentiated.{kind}[order={n}].gamma[{j}]", res[j], spec.coeff(j + 1), fn,
                      f"gamma_bar_{j}(L) == [a'^{j+1}] sum_k gamma_k A(a',L)^(k+1)", rp, free=(kind != "commuting"))
            chk.configs += 1

    # exponentiated on genuine (order, d, d) arrays (numpy view / in-place aliasing semantics of the real code):
    # gamma_bar_j is linear in the gamma_k with scalar coefficients c_jk(L) read off the free-algebra specification
    from contracts.common import symmat
    for n in (1, 2, 3, 4):
        gamF = [Free.sym(f"G{k}") for k in range(4)]
        A = picard_A(n, betas[:n])
        specF = gamma_of_A(n, gamF, A)
        for d in (2,):
            Garr = np.empty((n, d, d), dtype=object)
            for k in range(n):
                Garr[k] = symmat(f"m{k}_", d)
            G0 = Garr.copy()
            rp = mk_replay((n, 0))
            try:
                res = exponentiated.gamma_variation(Garr, (n, 0), nf, L)
            except Exception as e:
                chk.raised(f"C21.exponentiated.array[order={n},d={d}].no_exception", e, fn=fn, replay=rp)
                continue
            for j in range(n):
                cj = specF.coeff(j + 1)      # L-series with Free coefficients sum_k c_jk(L) G_k
                for r_ in range(d):
                    for c_ in range(d):
                        want = None
                        for k in range(n):
                            ck = Series("L", cj.val, [x.coeff((f"G{k}",)) if isinstance(x, Free) else Q(0) for x in cj.c]) if isinstance(cj, Series) else (cj.coeff((f"G{k}",)) if isinstance(cj, Free) else Q(0))
                            term = ck * G0[k, r_, c_]
                            want = term if want is None else want + term
                        cmp_L(f"C21.exponentiated.array[order={n},d={d}].gamma[{j}][{r_},{c_}]", res[j][r_, c_], want, fn,
                              "matrix-valued input (numpy views): gamma_bar_j == sum_k c_jk(L) gamma_k entrywise", rp)
    # expanded singlet kernel on genuine (order, 2, 2) arrays: distinguishes @ from elementwise *
    for n in (1, 2, 3, 4):
        d = 2
        Garr = np.empty((max(n, 1), d, d), dtype=object)
        for k in range(max(n, 1)):
            Garr[k] = symmat(f"m{k}_", d)
        rp = mk_replay((n, 0))
        a_s_ = T.var("a_s")
        resM = expanded.singlet_variation(Garr.copy(), a_s_, (n, 0), nf, L, d)
        # specification: the free-algebra kernel with each word evaluated as a matrix product
        gamF = [Free.sym(f"G{k}") for k in range(4)]
        from contracts import C21 as _self
        KF = _spec_K_free(n, gamF, betas)
        for j in range(n):
            Kj = KF.coeff(j) if j < KF.prec else Q(0)
            Mj = _eval_words(Kj, {f"G{k}": Garr[k] for k in range(max(n, 1))}, d)   # d x d array of L-series
            csM = _matrix_as_coeffs(resM, n, d)
            for r_ in range(d):
                for c_ in range(d):
                    cmp_L(f"C21.expanded.array[order={n}].K_{j}[{r_},{c_}]", csM[j][r_][c_], Mj[r_][c_], "eko.scale_variations.expanded:singlet_variation",
                          "2x2 symbolic matrices: [a'^j] K == path-ordered exponential with genuine matrix products", rp)

    # ---------------------------------------------------------------------------------------------------
    # expanded: K = P exp
    # ---------------------------------------------------------------------------------------------------
    a_s = T.var("a_s")

    def spec_K(n, gam, order_left=True):
        """coefficients K_j(L), j = 0..n-1 of the truncated path-ordered exponential (Gamma K ordering)."""
        A = picard_A(max(n - 1, 1), betas[: max(n - 1, 1)])
        nn = max(n - 1, 1)
        Gam = gamma_of_A(nn, gam, A)  # starts at a'^1
        # Picard:  K <- 1 + int_0^L Gamma K
        def const_series(x):
            return Series.const("L", x, LORD)
        free = isinstance(gam[0], Free)
        one = Free.one() if free else Q(1)
        K = Series("ap", 0, [const_series(one)] + [const_series(Q(0))] * (n - 1)) if n > 1 else Series("ap", 0, [const_series(one)])
        for _ in range(n):
            prod = _sermul(Gam, K, order_left)
            integ = Series("ap", prod.val, [c.integ() for c in prod.c])
            K = (Series("ap", 0, [const_series(one)] + [const_series(Q(0))] * (n - 1)) + integ).truncate(n) if n > 1 else K
        return K

    def _sermul(X, Y, left):
        """outer-series product with L-series coefficients over possibly non-commuting scalars"""
        return X * Y if left else Y * X

    for n in (1, 2, 3, 4):
        # non-singlet: commuting scalars
        gam = [T.var(f"g{k}") for k in range(4)]
        arr = np.array(gam[:max(n, 1)], dtype=object)
        fn = "eko.scale_variations.expanded:non_singlet_variation"
        rp = mk_replay((n, 0))
        res = expanded.non_singlet_variation(arr, Series.indet("ap", n + 1) if False else a_s, (n, 0), nf, L)
        K = spec_K(n, gam)
        # code result is a polynomial in a_s with L-series coefficients: extract by differentiating w.r.t. a_s
        _compare_K(chk, f"C21.expanded.ns[order={n}]", res, K, n, fn, rp, cmp_L, free=False)
        # singlet: free symbols, abstract dimension
        gamF = [Free.sym(f"G{k}") for k in range(4)]
        arrF = np.empty(max(n, 1), dtype=object)
        for k in range(max(n, 1)):
            arrF[k] = gamF[k]
        fn = "eko.scale_variations.expanded:singlet_variation"
        resF = expanded.singlet_variation(arrF, a_s, (n, 0), nf, L, AbstractDim("dim"))
        for left in (True, False):
            KF = spec_K(n, gamF, left)
            _compare_K(chk, f"C21.expanded.singlet[order={n},{'Gamma.K' if left else 'K.Gamma'}]", resF, KF, n, fn, rp, cmp_L, free=True)
        chk.configs += 1

    # ---------------------------------------------------------------------------------------------------
    # QED variants
    # ---------------------------------------------------------------------------------------------------
    a_em = T.var("a_em")
    for n in (1, 2, 3, 4):
        for m in (0, 1, 2):
            for running in (True, False):
                for nfc, nl in ((3, 2), (4, 3), (5, 3), (6, 3), (4, 2), (5, 2)):      # the number of leptons is 2 or 3: enumerated (a symbolic nl in an nf slot would be undecidable)
                    if chk.tier == "quick" and (nfc, nl) not in ((4, 3), (5, 3), (5, 2)):
                        continue
                    tag = f"C21.qed[order=({n},{m}),running={running},nf={nfc},nl={nl}]"
                    fn = "eko.scale_variations.exponentiated:gamma_variation_qed"
                    G = np.empty((n + 1, m + 1), dtype=object)
                    for i in range(n + 1):
                        for j in range(m + 1):
                            G[i, j] = T.var(f"g{i}_{j}")
                    G0 = G.copy()
                    rp = mk_replay((n, 0), qed=True, qorder=(n, m))
                    try:
                        res = exponentiated.gamma_variation_qed(G, (n, m), nfc, nl, L, running)
                    except T.Unsupported as e:
                        chk.error(f"{tag}.exponentiated.no_exception", f"unsupported construct: {e}")
                        continue
                    except Exception as e:
                        chk.raised(f"{tag}.exponentiated.no_exception", e, fn=fn, replay=rp)
                        continue
                    if res is None:
                        chk.fail(f"{tag}.exponentiated.returns_array", "gamma_variation_qed returned None (the adjusted anomalous dimensions are not returned)", fn=fn, replay=rp,
                                 goal="always returns the adjusted anomalous dimensions")
                        continue
                    chk.ground(f"{tag}.exponentiated.returns_array", True, fn=fn, goal="always returns the adjusted anomalous dimensions")
                    # QCD axis
                    qcd = exponentiated.gamma_variation(G0[1:, 0].copy(), (n, m), nfc, L)
                    nu = nfc // 2
                    b0qed = -Q(4, 3) * (nl + NC * (nu * eu2 + (nfc - nu) * ed2))
                    for i in range(n + 1):
                        for j in range(m + 1):
                            if j == 0 and i >= 1:
                                want = qcd[i - 1]
                            elif i == 0 and j == 2 and running and m >= 2:
                                want = G0[0, 2] + b0qed * G0[0, 1] * L
                            else:
                                want = G0[i, j]
                            cmp_L(f"{tag}.exponentiated.gamma[{i},{j}]", res[i, j], want, fn, "QCD axis re-expanded; [0,2] += beta0_qed gamma[0,1] L iff running and order[1]>=2; rest untouched", rp)
                    # expanded kernels
                    for kname, f, dim in (("non_singlet_variation_qed", expanded.non_singlet_variation_qed, None),
                                          ("singlet_variation_qed", expanded.singlet_variation_qed, 4), ("valence_variation_qed", expanded.valence_variation_qed, 2)):
                        if chk.tier == "quick" and nfc != 4:
                            continue
                        fn2 = f"eko.scale_variations.expanded:{kname}"
                        if dim is None:
                            Gq = G0.copy()
                            got = f(Gq, a_s, a_em, running, (n, m), nfc, L)
                            want = expanded.non_singlet_variation(G0[1:, 0], a_s, (n, m), nfc, L)
                            if running and m >= 2:
                                want = want + a_em * L * G0[0, 1]
                            _cmp_as(chk, f"{tag}.expanded.{kname}", got, want, fn2, rp, cmp_L, n)
                        else:
                            GF = np.empty((n + 1, m + 1), dtype=object)
                            for i in range(n + 1):
                                for j in range(m + 1):
                                    GF[i, j] = Free.sym(f"G{i}_{j}")
                            # the QED functions pass a literal dimension: run them with eye() replaced by the abstract unit
                            from pyvc import vnp
                            saved = vnp.eye
                            vnp.eye = lambda *a, **k: Free.one()
                            try:
                                got = f(GF, a_s, a_em, running, (n, m), nfc, L)
                                want = expanded.singlet_variation(GF[1:, 0], a_s, (n, m), nfc, L, dim)
                            finally:
                                vnp.eye = saved
                            if running and m >= 2:
                                want = want + GF[0, 1] * (a_em * L) if isinstance(L, (T.Sym, Q, int)) else want + _lmul(L * a_em, GF[0, 1])
                            _cmp_as(chk, f"{tag}.expanded.{kname}", got, want, fn2, rp, cmp_L, n, free=True)
                    chk.configs += 1
    chk.extra["exhaustive"] = chk.tier == "thorough"


def _poly_coeffs_in(sym_or_series, var, n):
    """coefficients of var^0..var^(n-1) of a polynomial expression (Sym / Free / L-Series over them)."""
    raise NotImplementedError


def _as_coeffs(x, n):
    """x is a polynomial in the Sym variable a_s (and a_em) whose coefficients are L-series over Sym/Free.
    Return [coefficient of a_s^j] for j < n, obtained by substituting / differentiating structurally."""
    from pyvc.series import Series as S

    def sub(v, val):
        if isinstance(v, S):
            return S(v.var, v.val, [sub(c, val) for c in v.c])
        if isinstance(v, Free):
            return Free({w: sub(c, val) for w, c in v.t.items()})
        if isinstance(v, T.Sym):
            return T.subst(v, val)
        return v

    def dif(v, name):
        if isinstance(v, S):
            return S(v.var, v.val, [dif(c, name) for c in v.c])
        if isinstance(v, Free):
            return Free({w: dif(c, name) for w, c in v.t.items()})
        if isinstance(v, T.Sym):
            return T.diff(v, name)
        return Q(0)

    out = []
    cur = x
    fact = 1
    for j in range(n):
        out.append(_scale(sub(cur, {"a_s": 0}), Q(1, fact)))
        cur = dif(cur, "a_s")
        fact *= j + 1
    return out


def _scale(v, q):
    from pyvc.series import Series as S

    if isinstance(v, S):
        return S(v.var, v.val, [_scale(c, q) for c in v.c])
    return v * q


def _compare_K(chk, name, res, K, n, fn, rp, cmp_L, free):
    cs = _as_coeffs(res, n)
    for j in range(n):
        want = K.coeff(j) if j < K.prec else Q(0)
        cmp_L(f"{name}.K_{j}", cs[j], want, fn, f"[a'^{j}] K == [a'^{j}] Pexp(int_0^L Gamma)", rp, free=free)
    # nothing beyond the working order: degree of res in a_s is < n
    top = _as_coeffs(res, n + 1)[n]
    cmp_L(f"{name}.no_higher_order", top, Q(0), fn, f"no a'^{n} term (truncation at the working order)", rp, free=free)


def _cmp_as(chk, name, got, want, fn, rp, cmp_L, n, free=False):
    """compare two polynomials in (a_s, a_em) with L-series coefficients: by coefficients in a_s and a_em"""
    from pyvc.series import Series as S

    def sub(v, val):
        if isinstance(v, S):
            return S(v.var, v.val, [sub(c, val) for c in v.c])
        if isinstance(v, Free):
            return Free({w: sub(c, val) for w, c in v.t.items()})
        if isinstance(v, T.Sym):
            return T.subst(v, val)
        return v

    d = got - want
    # all coefficients (in L, words) must vanish identically in a_s, a_em: poly-NF treats a_s, a_em as variables
    cmp_L(name, d, Q(0), fn, "QED kernel == QCD variation of gamma[1:,0] (+ a_em L gamma[0,1] iff running and order[1]>=2)", rp, free=free)


def _spec_K_free(n, gamF, betas):
    """free-algebra specification of the expanded kernel (Gamma.K ordering), outer series in a' with L-series coefficients"""
    A = picard_A(max(n - 1, 1), betas[: max(n - 1, 1)])
    Gam = gamma_of_A(max(n - 1, 1), gamF, A)
    one = Free.one()
    cs = lambda x: Series.const("L", x, LORD)
    K0 = Series("ap", 0, [cs(one)] + [cs(Q(0))] * (n - 1)) if n > 1 else Series("ap", 0, [cs(one)])
    K = K0
    for _ in range(n):
        if n == 1:
            break
        prod = Gam * K
        integ = Series("ap", prod.val, [c.integ() for c in prod.c])
        K = (K0 + integ).truncate(n)
    return K


def _eval_words(Lser_free, mats, d):
    """evaluate an L-series (or scalar) with Free coefficients on concrete symbolic matrices -> d x d nested list of L-series"""
    import numpy as np
    from pyvc import vnp

    def ev(f):
        tot = vnp.zeros((d, d))
        if not isinstance(f, Free):
            return vnp.eye(d) * f
        for w, c in f.t.items():
            M = vnp.eye(d)
            for sname in w:
                M = M @ mats[sname]
            tot = tot + M * c
        return tot

    if isinstance(Lser_free, Series):
        mats_by_pow = [ev(c) for c in Lser_free.c]
        out = [[None] * d for _ in range(d)]
        for r in range(d):
            for c in range(d):
                out[r][c] = Series("L", Lser_free.val, [m[r, c] for m in mats_by_pow])
        return out
    m = ev(Lser_free)
    return [[m[r, c] for c in range(d)] for r in range(d)]


def _matrix_as_coeffs(resM, n, d):
    """resM: d x d array of polynomials in a_s with L-series coefficients -> [j][r][c]"""
    out = [[[None] * d for _ in range(d)] for _ in range(n)]
    for r in range(d):
        for c in range(d):
            cs = _as_coeffs(resM[r, c], n)
            for j in range(n):
                out[j][r][c] = cs[j]
    return out
