"""C22 -- backward matching and decoupling inversions are true inverses.

  * build_ome(A, (n,0), a, FORWARD) . build_ome(A, (n,0), a, BACKWARD_EXPANDED) = 1 + O(a^(n+1)), both orders, n = 0..3,
    with A_0, A_1, A_2 generic symbolic 2x2 and 3x3 matrices (all entries independent indeterminates: an identity of degree
    <= 3 in the A's that holds for generic 2x2 matrices holds in the free algebra -- Amitsur-Levitzki: no polynomial identity
    of degree < 4 exists for 2x2 matrices).
  * BACKWARD_EXACT = inv(forward): forward . exact = exact . forward = 1 (exactly).
  * couplings.invert_matching_coeffs / compute_matching_coeffs_down and msbar_masses.compute_matching_coeffs_down:
    x' = x (1 + sum_n x^n sum_l c[n,l] L^l)  composed with the inverted coefficients gives x + O(x^5), symbolic c, L.
"""
from fractions import Fraction as Q

import numpy as np

from pyvc import terms as T
from pyvc import vnp
from pyvc.series import Series
from pyvc.replay import script
from contracts.common import symmat, arr_coeffs_in

REPLAY = '''
def replay():
    from eko.evolution_operator.quad_ker import build_ome, MatchingMethods as MM
    from eko import couplings, msbar_masses
    rng = np.random.default_rng(3)
    out = []
    for dim in (2, 3):
        A = rng.normal(size=(3, dim, dim)) + 1j * rng.normal(size=(3, dim, dim))
        for n in (0, 1, 2, 3):
            errs = []
            for a in (1e-2, 5e-3, 2.5e-3):
                f = build_ome(A, (n, 0), a, MM.FORWARD); b = build_ome(A, (n, 0), a, MM.BACKWARD_EXPANDED)
                errs.append(max(np.max(np.abs(f @ b - np.eye(dim))), np.max(np.abs(b @ f - np.eye(dim)))))
                e = build_ome(A, (n, 0), a, MM.BACKWARD_EXACT)
                if np.max(np.abs(f @ e - np.eye(dim))) > 1e-10: out.append(f"exact backward is not the inverse (n={n}, dim={dim})")
            # error must scale like a^(n+1): halving a divides it by >= 2^(n+1) (up to 30 percent)
            if errs[0] > 1e-13 and n < 3 or n == 3:
                r = errs[0] / max(errs[1], 1e-300)
                if errs[0] > 1e-12 and r < 0.7 * 2 ** (n + 1): out.append(f"forward.backward_expanded - 1 scales like a^{np.log2(r):.2f}, expected a^{n+1} (n={n}, dim={dim})")
    for scheme in ("POLE", "MSBAR"):
        for nf in (3, 4, 5):
            up = couplings.compute_matching_coeffs_up(scheme, nf); dn = couplings.compute_matching_coeffs_down(scheme, nf)
            L = 0.37
            def app(c, x): return x * (1 + sum(x**n * L**l * c[n, l] for n in range(1, 4) for l in range(n + 1)))
            e1, e2 = [abs(app(dn, app(up, x)) - x) for x in (0.02, 0.01)]
            if e1 > 1e-13 and e1 / e2 < 0.7 * 32: out.append(f"coupling decoupling {scheme} nf={nf}: down(up(x)) - x scales like x^{np.log2(e1/e2):.2f}, expected x^5")
            mu = msbar_masses.compute_matching_coeffs_up(nf); md = msbar_masses.compute_matching_coeffs_down(nf)
    return bool(out), "; ".join(sorted(set(out))) if out else "native build_ome / decoupling inversions behave as inverses to the stated order"
'''


def run(chk):
    from eko.evolution_operator import quad_ker
    from eko.evolution_operator.quad_ker import build_ome, MatchingMethods as MM
    from eko import couplings, msbar_masses

    fn = "eko.evolution_operator.quad_ker:build_ome"
    chk.under_contract(fn, "eko.couplings:invert_matching_coeffs", "eko.couplings:compute_matching_coeffs_down",
                       "eko.msbar_masses:compute_matching_coeffs_down")
    chk.trust("Amitsur-Levitzki: a polynomial identity of degree < 2n that holds for generic n x n matrices holds in the free algebra (n=2, degree <= 3)",
              "np.linalg.inv: 2x2 / 3x3 adjugate formula (exact inverse)")
    rp = script(REPLAY, kind="inverse_scaling_oracle")
    a = T.var("a_s")
    for dim in (2, 3):
        A = np.empty((3, dim, dim), dtype=object)
        for k in range(3):
            A[k] = symmat(f"A{k}_", dim)
        Id = vnp.eye(dim)
        for n in (0, 1, 2, 3):
            f = build_ome(A, (n, 0), a, MM.FORWARD)
            b = build_ome(A, (n, 0), a, MM.BACKWARD_EXPANDED)
            for nm, prod in (("fwd.bwd", f @ b), ("bwd.fwd", b @ f)):
                cs = arr_coeffs_in(prod, "a_s", n + 1)
                for k in range(n + 1):
                    chk.eq_array(f"C22.ome[dim={dim},n={n}].{nm}.a^{k}", cs[k], Id if k == 0 else vnp.zeros((dim, dim)), fn=fn,
                                 goal="forward x expanded-backward == 1 + O(a^(n+1))", replay=rp)
            if dim == 2 or chk.tier == "thorough" or n <= 1:
                e = build_ome(A, (n, 0), a, MM.BACKWARD_EXACT)
                chk.eq_array(f"C22.ome[dim={dim},n={n}].fwd.exact", f @ e, Id, fn=fn, goal="forward x exact-backward == 1", replay=rp)
                chk.eq_array(f"C22.ome[dim={dim},n={n}].exact.fwd", e @ f, Id, fn=fn, goal="exact-backward x forward == 1", replay=rp)
            # the forward operator is the plain polynomial 1 + sum a^k A_{k-1}
            want = Id
            for k in range(n):
                want = want + a ** (k + 1) * A[k]
            chk.eq_array(f"C22.ome[dim={dim},n={n}].forward_is_polynomial", f, want, fn=fn, goal="forward == 1 + sum_k a^k A_(k-1), k <= n", replay=rp)

    # ---- decoupling coefficient inversion --------------------------------------------------------------
    L = T.var("L")
    c = np.empty((4, 4), dtype=object)
    for n in range(4):
        for l in range(4):
            c[n, l] = T.var(f"c{n}{l}") if (1 <= n and l <= n and (n, l) != (1, 0)) else Q(0)

    def apply(coef, x):
        tot = 1
        for n in range(1, 4):
            for l in range(n + 1):
                tot = tot + (x**n) * (L**l * coef[n, l])
        return x * tot

    x = Series.indet("x", 6)
    for name, inv in (("eko.couplings:invert_matching_coeffs", couplings.invert_matching_coeffs),):
        d = inv(c)
        for tag, comp in (("down(up(x))", apply(d, apply(c, x))), ("up(down(x))", apply(c, apply(d, x)))):
            for k in range(1, 5):
                want = Q(1) if k == 1 else Q(0)
                # coefficient of x^k is a polynomial in L: compare as polynomial identity in (c, L)
                chk.eq(f"C22.decoupling.{tag}.x^{k}", comp.coeff(k), want, fn=name, goal=f"{tag} == x + O(x^5)", replay=rp)
    # the concrete tables: down = invert(up) for both schemes and every nf
    nf = T.var("nf")
    for scheme in ("POLE", "MSBAR"):
        up = couplings.compute_matching_coeffs_up(scheme, nf)
        dn = couplings.compute_matching_coeffs_down(scheme, nf)
        for tag, comp in (("down(up(x))", apply(dn, apply(up, x))), ("up(down(x))", apply(up, apply(dn, x)))):
            for k in range(1, 5):
                chk.eq(f"C22.decoupling.couplings[{scheme}].{tag}.x^{k}", comp.coeff(k), Q(1) if k == 1 else Q(0),
                       fn="eko.couplings:compute_matching_coeffs_down", goal="down o up == id through x^4, all nf", replay=rp)
    # ... and at the place where the tables are USED: Couplings.a with the running switched off (compute replaced by "return the coupling it was given") applies
    # only the decoupling factors.  Crossing a threshold upwards from (mu0, nf) and, with the result as the new reference, downwards again must give back the
    # coupling it started from through the order of the object: a_back == a + O(a^(order+1)), for every heavy quark, both schemes, any matching ratio.
    from eko import matchings
    from eko.couplings import Couplings
    fna = "eko.couplings:Couplings.a"
    chk.under_contract(fna)
    c_, b_, t_, mu0, muf = (T.var(v) for v in ("mc2", "mb2", "mt2", "mu0", "muf"))
    MT2 = Q(1777, 1000) ** 2
    req = [mu0 > MT2, muf > MT2, c_ > MT2, c_ <= b_, b_ <= t_]
    ratios = [T.var("kc"), T.var("kb"), T.var("kt")]

    def ghost(order, scheme, ref_scale, ref_nf, a_ref):
        obj = object.__new__(Couplings)
        obj.order, obj.method, obj.alphaem_running, obj.decoupled_running = (order, 0), "expanded", False, False
        obj.a_ref = np.array([a_ref, Q(0)], dtype=object)
        obj.thresholds_ratios = list(ratios)
        obj.atlas = matchings.Atlas([c_, b_, t_], (ref_scale, ref_nf))
        obj.hqm_scheme = scheme
        obj.cache = {}
        obj.compute = lambda a_, nf_, nl_, frm_, to_: a_.copy()      # no running: only the decoupling acts
        return obj

    for scheme in ("POLE", "MSBAR"):
        for order in (2, 3, 4):
            for nf_lo in (3, 4, 5):
                tagc = f"C22.decoupling.in_Couplings_a[{scheme},order={order},nf={nf_lo}<->{nf_lo + 1}]"
                xa = Series.indet("x", order + 2)
                hyp = req + [r > 0 for r in ratios]
                ups = chk.run_paths(tagc + ".up", lambda: ghost(order, scheme, mu0, nf_lo, xa).a(muf, nf_lo + 1), hyp, fn=fna, replay=rp)
                for ptu, _pc, a_up in ups:
                    downs = chk.run_paths(ptu + ".down", lambda: ghost(order, scheme, muf, nf_lo + 1, a_up[0]).a(mu0, nf_lo), hyp, fn=fna, replay=rp)
                    for ptd, _pc2, a_back in downs:
                        ser = a_back[0]
                        ok_type = isinstance(ser, Series)
                        chk.ground(f"{ptd}.is_a_series_in_the_coupling", ok_type, fn=fna, goal="the result is the decoupling series applied to the reference coupling", detail=repr(ser)[:200], replay=rp)
                        if not ok_type:
                            continue
                        for k in range(1, order + 1):
                            chk.eq(f"{ptd}.a^{k}", ser.coeff(k), Q(1) if k == 1 else Q(0), fn=fna, replay=rp,
                                   goal="down(up(a)) == a + O(a^(order+1)): the downward step uses the inverse of the upward table of the SAME threshold (same nf, same matching ratio)")
                chk.configs += 1
    # mass decoupling: m^(nf+1) = m^(nf) F_up(a), m^(nf) = m^(nf+1) F_down(a) with the *same* coupling a (evolve() uses the
    # (nf+1)-flavour coupling in both directions): F_up F_down = 1 + O(a^4)
    up = msbar_masses.compute_matching_coeffs_up(nf)
    dn = msbar_masses.compute_matching_coeffs_down(nf)

    def factor(coef, xx):
        tot = 1
        for n in range(1, 4):
            for l in range(n + 1):
                tot = tot + (xx**n) * (L**l * coef[n, l])
        return tot

    xs = Series.indet("x", 5)
    prod = factor(up, xs) * factor(dn, xs)
    for k in range(0, 4):
        chk.eq(f"C22.decoupling.msbar_mass.up_times_down.a^{k}", prod.coeff(k), Q(1) if k == 0 else Q(0),
               fn="eko.msbar_masses:compute_matching_coeffs_down", goal="F_up(a) F_down(a) == 1 + O(a^4), all nf, all L", replay=rp)
    chk.ground("C22.decoupling.msbar_mass.no_order_a_term", all(up[1, l] == 0 for l in range(4)), fn="eko.msbar_masses:compute_matching_coeffs_up",
               goal="mass decoupling starts at O(a^2) (so the coupling-series inversion formula applies to the factor)")
