"""C23 -- matrix exponentials and eigen-projectors.

exp_matrix_2D(M) for a symbolic 2x2 matrix M (requires distinct eigenvalues, i.e. det-atom != 0):
   e+ e- = e- e+ = 0, e+-^2 = e+-, e+ + e- = 1, M = l+ e+ + l- e-, l+ + l- = tr M, l+ l- = det M,
   exp = e- exp(l-) + e+ exp(l+)
(lemma *spectral calculus*: f(M) = sum f(l_i) P_i for such a decomposition  =>  exp is the matrix exponential).
All are polynomial identities modulo s^2 = (m00-m11)^2 + 4 m01 m10, hence valid over C for either branch of the root.
exp_matrix(M) (dims 2 and 4): relative to the assumed LAPACK contract  M V = V diag(w), V invertible  (imposed by
parametrising M := V diag(w) V^-1 with symbolic V, w): e_i e_j = delta_ij e_i, sum e_i = 1, M = sum w_i e_i, exp = sum exp(w_i) e_i.
"""
from fractions import Fraction as Q

import os

import numpy as np

from pyvc import terms as T
from pyvc import vnp
from pyvc.replay import script

REPLAY = '''
def replay():
    from ekore import anomalous_dimensions as ad
    from scipy.linalg import expm
    rng = np.random.default_rng(11)
    out = []
    mats = [rng.normal(size=(2, 2)) + 1j * rng.normal(size=(2, 2)) for _ in range(20)]
    for kind in ("lower", "upper", "diag"):
        for _ in range(3):
            M = rng.normal(size=(2, 2)) + 0j
            if kind in ("lower", "diag"): M[0, 1] = 0
            if kind in ("upper", "diag"): M[1, 0] = 0
            mats.append(M)
    for M in mats:
        try:
            e, lp, lm, ep, em = ad.exp_matrix_2D(M)
        except Exception as ex:
            out.append(f"exp_matrix_2D raised {type(ex).__name__} on {M.tolist()}"); continue
        ref = expm(M)
        if not np.allclose(e, ref, rtol=1e-9, atol=1e-11): out.append(f"exp_matrix_2D != expm on {M.tolist()}")
        if not np.allclose(ep @ em, 0, atol=1e-10) or not np.allclose(ep @ ep, ep, atol=1e-10) or not np.allclose(ep + em, np.eye(2), atol=1e-10): out.append("projector algebra")
        if not np.allclose(lp * ep + lm * em, M, atol=1e-10): out.append("spectral reconstruction")
    for dim in (2, 4):
        for _ in range(10):
            M = rng.normal(size=(dim, dim)) + 1j * rng.normal(size=(dim, dim))
            e, w, es = ad.exp_matrix(M)
            if not np.allclose(e, expm(M), rtol=1e-8, atol=1e-10): out.append(f"exp_matrix dim {dim} != expm")
            if not np.allclose(sum(es), np.eye(dim), atol=1e-9): out.append(f"sum of projectors dim {dim}")
            if not np.allclose(sum(wi * ei for wi, ei in zip(w, es)), M, atol=1e-8): out.append(f"reconstruction dim {dim}")
    out = sorted(set(out))
    return bool(out), "; ".join(out) if out else "native exp_matrix_2D / exp_matrix agree with scipy.linalg.expm and the projector algebra on 40 random matrices"
'''


def run(chk):
    from ekore import anomalous_dimensions as ad

    fn2 = "ekore.anomalous_dimensions:exp_matrix_2D"
    fnn = "ekore.anomalous_dimensions:exp_matrix"
    chk.under_contract(fn2, fnn)
    chk.trust("lemma spectral calculus: if M = sum l_i P_i with P_i P_j = delta_ij P_i, sum P_i = 1 then exp(M) = sum exp(l_i) P_i",
              "assumed LAPACK contract for np.linalg.eig: returns (w, V) with M V = V diag(w), V invertible (diagonalisable input is a precondition)")
    chk.uncovered("numerical accuracy / conditioning of LAPACK eig and of the closed form for nearly degenerate eigenvalues")
    rp = script(REPLAY, kind="expm_oracle")
    m = np.empty((2, 2), dtype=object)
    for i in range(2):
        for j in range(2):
            m[i, j] = T.var(f"m{i}{j}")
    I2 = vnp.eye(2)
    Z2 = vnp.zeros((2, 2))
    try:
        generic = ad.exp_matrix_2D(m)
    except T.Unsupported as e:      # e.g. an implementation that branches on the entries: the generic clause is undecided, the concrete clauses below still speak
        generic = None
        chk.error("C23.2D.generic_matrix", f"undecided for a fully symbolic matrix: {e}")
    if generic is not None:
        exp, lp, lm, ep, em = generic
        chk.eq_array("C23.2D.ep_em_zero", ep @ em, Z2, fn=fn2, goal="e+ e- == 0", replay=rp)
        chk.eq_array("C23.2D.em_ep_zero", em @ ep, Z2, fn=fn2, goal="e- e+ == 0", replay=rp)
        chk.eq_array("C23.2D.ep_idempotent", ep @ ep, ep, fn=fn2, goal="e+^2 == e+", replay=rp)
        chk.eq_array("C23.2D.em_idempotent", em @ em, em, fn=fn2, goal="e-^2 == e-", replay=rp)
        chk.eq_array("C23.2D.complete", ep + em, I2, fn=fn2, goal="e+ + e- == 1", replay=rp)
        chk.eq_array("C23.2D.reconstruct", lp * ep + lm * em, m, fn=fn2, goal="M == l+ e+ + l- e-", replay=rp)
        chk.eq("C23.2D.trace", lp + lm, m[0, 0] + m[1, 1], fn=fn2, goal="l+ + l- == tr M", replay=rp)
        chk.eq("C23.2D.det", lp * lm, m[0, 0] * m[1, 1] - m[0, 1] * m[1, 0], fn=fn2, goal="l+ l- == det M", replay=rp)
        chk.eq_array("C23.2D.exp_is_spectral_sum", exp, em * T.app("exp", lm) + ep * T.app("exp", lp), fn=fn2, goal="exp == e- exp(l-) + e+ exp(l+)", replay=rp)
    # concrete complex matrices with well separated eigenvalues, among them some whose discriminant (a-d)^2 + 4bc is purely imaginary or purely real negative: run natively
    # on the tree under check (complex floats), compared with the spectral definition through the returned projectors and with the power series of exp
    import subprocess as _sp, sys as _sys, json as _json
    from pyvc import hook as _hook
    code = """
import json, numpy as np
from ekore import anomalous_dimensions as ad
cases = {"imaginary_discriminant_diag": [[1+1j, 0], [0, 0]], "imaginary_discriminant_full": [[0.5, 2], [3j, 0.5]], "imaginary_discriminant_triangular": [[2+2j, 1.5], [0, 0]],
         "negative_discriminant": [[0, 1], [-1, 0]], "generic_complex": [[0.3-0.2j, 1.1+0.4j], [0.7j, -0.9+0.1j]], "real_symmetric": [[1.0, 0.5], [0.5, -0.25]]}
out = {}
for name, M in cases.items():
    M = np.array(M, dtype=complex)
    try:
        e, lp, lm, ep, em = ad.exp_matrix_2D(M)
        ref, term = np.eye(2, dtype=complex), np.eye(2, dtype=complex)
        for k in range(1, 60):
            term = term @ M / k
            ref = ref + term
        out[name] = dict(exp=float(np.max(np.abs(e - ref))), rec=float(np.max(np.abs(lp * ep + lm * em - M))), comp=float(np.max(np.abs(ep + em - np.eye(2)))), orth=float(np.max(np.abs(ep @ em))))
    except Exception as ex:
        out[name] = dict(error=f"{type(ex).__name__}: {ex}")
print("@@" + json.dumps(out))
"""
    env = dict(os.environ, PYTHONPATH=_hook.REPO_SRC[0], NUMBA_DISABLE_JIT="1")
    pr = _sp.run([_sys.executable, "-c", code], capture_output=True, text=True, env=env, timeout=600)
    line = next((l for l in pr.stdout.splitlines() if l.startswith("@@")), None)
    if line is None:
        chk.error("C23.2D.concrete_complex", f"native run failed: {pr.stderr[-300:]}")
    else:
        for name, r in _json.loads(line[2:]).items():
            ok = "error" not in r and max(r["exp"], r["rec"], r["comp"], r["orth"]) <= 1e-10
            chk.ground(f"C23.2D.concrete_complex[{name}]", ok, fn=fn2, replay=rp, backend="native-run(bounded)", detail=str(r),
                       goal="native complex floats: exp equals the power series, M == l+ e+ + l- e-, e+ + e- == 1, e+ e- == 0 (to 1e-10) for a concrete matrix with well separated eigenvalues")
    # structured inputs (exact zeros in the off-diagonal): the closed form must not divide by an exact zero
    for sname, zeros_at in (("upper_triangular", [(1, 0)]), ("lower_triangular", [(0, 1)]), ("diagonal", [(0, 1), (1, 0)])):
        ms = m.copy()
        for idx in zeros_at:
            ms[idx] = Q(0)
        for pt, pc, res in chk.run_paths(f"C23.2D.{sname}", lambda: ad.exp_matrix_2D(ms), [], fn=fn2, replay=rp, goal="no exception on a triangular / diagonal matrix with distinct eigenvalues"):
            e_, lp_, lm_, ep_, em_ = res
            chk.eq_array(f"{pt}.reconstruct", lp_ * ep_ + lm_ * em_, ms, fn=fn2, goal="M == l+ e+ + l- e-", replay=rp)
            chk.eq_array(f"{pt}.complete", ep_ + em_, I2, fn=fn2, goal="e+ + e- == 1", replay=rp)
            chk.eq_array(f"{pt}.ep_em_zero", ep_ @ em_, Z2, fn=fn2, goal="e+ e- == 0", replay=rp)
            chk.eq_array(f"{pt}.exp_is_spectral_sum", e_, em_ * T.app("exp", lm_) + ep_ * T.app("exp", lp_), fn=fn2, goal="exp == e- exp(l-) + e+ exp(l+)", replay=rp)

    # exp_matrix, dims 2 and 4 relative to the eig contract
    for dim in (2, 4):
        V = np.empty((dim, dim), dtype=object)
        w = np.empty(dim, dtype=object)
        for i in range(dim):
            w[i] = T.var(f"w{i}")
            for j in range(dim):
                V[i, j] = T.var(f"v{i}{j}")
        if dim == 4 and chk.tier == "quick":
            # quick tier: block-structured eigenvector matrix keeps the 4x4 cofactors small; thorough uses the dense one
            for (i, j) in ((0, 2), (0, 3), (1, 3), (2, 0), (3, 0), (3, 1)):
                V[i, j] = Q(0)
        Vinv = vnp.linalg.inv(V)
        M = V @ np.diag(w) @ Vinv if False else (V * w[None, :]) @ Vinv
        saved = dict(vnp._HOOKS)
        vnp._HOOKS["linalg.eig"] = lambda mat: (w.copy(), V.copy())
        try:
            # every feasible path of exp_matrix (a closed-form shortcut for some inputs would be one): the same contract on each
            paths = chk.run_paths(f"C23.eig[dim={dim}]", lambda: ad.exp_matrix(M), [], fn=fnn, replay=rp)
        finally:
            vnp._HOOKS.clear()
            vnp._HOOKS.update(saved)
        Id = vnp.eye(dim)
        Z = vnp.zeros((dim, dim))
        for ptag, pc, (exp, ww, e) in paths:
            tot = Z
            rec = Z
            spec = Z
            for i in range(dim):
                tot = tot + e[i]
                rec = rec + ww[i] * e[i]
                spec = spec + e[i] * T.app("exp", ww[i])
                for j in range(dim):
                    if dim == 4 and chk.tier == "quick" and (i, j) not in ((0, 0), (0, 1), (1, 2), (2, 2), (3, 0), (3, 3)):
                        continue
                    chk.eq_array(f"{ptag}.e{i}e{j}", e[i] @ e[j], e[i] if i == j else Z, fn=fnn, goal="e_i e_j == delta_ij e_i", replay=rp)
            chk.eq_array(f"{ptag}.complete", tot, Id, fn=fnn, goal="sum_i e_i == 1", replay=rp)
            chk.eq_array(f"{ptag}.reconstruct", rec, M, fn=fnn, goal="sum_i w_i e_i == M", replay=rp)
            chk.eq_array(f"{ptag}.exp_is_spectral_sum", exp, spec, fn=fnn, goal="exp == sum_i exp(w_i) e_i", replay=rp)

    # degenerate and structured inputs of exp_matrix (the generic proof above lives in a fraction field: A2 says nothing where a denominator vanishes):
    # multiples of the identity (the QED valence matrix at alpha_em = 0 below NNLO is one), the zero matrix, diagonal matrices with distinct entries
    for dim in (2, 4):
        cases = [("zero", [Q(0)] * dim), ("multiple_of_identity", [Q(3, 2)] * dim), ("diagonal_distinct", [Q(k + 1, 2) for k in range(dim)]),
                 ("diagonal_with_a_repeated_entry", [Q(1, 2)] * 2 + [Q(k + 2) for k in range(dim - 2)])]
        for cname, diag in cases:
            M = np.empty((dim, dim), dtype=object)
            M[:] = Q(0)
            for i, d_ in enumerate(diag):
                M[i, i] = d_
            saved = dict(vnp._HOOKS)
            vnp._HOOKS["linalg.eig"] = lambda mat, diag=diag, dim=dim: (np.array(diag, dtype=object), vnp.eye(dim))      # eig of a diagonal matrix: its entries, unit vectors
            tagd = f"C23.eig[dim={dim}].{cname}"
            try:
                paths = chk.run_paths(tagd, lambda: ad.exp_matrix(M), [], fn=fnn, replay=rp, goal="no exception on a diagonal / degenerate matrix")
            finally:
                vnp._HOOKS.clear()
                vnp._HOOKS.update(saved)
            want = np.empty((dim, dim), dtype=object)
            want[:] = Q(0)
            for i, d_ in enumerate(diag):
                want[i, i] = T.app("exp", T.lift(d_)) if d_ != 0 else Q(1)
            for ptag, pc, (exp, ww, e) in paths:
                chk.eq_array(f"{ptag}.exp", exp, want, fn=fnn, replay=rp, goal="exp(diag(d)) == diag(exp(d))")
                tot = sum((e[i] for i in range(dim)), vnp.zeros((dim, dim)))
                chk.eq_array(f"{ptag}.complete", tot, vnp.eye(dim), fn=fnn, replay=rp, goal="sum_i e_i == 1")

