"""C24 -- harmonic sums equal their definitions and satisfy their recurrences; the shared cache is transparent (exact clauses).

cern_polygamma is replaced by its contract (contracts/harmonic_spec.py: the polygamma function in normalised form); everything else of ekore.harmonics runs as it is.
  (1) definitions at positive integers, N = 1..60 (exact rational arithmetic, zeta / ln2 / gamma_E atoms cancel):
          S_k(N) == sum_{j<=N} 1/j^k ,   S_{-k}(N) == sum_{j<=N} (-1)^j / j^k      k = 1..5, with the matching parity flag (and with the flag left to (-1)^N)
  (2) one-step recurrences for SYMBOLIC complex N:
          S_k(N+1) - S_k(N) == 1/(N+1)^k ;      S_{-k}(N+1; opposite parity) - S_{-k}(N; parity) == -+ 1/(N+1)^k
          recursive_harmonic_sum(base, n, it, w) == base + sum_{i<=it} 1/(n+i)^w
  (3) cache transparency (representation invariant: every slot is NaN or its specification value):  for each of the 31 keys, each parity flag, and EVERY
      pre-state that satisfies the invariant on the slots the lookup can read (all subsets), cache.get returns the specification value (= direct evaluation,
      e.g. S1ph = S1((N+1)/2), S1p2 = S1(N+2), g3p2 = g3(N+2, S1(N+2))), fills only slots with their specification values and touches no other slot.
      Hence any lookup order returns the values of direct evaluation (induction over the sequence of lookups).  With the default flag (None, the sign is (-1)^N itself) the
      lookup on a fresh cache equals the direct evaluation for every key at N = 1, 2, 3, 4, 5, 8.
Not claimed: the nested sums S21, S31, S211, S-21, ... against their definitions (they contain the numerically approximated Mellin transforms g3..g22),
the Mellin transforms against their defining integrals, and the numerical accuracy of cern_polygamma itself.  Real-analyticity is C26.
"""
import itertools
from fractions import Fraction as Q

import numpy as np

from pyvc import terms as T
from pyvc import vnp
from pyvc.replay import script

REPLAY = '''
def replay():
    from ekore.harmonics import cache as c, w1, w2, w3, w4, w5
    from ekore.harmonics.polygamma import recursive_harmonic_sum
    out = []
    W = {1: (w1.S1, w1.Sm1), 2: (w2.S2, w2.Sm2), 3: (w3.S3, w3.Sm3), 4: (w4.S4, w4.Sm4), 5: (w5.S5, w5.Sm5)}
    for N in (1, 2, 3, 4, 7, 10, 25, 60):
        for k in range(1, 6):
            S, Sm = W[k]
            ref = sum(1.0 / j**k for j in range(1, N + 1)); refm = sum((-1.0) ** j / j**k for j in range(1, N + 1))
            if abs(S(N) - ref) > 1e-9 * max(1, abs(ref)): out.append(f"S{k}({N}) = {S(N)} != {ref}")
            got = Sm(N, S(N), S((N - 1) / 2), S(N / 2), N % 2 == 0)
            if abs(got - refm) > 1e-9: out.append(f"S-{k}({N}) = {got} != {refm}")
    rng = np.random.default_rng(24)
    for _ in range(4):
        N = complex(rng.uniform(0.8, 20), rng.uniform(-8, 8))
        for k in range(1, 6):
            S = W[k][0]
            if abs(S(N + 1) - S(N) - 1 / (N + 1) ** k) > 1e-9: out.append(f"recurrence of S{k} at N={N}")
        for flag in (True, False):
            keys = list(range(c.CACHE_SIZE))
            direct = {key: c.get(key, c.reset(), N, flag) for key in keys}
            for key, want in ((c.S1ph, w1.S1((N + 1) / 2)), (c.S2ph, w2.S2((N + 1) / 2)), (c.S3ph, w3.S3((N + 1) / 2)), (c.S1p2, w1.S1(N + 2)), (c.S1h, w1.S1(N / 2)), (c.S2mh, w2.S2((N - 1) / 2))):
                if abs(direct[key] - want) > 1e-10 * max(1, abs(want)): out.append(f"cache key {key}: {direct[key]} but direct evaluation gives {want}")
            rng.shuffle(keys)
            cache = c.reset()
            for key in keys:
                got = c.get(key, cache, N, flag)
                if abs(got - direct[key]) > 1e-10 * max(1, abs(direct[key])): out.append(f"cache key {key} flag {flag}: {got} after other lookups, {direct[key]} directly")
    return bool(out), "; ".join(out[:5]) if out else "harmonic sums and cache agree with definitions natively"
'''


def run(chk):
    from ekore.harmonics import cache as c, w1, w2, w3, w4, w5, g_functions as gf
    from ekore.harmonics import polygamma as pgm
    from contracts import harmonic_spec

    rp = script(REPLAY, kind="harmonics_oracle")
    chk.under_contract("ekore.harmonics.w1:S1", "ekore.harmonics.w1:Sm1", "ekore.harmonics.w2:S2", "ekore.harmonics.w2:Sm2", "ekore.harmonics.w3:S3", "ekore.harmonics.w3:Sm3",
                       "ekore.harmonics.w4:S4", "ekore.harmonics.w4:Sm4", "ekore.harmonics.w5:S5", "ekore.harmonics.w5:Sm5", "ekore.harmonics.polygamma:recursive_harmonic_sum",
                       "ekore.harmonics.polygamma:symmetry_factor", "ekore.harmonics.cache:get", "ekore.harmonics.cache:update", "ekore.harmonics.cache:update_Sm1", "ekore.harmonics.cache:update_Sm2",
                       "ekore.harmonics.cache:reset")
    chk.trust("contract of cern_polygamma (contracts/harmonic_spec.py): polygamma recurrence and closed forms at integer / half-integer arguments (Abramowitz-Stegun 6.3, 6.4)",
              "lemma: induction over the sequence of lookups from the cache invariant")
    chk.uncovered("nested sums (S21, S2m1, Sm21, Sm2m1, S31, Sm31, Sm22, S211, Sm211) against their defining double / triple sums: they contain the approximated Mellin transforms g3..g22",
                  "Mellin transforms of the logarithmic and g-functions against their defining integrals (numerical integration)", "floating-point accuracy of cern_polygamma")
    undo = harmonic_spec.install()
    W = {1: (w1.S1, w1.Sm1), 2: (w2.S2, w2.Sm2), 3: (w3.S3, w3.Sm3), 4: (w4.S4, w4.Sm4), 5: (w5.S5, w5.Sm5)}
    try:
        # ---- (1) definitions at positive integers ---------------------------------------------------------------------------------------------
        for k in range(1, 6):
            S, Sm = W[k]
            got, want, gotm, wantm, gotn = [], [], [], [], []
            for N in range(1, 61):
                got.append(S(Q(N)))
                want.append(sum((Q(1, j ** k) for j in range(1, N + 1)), Q(0)))
                hS, hSmh, hSh = S(Q(N)), S(Q(N - 1, 2)), S(Q(N, 2))
                gotm.append(Sm(Q(N), hS, hSmh, hSh, N % 2 == 0))
                gotn.append(Sm(N, hS, hSmh, hSh, None))
                wantm.append(sum((Q((-1) ** j, j ** k) for j in range(1, N + 1)), Q(0)))
            chk.eq_array(f"C24.definition.S{k}[N=1..60]", np.array(got, dtype=object), np.array(want, dtype=object), fn=f"ekore.harmonics.w{k}:S{k}", replay=rp, goal=f"S_{k}(N) == sum_(j<=N) 1/j^{k} exactly")
            chk.eq_array(f"C24.definition.Sm{k}[N=1..60,parity flag]", np.array(gotm, dtype=object), np.array(wantm, dtype=object), fn=f"ekore.harmonics.w{k}:Sm{k}", replay=rp, goal=f"S_(-{k})(N) == sum_(j<=N) (-1)^j/j^{k} exactly, flag = (N even)")
            chk.eq_array(f"C24.definition.Sm{k}[N=1..60,(-1)^N]", np.array(gotn, dtype=object), np.array(wantm, dtype=object), fn=f"ekore.harmonics.w{k}:Sm{k}", replay=rp, goal=f"the same with the parity taken from (-1)^N")
        # ---- (2) recurrences, symbolic N -----------------------------------------------------------------------------------------------------------
        N = T.var("N")
        RG = {"N": (0.7, 6.0)}
        for k in range(1, 6):
            S, Sm = W[k]
            chk.eq(f"C24.recurrence.S{k}", S(N + 1) - S(N), 1 / (N + 1) ** k, fn=f"ekore.harmonics.w{k}:S{k}", replay=rp, goal=f"S_{k}(N+1) - S_{k}(N) == 1/(N+1)^{k} for symbolic N", ranges=RG)
            for even in (True, False):
                a = Sm(N, S(N), S((N - 1) / 2), S(N / 2), even)
                b = Sm(N + 1, S(N + 1), S(N / 2), S((N + 1) / 2), not even)
                sign = -1 if even else 1      # N even: the new term (-1)^(N+1)/(N+1)^k is negative
                chk.eq(f"C24.recurrence.Sm{k}[N {'even' if even else 'odd'}]", b - a, sign / (N + 1) ** k, fn=f"ekore.harmonics.w{k}:Sm{k}", replay=rp, ranges=RG,
                       goal=f"S_(-{k})(N+1; opposite parity) - S_(-{k})(N; parity) == (-1)^(N+1)/(N+1)^{k}")
        base, n = T.var("base"), T.var("n")
        for it in (1, 2, 3):
            for w in (1, 2, 3):
                chk.eq(f"C24.recursive_harmonic_sum[iterations={it},weight={w}]", pgm.recursive_harmonic_sum(base, n, it, w), base + sum(1 / (n + i) ** w for i in range(1, it + 1)), fn="ekore.harmonics.polygamma:recursive_harmonic_sum",
                       replay=rp, goal="base + sum_(i<=iterations) 1/(n+i)^weight", ranges={"n": (0.5, 5.0), "base": (0.5, 2.0)})
        for flag, want in ((True, 1), (False, -1)):
            chk.eq(f"C24.symmetry_factor[{flag}]", pgm.symmetry_factor(N, flag), want, fn="ekore.harmonics.polygamma:symmetry_factor", goal="+1 for the singlet-like (even) continuation, -1 otherwise", replay=rp)

        # ---- (3) cache transparency ---------------------------------------------------------------------------------------------------------------------
        def spec(flag, N=N):
            s = {}
            s[c.S1], s[c.S2], s[c.S3], s[c.S4], s[c.S5] = w1.S1(N), w2.S2(N), w3.S3(N), w4.S4(N), w5.S5(N)
            s[c.S1h], s[c.S2h], s[c.S3h] = w1.S1(N / 2), w2.S2(N / 2), w3.S3(N / 2)
            s[c.S1mh], s[c.S2mh], s[c.S3mh] = w1.S1((N - 1) / 2), w2.S2((N - 1) / 2), w3.S3((N - 1) / 2)
            s[c.S1ph], s[c.S2ph], s[c.S3ph] = w1.S1((N + 1) / 2), w2.S2((N + 1) / 2), w3.S3((N + 1) / 2)
            s[c.S1p2] = w1.S1(N + 2)
            s[c.Sm1] = w1.Sm1(N, s[c.S1], s[c.S1mh], s[c.S1h], flag)
            s[c.Sm2] = w2.Sm2(N, s[c.S2], s[c.S2mh], s[c.S2h], flag)
            s[c.Sm3] = w3.Sm3(N, s[c.S3], s[c.S3mh], s[c.S3h], flag)
            s[c.Sm4] = w4.Sm4(N, s[c.S4], w4.S4((N - 1) / 2), w4.S4(N / 2), flag)
            s[c.Sm5] = w5.Sm5(N, s[c.S5], w5.S5((N - 1) / 2), w5.S5(N / 2), flag)
            s[c.g3] = gf.mellin_g3(N, s[c.S1])
            s[c.g3p2] = gf.mellin_g3(N + 2, s[c.S1p2])
            s[c.S21] = w3.S21(N, s[c.S1], s[c.S2])
            s[c.S31] = w4.S31(N, s[c.S1], s[c.S2], s[c.S3], s[c.S4])
            s[c.S211] = w4.S211(N, s[c.S1], s[c.S2], s[c.S3])
            s[c.Sm21] = w3.Sm21(N, s[c.S1], s[c.Sm1], flag)
            s[c.Sm211] = w4.Sm211(N, s[c.S1], s[c.S2], s[c.Sm1], flag)
            s[c.S2m1] = w3.S2m1(N, s[c.S2], s[c.Sm1], s[c.Sm2], flag)
            s[c.Sm2m1] = w3.Sm2m1(N, s[c.S1], s[c.S2], s[c.Sm2])
            s[c.Sm31] = w4.Sm31(N, s[c.S1], s[c.Sm1], s[c.Sm2], flag)
            s[c.Sm22] = w4.Sm22(N, s[c.S1], s[c.S2], s[c.Sm2], s[c.Sm31], flag)
            return s

        names = {getattr(c, n): n for n in dir(c) if isinstance(getattr(c, n), int) and n not in ("CACHE_SIZE",) and not n.startswith("_")}

        def is_nan(x):
            return isinstance(x, vnp.NaNType)

        def tasks():
            for flag in (True, False):
                for key in range(c.CACHE_SIZE):
                    yield (flag, key)

        def worker(chk, task):
            flag, key = task
            SPEC = spec(flag)
            nm = names.get(key, str(key))
            fnc = "ekore.harmonics.cache:get"
            cache0 = c.reset()
            c.get(key, cache0, N, flag)
            deps = [i for i in range(c.CACHE_SIZE) if not is_nan(cache0[i]) and i != key]
            lhs, rhs, frame_bad, inv_l, inv_r = [], [], [], [], []
            n_states = 0
            for r in range(len(deps) + 1):
                for pre in itertools.combinations(deps, r):
                    n_states += 1
                    cache = c.reset()
                    for i in pre:
                        cache[i] = SPEC[i]
                    got = c.get(key, cache, N, flag)
                    lhs.append(got)
                    rhs.append(SPEC[key])
                    for i in range(c.CACHE_SIZE):
                        if is_nan(cache[i]):
                            continue
                        if i not in deps and i != key:
                            frame_bad.append(f"pre-state {sorted(names[j] for j in pre)}: slot {names.get(i, i)} outside the footprint was written")
                        inv_l.append(cache[i])
                        inv_r.append(SPEC[i])
            t = f"C24.cache[{nm},singlet={flag}]"
            chk.eq_array(f"{t}.returns_specification", np.array(lhs, dtype=object), np.array(rhs, dtype=object), fn=fnc, replay=rp, ranges=RG,
                         goal=f"get returns the direct-evaluation value from each of the {n_states} invariant pre-states of its footprint {sorted(names[j] for j in deps)}")
            chk.eq_array(f"{t}.invariant_preserved", np.array(inv_l, dtype=object), np.array(inv_r, dtype=object), fn=fnc, replay=rp, ranges=RG, goal="every filled slot holds its specification value afterwards")
            chk.ground(f"{t}.frame", not frame_bad, fn=fnc, replay=rp, goal="no slot outside the footprint of the first lookup is written from any pre-state", detail="; ".join(frame_bad[:2]))
            chk.configs += n_states

        chk.parallel(list(tasks()), worker)
        # the default flag (None: the sign is (-1)^N itself) at positive integers: a lookup on a fresh cache returns the direct-evaluation value of every key
        for Nv in (1, 2, 3, 4, 5, 8):
            SPECN = spec(None, Q(Nv))
            lhs, rhs = [], []
            for key in range(c.CACHE_SIZE):
                lhs.append(c.get(key, c.reset(), Q(Nv), None))
                rhs.append(SPECN[key])
            chk.eq_array(f"C24.cache[default flag,N={Nv}].returns_specification", np.array(lhs, dtype=object), np.array(rhs, dtype=object), fn="ekore.harmonics.cache:get", replay=rp,
                         goal="is_singlet=None at a positive integer: get(key) on a fresh cache == direct evaluation with the same flag, for each of the 31 keys")
    finally:
        undo()
    chk.extra["exhaustive"] = True
