"""C25 -- anomalous dimensions obey momentum and fermion-number sum rules (exact clauses).

cern_polygamma is replaced by its contract (contracts/harmonic_spec.py), so the harmonic sums at N = 1, 2 become exact expressions in rationals, zeta values, ln 2.
  (1) leading order, exactly (every nf 3-6):
        unpolarised space-like   gamma_qq(2) + gamma_gq(2) == 0,  gamma_qg(2) + gamma_gg(2) == 0  [momentum];   gamma_ns(1) == 0  [quark number]
        time-like (fragmentation convention: second moments D_Sigma = 2 nf, D_g = 1)   2 nf gamma_qq(2) + gamma_qg-slot(2) == 0 row-wise;   gamma_ns(1) == 0
        polarised                gamma_ns(1) == 0  [axial charge],   gamma_qg(1) == 0,   gamma_gg(1) == - beta_0
        QED-extended             at the orders (1,0), (0,1) the rows g, photon, Sigma of each column of gamma_singlet_qed(2) sum to zero exactly; at (1,1), (0,2) exactly where the
                                 expressions are exact, else within 1e-5 of the largest entry (a ground numerical evaluation);
                                 gamma_valence_qed(1) == 0 and gamma_ns_qed(1) == 0 for the minus modes
  (2) FHMRUVV N3LO parametrisations, for SYMBOLIC N and every nf they support: the central variation equals the mean of the down and up variations, for each of
      gg, gq, qg, ps, ns+, ns-, nsv and for the assembled N3LO singlet block.
Not claimed: the sum rules beyond leading order and of the N3LO parametrisations -- they hold "within the documented accuracy of the parametrisation" only
(numerical tolerances that the code does not state), and the limits N -> 1 of expressions with removable poles.
"""
from fractions import Fraction as Q

import numpy as np

from pyvc import terms as T
from pyvc.replay import script

REPLAY = '''
def replay():
    import importlib
    us = importlib.import_module("ekore.anomalous_dimensions.unpolarized.space_like")
    ut = importlib.import_module("ekore.anomalous_dimensions.unpolarized.time_like")
    ps = importlib.import_module("ekore.anomalous_dimensions.polarized.space_like")
    from eko import beta
    out = []
    for nf in (3, 4, 5, 6):
        g = us.gamma_singlet((1, 0), 2.0, nf, (0,) * 7, True)[0]
        if max(abs(g[0, 0] + g[1, 0]), abs(g[0, 1] + g[1, 1])) > 1e-12: out.append(f"nf={nf}: LO momentum sum rule (space-like) violated: {g[0,0]+g[1,0]}, {g[0,1]+g[1,1]}")
        if abs(us.gamma_ns((1, 0), 10201, 1.0, nf, (0,) * 7, True)[0]) > 1e-12: out.append(f"nf={nf}: LO gamma_ns(1) != 0")
        t = ut.gamma_singlet((1, 0), 2.0, nf)[0]
        if max(abs(2 * nf * t[0, 0] + t[0, 1]), abs(2 * nf * t[1, 0] + t[1, 1])) > 1e-11: out.append(f"nf={nf}: LO momentum sum rule (time-like) violated")
        p = ps.gamma_singlet((1, 0), 1.0, nf)[0]
        if abs(p[0, 1]) > 1e-12 or abs(p[1, 1] + beta.beta_qcd((2, 0), nf)) > 1e-12: out.append(f"nf={nf}: polarised LO first moments: qg={p[0,1]}, gg+beta0={p[1,1] + beta.beta_qcd((2,0), nf)}")
        G = us.gamma_singlet_qed((1, 1), 2.0, nf, (0,) * 7, True)
        for ij in ((1, 0), (0, 1)):
            s = np.abs(G[ij][:3, :].sum(axis=0)).max()
            if s > 1e-11: out.append(f"nf={nf}: QED momentum sum rule at order {ij}: {s}")
    rng = np.random.default_rng(25)
    for nf in (3, 4, 5):
        N = complex(rng.uniform(1.5, 5), rng.uniform(-2, 2))
        gs = [us.gamma_singlet((4, 0), N, nf, (v,) * 7, True)[3] for v in (0, 1, 2)]
        if np.max(np.abs(gs[0] - (gs[1] + gs[2]) / 2)) > 1e-9 * np.max(np.abs(gs[0])): out.append(f"nf={nf}: FHMRUVV singlet central != mean of the variations")
        for mode in (10101, 10201, 10200):
            gn = [us.gamma_ns((4, 0), mode, N, nf, (v,) * 7, True)[3] for v in (0, 1, 2)]
            if abs(gn[0] - (gn[1] + gn[2]) / 2) > 1e-9 * abs(gn[0]): out.append(f"nf={nf} mode={mode}: FHMRUVV non-singlet central != mean of the variations")
    return bool(out), "; ".join(out[:4]) if out else "LO sum rules and the FHMRUVV mean rule hold natively"
'''


def run(chk):
    import importlib
    us = importlib.import_module("ekore.anomalous_dimensions.unpolarized.space_like")
    ut = importlib.import_module("ekore.anomalous_dimensions.unpolarized.time_like")
    ps = importlib.import_module("ekore.anomalous_dimensions.polarized.space_like")
    fh = importlib.import_module("ekore.anomalous_dimensions.unpolarized.space_like.as4.fhmruvv")
    from ekore.harmonics import cache as hc
    from eko import beta
    from contracts import harmonic_spec

    rp = script(REPLAY, kind="sum_rule_oracle")
    chk.under_contract(*[f"ekore.anomalous_dimensions.{v}:{f}" for v in ("unpolarized.space_like", "unpolarized.time_like", "polarized.space_like") for f in ("gamma_ns", "gamma_singlet")],
                       *[f"ekore.anomalous_dimensions.{v}.as1:*" for v in ("unpolarized.space_like", "unpolarized.time_like", "polarized.space_like")],
                       "ekore.anomalous_dimensions.unpolarized.space_like:gamma_singlet_qed", "ekore.anomalous_dimensions.unpolarized.space_like:gamma_valence_qed", "ekore.anomalous_dimensions.unpolarized.space_like:gamma_ns_qed",
                       "ekore.anomalous_dimensions.unpolarized.space_like.aem1:*", *[f"ekore.anomalous_dimensions.unpolarized.space_like.as4.fhmruvv:{f}" for f in ("gamma_gg", "gamma_gq", "gamma_qg", "gamma_ps", "gamma_nsp", "gamma_nsm", "gamma_nsv", "gamma_singlet")])
    chk.trust("contract of cern_polygamma (contracts/harmonic_spec.py): closed forms at integer / half-integer arguments", "time-like convention: second moments of the fragmentation functions D_Sigma = 2 nf, D_g = 1 (derivation in DESIGN.md, C25)")
    chk.uncovered("sum rules beyond leading order and of the N3LO parametrisations: they hold within parametrisation accuracy only (no tolerance is documented in the code)",
                  "N -> 1 limits of expressions with removable poles (e.g. NNLO valence)")
    undo = harmonic_spec.install()
    try:
        # ---- (1) leading-order sum rules, exactly ----------------------------------------------------------------------------------------------
        for nf in (3, 4, 5, 6):
            g = us.gamma_singlet((1, 0), Q(2), nf, (0,) * 7, True)[0]
            chk.eq_array(f"C25.lo.us.momentum[nf={nf}]", np.array([g[0, 0] + g[1, 0], g[0, 1] + g[1, 1]], dtype=object), np.array([Q(0), Q(0)], dtype=object), fn="ekore.anomalous_dimensions.unpolarized.space_like:gamma_singlet", replay=rp,
                         goal="gamma_qq(2) + gamma_gq(2) == 0 and gamma_qg(2) + gamma_gg(2) == 0")
            for mode in (10101, 10201, 10200):
                chk.eq(f"C25.lo.us.quark_number[nf={nf},mode={mode}]", us.gamma_ns((1, 0), mode, Q(1), nf, (0,) * 7, True)[0], 0, fn="ekore.anomalous_dimensions.unpolarized.space_like:gamma_ns", goal="LO gamma_ns(1) == 0", replay=rp)
            t = ut.gamma_singlet((1, 0), Q(2), nf)[0]
            chk.eq_array(f"C25.lo.ut.momentum[nf={nf}]", np.array([2 * nf * t[0, 0] + t[0, 1], 2 * nf * t[1, 0] + t[1, 1]], dtype=object), np.array([Q(0), Q(0)], dtype=object), fn="ekore.anomalous_dimensions.unpolarized.time_like:gamma_singlet", replay=rp,
                         goal="fragmentation convention: each row r satisfies 2 nf gamma[r, Sigma](2) + gamma[r, g](2) == 0")
            chk.eq(f"C25.lo.ut.quark_number[nf={nf}]", ut.gamma_ns((1, 0), 10201, Q(1), nf)[0], 0, fn="ekore.anomalous_dimensions.unpolarized.time_like:gamma_ns", goal="LO gamma_ns(1) == 0", replay=rp)
            p = ps.gamma_singlet((1, 0), Q(1), nf)[0]
            chk.eq(f"C25.lo.ps.qg_first_moment[nf={nf}]", p[0, 1], 0, fn="ekore.anomalous_dimensions.polarized.space_like:gamma_singlet", goal="polarised gamma_qg(1) == 0", replay=rp)
            chk.eq(f"C25.lo.ps.gg_first_moment[nf={nf}]", p[1, 1], -beta.beta_qcd((2, 0), nf), fn="ekore.anomalous_dimensions.polarized.space_like:gamma_singlet", goal="polarised gamma_gg(1) == -beta_0", replay=rp)
            chk.eq(f"C25.lo.ps.axial_charge[nf={nf}]", ps.gamma_ns((1, 0), 10101, Q(1), nf)[0], 0, fn="ekore.anomalous_dimensions.polarized.space_like:gamma_ns", goal="polarised gamma_ns(1) == 0", replay=rp)
            G = us.gamma_singlet_qed((1, 1), Q(2), nf, (0,) * 7, True)
            for ij in ((1, 0), (0, 1)):
                sums = np.array([sum((G[ij][r, c] for r in range(3)), Q(0)) for c in range(4)], dtype=object)
                chk.eq_array(f"C25.lo.qed.momentum[nf={nf},order={ij}]", sums, np.array([Q(0)] * 4, dtype=object), fn="ekore.anomalous_dimensions.unpolarized.space_like:gamma_singlet_qed", replay=rp,
                             goal="gluon + photon + Sigma rows of every column sum to zero at N = 2")
            # orders (1,1) and (0,2): exact where the expressions are, otherwise to the accuracy of the approximated Mellin transforms they contain
            from pyvc import poly as _P
            G2 = us.gamma_singlet_qed((1, 2), Q(2), nf, (0,) * 7, True)
            for ij in ((1, 1), (0, 2)):
                for col in range(4):
                    ssum = T.lift(sum((G2[ij][r, col] for r in range(3)), Q(0)))
                    exact = (ssum.is_const() and ssum.const() == 0) or _P.prove_zero(ssum)[0]
                    if exact:
                        chk.ground(f"C25.qed.momentum[nf={nf},order={ij},column={col}]", True, fn="ekore.anomalous_dimensions.unpolarized.space_like:gamma_singlet_qed", replay=rp, backend="poly-NF",
                                   goal="gluon + photon + Sigma rows of the column sum to zero at N = 2 (exactly)")
                    else:
                        res = abs(complex(T.evalmp(ssum, {}, 40)))
                        scale = max(abs(complex(T.evalmp(T.lift(G2[ij][r, col]), {}, 40))) for r in range(3))
                        chk.ground(f"C25.qed.momentum[nf={nf},order={ij},column={col}]", res <= 1e-5 * max(1.0, scale), fn="ekore.anomalous_dimensions.unpolarized.space_like:gamma_singlet_qed", replay=rp, backend="exact-eval+mpmath",
                                   goal="gluon + photon + Sigma rows of the column sum to zero at N = 2 within 1e-5 of the largest entry (approximated Mellin transforms inside)", detail=f"residual {res:.3e}, scale {scale:.3e}")
            V = us.gamma_valence_qed((1, 1), Q(1), nf, (0,) * 7, True)
            for ij in ((1, 0), (0, 1)):
                chk.eq_array(f"C25.lo.qed.valence_number[nf={nf},order={ij}]", V[ij], np.array([[Q(0)] * 2] * 2, dtype=object), fn="ekore.anomalous_dimensions.unpolarized.space_like:gamma_valence_qed", replay=rp, goal="gamma_valence_qed(1) == 0")
            for mode in (10202, 10203):
                gn = us.gamma_ns_qed((1, 1), mode, Q(1), nf, (0,) * 7, True)
                chk.eq_array(f"C25.lo.qed.minus_number[nf={nf},mode={mode}]", np.array([gn[1, 0], gn[0, 1]], dtype=object), np.array([Q(0), Q(0)], dtype=object), fn="ekore.anomalous_dimensions.unpolarized.space_like:gamma_ns_qed", replay=rp, goal="gamma_ns-(1) == 0 at orders (1,0) and (0,1)")
            chk.configs += 1

        # ---- (2) FHMRUVV: central == mean of the variations, symbolic N ---------------------------------------------------------------------------
        N = T.var("N")
        RG = {"N": (1.6, 6.0)}
        def worker(chk, task):
            nf, name = task
            f = getattr(fh, name)
            try:
                if name == "gamma_singlet":
                    gs = [f(N, nf, hc.reset(), (v,) * 7) for v in (0, 1, 2)]
                    chk.eq_array(f"C25.fhmruvv_mean.gamma_singlet[nf={nf}]", gs[0], (gs[1] + gs[2]) / 2, fn="ekore.anomalous_dimensions.unpolarized.space_like.as4.fhmruvv:gamma_singlet", replay=rp, ranges=RG, goal="assembled N3LO singlet block: central == mean of the variations")
                else:
                    vals = [f(N, nf, hc.reset(), v) for v in (0, 1, 2)]
                    chk.eq(f"C25.fhmruvv_mean.{name}[nf={nf}]", vals[0], (vals[1] + vals[2]) / 2, fn=f"ekore.anomalous_dimensions.unpolarized.space_like.as4.fhmruvv:{name}", replay=rp, ranges=RG,
                           goal="central variation == (down + up) / 2 for every N")
            except NotImplementedError:
                chk.ground(f"C25.fhmruvv_mean.{name}[nf={nf}].not_available", True, fn=f"ekore.anomalous_dimensions.unpolarized.space_like.as4.fhmruvv:{name}", goal="nf not provided by the parametrisation (refused)", replay=rp)

        chk.parallel([(nf, name) for nf in (3, 4, 5) for name in ("gamma_gg", "gamma_gq", "gamma_qg", "gamma_ps", "gamma_nsp", "gamma_nsm", "gamma_nsv", "gamma_singlet")], worker)
    finally:
        undo()
    chk.extra["exhaustive"] = True
