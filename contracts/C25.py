"""C25 -- anomalous dimensions obey momentum and fermion-number sum rules (exact clauses).

cern_polygamma is replaced by its contract (contracts/harmonic_spec.py), so the harmonic sums at N = 1, 2 become exact expressions in rationals, zeta values, ln 2.
  (1) leading order, exactly (every nf 3-6):
        unpolarised space-like   gamma_qq(2) + gamma_gq(2) == 0,  gamma_qg(2) + gamma_gg(2) == 0  [momentum];   gamma_ns(1) == 0  [quark number]
        time-like (fragmentation convention: second moments D_Sigma = 2 nf, D_g = 1)   2 nf gamma_qq(2) + gamma_qg-slot(2) == 0 row-wise;   gamma_ns(1) == 0
        polarised                gamma_ns(1) == 0  [axial charge],   gamma_qg(1) == 0,   gamma_gg(1) == - beta_0
        QED-extended             at the orders (1,0), (0,1) the rows g, photon, Sigma of each column of gamma_singlet_qed(2) sum to zero exactly; at (1,1), (0,2) exactly where the
                                 expressions are exact, else within 1e-5 of the largest entry (a ground numerical evaluation);
                                 gamma_valence_qed(1) == 0 and gamma_ns_qed(1) == 0 for the minus modes
  (2) FHMRUVV N3LO parametrisations, for SYMBOLIC N and every nf they support: the central variation equals the mean of the down and up variations, for each of
      gg, gq, qg, ps, ns+, ns-, nsv and for the assembled N3LO singlet block.
  (3) beyond leading order (unpolarised space-like orders 2-4 with both N3LO parametrisations and every variation index, time-like and polarised orders 2-3, every nf):
      the same sums formed from the exact terms the real code produces at N = 2 / N = 1 (harmonic sums in closed form), evaluated to 40 digits, vanish within the
      accuracy documented for the expressions: 1e-5 of the largest entry at NLO (exact up to approximated Mellin transforms), 2e-3 at NNLO / N3LO (parametrisations
      "accurate to one part in a thousand").  A finite domain, enumerated completely in the thorough tier (quick: variation indices 0-3).  Entries with a removable
      pole at N = 1 (valence sea parts) are evaluated 1e-12 away from it.
"""
from fractions import Fraction as Q

import numpy as np

from pyvc import terms as T
from pyvc.replay import script

REPLAY = '''
def replay():
    import importlib
    us = importlib.import_module("ekore.anomalous_dimensions.unpolarized.space_like")
    ut = importlib.import_module("ekore.anomalous_dimensions.unpolarized.time_like")
    ps = importlib.import_module("ekore.anomalous_dimensions.polarized.space_like")
    from eko import beta
    out = []
    for nf in (3, 4, 5, 6):
        g = us.gamma_singlet((1, 0), 2.0, nf, (0,) * 7, True)[0]
        if max(abs(g[0, 0] + g[1, 0]), abs(g[0, 1] + g[1, 1])) > 1e-12: out.append(f"nf={nf}: LO momentum sum rule (space-like) violated: {g[0,0]+g[1,0]}, {g[0,1]+g[1,1]}")
        if abs(us.gamma_ns((1, 0), 10201, 1.0, nf, (0,) * 7, True)[0]) > 1e-12: out.append(f"nf={nf}: LO gamma_ns(1) != 0")
        t = ut.gamma_singlet((1, 0), 2.0, nf)[0]
        if max(abs(2 * nf * t[0, 0] + t[0, 1]), abs(2 * nf * t[1, 0] + t[1, 1])) > 1e-11: out.append(f"nf={nf}: LO momentum sum rule (time-like) violated")
        p = ps.gamma_singlet((1, 0), 1.0, nf)[0]
        if abs(p[0, 1]) > 1e-12 or abs(p[1, 1] + beta.beta_qcd((2, 0), nf)) > 1e-12: out.append(f"nf={nf}: polarised LO first moments: qg={p[0,1]}, gg+beta0={p[1,1] + beta.beta_qcd((2,0), nf)}")
        G = us.gamma_singlet_qed((1, 1), 2.0, nf, (0,) * 7, True)
        for ij in ((1, 0), (0, 1)):
            s = np.abs(G[ij][:3, :].sum(axis=0)).max()
            if s > 1e-11: out.append(f"nf={nf}: QED momentum sum rule at order {ij}: {s}")
    rng = np.random.default_rng(25)
    for nf in (3, 4, 5):
        N = complex(rng.uniform(1.5, 5), rng.uniform(-2, 2))
        gs = [us.gamma_singlet((4, 0), N, nf, (v,) * 7, True)[3] for v in (0, 1, 2)]
        if np.max(np.abs(gs[0] - (gs[1] + gs[2]) / 2)) > 1e-9 * np.max(np.abs(gs[0])): out.append(f"nf={nf}: FHMRUVV singlet central != mean of the variations")
        for mode in (10101, 10201, 10200):
            gn = [us.gamma_ns((4, 0), mode, N, nf, (v,) * 7, True)[3] for v in (0, 1, 2)]
            if abs(gn[0] - (gn[1] + gn[2]) / 2) > 1e-9 * abs(gn[0]): out.append(f"nf={nf} mode={mode}: FHMRUVV non-singlet central != mean of the variations")
    return bool(out), "; ".join(out[:4]) if out else "LO sum rules and the FHMRUVV mean rule hold natively"
'''

REPLAY_HO = '''
def replay():
    import warnings
    import ekore.anomalous_dimensions.unpolarized.space_like as us
    import ekore.anomalous_dimensions.unpolarized.time_like as ut
    import ekore.anomalous_dimensions.polarized.space_like as ps
    from eko import beta
    warnings.simplefilter("ignore")
    TOL = {2: 1e-5, 3: 2e-3, 4: 2e-3}
    out = []
    def rule(name, resid, scale, k):
        sc = max(abs(x) for x in scale)
        if abs(resid) > TOL[k] * sc: out.append(f"{name}: residual {abs(resid):.3e}, largest entry {sc:.3e}")
    def at_one(f):
        try:
            return f(complex(1.0))
        except ZeroDivisionError:
            return f(complex(1.0 + 1e-7))
    for nf in (3, 4, 5, 6):
        for fh in (False, True):
            for v in (range(20) if not fh else range(3)):
                var = (min(v, 19), min(v, 15), min(v, 15), min(v, 6), v % 3, v % 3, v % 3) if not fh else (v,) * 7
                try:
                    g = us.gamma_singlet((4, 0), complex(2.0), nf, var, fh)
                except NotImplementedError:
                    continue
                for k in (2, 3, 4):
                    m = g[k - 1]
                    rule(f"space-like order {k} nf={nf} fhmruvv={fh} var={v}: qq+gq at N=2", m[0, 0] + m[1, 0], (m[0, 0], m[1, 0]), k)
                    rule(f"space-like order {k} nf={nf} fhmruvv={fh} var={v}: qg+gg at N=2", m[0, 1] + m[1, 1], (m[0, 1], m[1, 1]), k)
                for mode in (10201, 10200):
                    n1 = at_one(lambda n: us.gamma_ns((4, 0), mode, n, nf, var, fh))
                    n2 = us.gamma_ns((4, 0), mode, complex(2.0), nf, var, fh)
                    for k in (2, 3, 4): rule(f"space-like order {k} nf={nf} fhmruvv={fh} var={v}: mode {mode} at N=1", n1[k - 1], (n2[k - 1],), k)
        t = ut.gamma_singlet((3, 0), complex(2.0), nf)
        for k in (2, 3):
            for r in (0, 1): rule(f"time-like order {k} nf={nf}: row {r} at N=2", 2 * nf * t[k - 1][r, 0] + t[k - 1][r, 1], (2 * nf * t[k - 1][r, 0], t[k - 1][r, 1]), k)
        for mode in (10201, 10200):
            n1 = at_one(lambda n: ut.gamma_ns((3, 0), mode, n, nf)); n2 = ut.gamma_ns((3, 0), mode, complex(2.0), nf)
            for k in (2, 3): rule(f"time-like order {k} nf={nf}: mode {mode} at N=1", n1[k - 1], (n2[k - 1],), k)
        pm = ps.gamma_singlet((3, 0), complex(1.0), nf)
        for k in (2, 3):
            b = beta.beta_qcd((k + 1, 0), nf)
            rule(f"polarised order {k} nf={nf}: qg(1)", pm[k - 1][0, 1], (pm[k - 1][1, 1],), k)
            rule(f"polarised order {k} nf={nf}: gg(1)+beta", pm[k - 1][1, 1] + b, (b,), k)
        n1 = ps.gamma_ns((3, 0), 10101, complex(1.0), nf); n2 = ps.gamma_ns((3, 0), 10101, complex(2.0), nf)
        for k in (2, 3): rule(f"polarised order {k} nf={nf}: ns+(1)", n1[k - 1], (n2[k - 1],), k)
    return bool(out), "; ".join(out[:4]) if out else "higher-order sum rules hold natively within the stated tolerances"
'''


def run(chk):
    import importlib
    us = importlib.import_module("ekore.anomalous_dimensions.unpolarized.space_like")
    ut = importlib.import_module("ekore.anomalous_dimensions.unpolarized.time_like")
    ps = importlib.import_module("ekore.anomalous_dimensions.polarized.space_like")
    fh = importlib.import_module("ekore.anomalous_dimensions.unpolarized.space_like.as4.fhmruvv")
    from ekore.harmonics import cache as hc
    from eko import beta
    from contracts import harmonic_spec

    rp = script(REPLAY, kind="sum_rule_oracle")
    rp_ho = script(REPLAY_HO, kind="sum_rule_oracle")
    chk.under_contract(*[f"ekore.anomalous_dimensions.{v}:{f}" for v in ("unpolarized.space_like", "unpolarized.time_like", "polarized.space_like") for f in ("gamma_ns", "gamma_singlet")],
                       *[f"ekore.anomalous_dimensions.{v}.as1:*" for v in ("unpolarized.space_like", "unpolarized.time_like", "polarized.space_like")],
                       "ekore.anomalous_dimensions.unpolarized.space_like:gamma_singlet_qed", "ekore.anomalous_dimensions.unpolarized.space_like:gamma_valence_qed", "ekore.anomalous_dimensions.unpolarized.space_like:gamma_ns_qed",
                       "ekore.anomalous_dimensions.unpolarized.space_like.aem1:*", *[f"ekore.anomalous_dimensions.unpolarized.space_like.as4.fhmruvv:{f}" for f in ("gamma_gg", "gamma_gq", "gamma_qg", "gamma_ps", "gamma_nsp", "gamma_nsm", "gamma_nsv", "gamma_singlet")])
    chk.trust("contract of cern_polygamma (contracts/harmonic_spec.py): closed forms at integer / half-integer arguments", "time-like convention: second moments of the fragmentation functions D_Sigma = 2 nf, D_g = 1 (derivation in DESIGN.md, C25)")
    chk.uncovered("N -> 1 limits of expressions with removable poles are evaluated 1e-12 away from N = 1 (40 digits), not as limits",
                  "QED-extended sum rules beyond the orders (1,1), (0,2) at N = 2 reduce to the QCD ones by C30 (embedding) and are not re-evaluated here")
    undo = harmonic_spec.install()
    try:
        # ---- (1) leading-order sum rules, exactly ----------------------------------------------------------------------------------------------
        for nf in (3, 4, 5, 6):
            g = us.gamma_singlet((1, 0), Q(2), nf, (0,) * 7, True)[0]
            chk.eq_array(f"C25.lo.us.momentum[nf={nf}]", np.array([g[0, 0] + g[1, 0], g[0, 1] + g[1, 1]], dtype=object), np.array([Q(0), Q(0)], dtype=object), fn="ekore.anomalous_dimensions.unpolarized.space_like:gamma_singlet", replay=rp,
                         goal="gamma_qq(2) + gamma_gq(2) == 0 and gamma_qg(2) + gamma_gg(2) == 0")
            for mode in (10101, 10201, 10200):
                chk.eq(f"C25.lo.us.quark_number[nf={nf},mode={mode}]", us.gamma_ns((1, 0), mode, Q(1), nf, (0,) * 7, True)[0], 0, fn="ekore.anomalous_dimensions.unpolarized.space_like:gamma_ns", goal="LO gamma_ns(1) == 0", replay=rp)
            t = ut.gamma_singlet((1, 0), Q(2), nf)[0]
            chk.eq_array(f"C25.lo.ut.momentum[nf={nf}]", np.array([2 * nf * t[0, 0] + t[0, 1], 2 * nf * t[1, 0] + t[1, 1]], dtype=object), np.array([Q(0), Q(0)], dtype=object), fn="ekore.anomalous_dimensions.unpolarized.time_like:gamma_singlet", replay=rp,
                         goal="fragmentation convention: each row r satisfies 2 nf gamma[r, Sigma](2) + gamma[r, g](2) == 0")
            chk.eq(f"C25.lo.ut.quark_number[nf={nf}]", ut.gamma_ns((1, 0), 10201, Q(1), nf)[0], 0, fn="ekore.anomalous_dimensions.unpolarized.time_like:gamma_ns", goal="LO gamma_ns(1) == 0", replay=rp)
            p = ps.gamma_singlet((1, 0), Q(1), nf)[0]
            chk.eq(f"C25.lo.ps.qg_first_moment[nf={nf}]", p[0, 1], 0, fn="ekore.anomalous_dimensions.polarized.space_like:gamma_singlet", goal="polarised gamma_qg(1) == 0", replay=rp)
            chk.eq(f"C25.lo.ps.gg_first_moment[nf={nf}]", p[1, 1], -beta.beta_qcd((2, 0), nf), fn="ekore.anomalous_dimensions.polarized.space_like:gamma_singlet", goal="polarised gamma_gg(1) == -beta_0", replay=rp)
            chk.eq(f"C25.lo.ps.axial_charge[nf={nf}]", ps.gamma_ns((1, 0), 10101, Q(1), nf)[0], 0, fn="ekore.anomalous_dimensions.polarized.space_like:gamma_ns", goal="polarised gamma_ns(1) == 0", replay=rp)
            G = us.gamma_singlet_qed((1, 1), Q(2), nf, (0,) * 7, True)
            for ij in ((1, 0), (0, 1)):
                sums = np.array([sum((G[ij][r, c] for r in range(3)), Q(0)) for c in range(4)], dtype=object)
                chk.eq_array(f"C25.lo.qed.momentum[nf={nf},order={ij}]", sums, np.array([Q(0)] * 4, dtype=object), fn="ekore.anomalous_dimensions.unpolarized.space_like:gamma_singlet_qed", replay=rp,
                             goal="gluon + photon + Sigma rows of every column sum to zero at N = 2")
            # orders (1,1) and (0,2): exact where the expressions are, otherwise to the accuracy of the approximated Mellin transforms they contain
            from pyvc import poly as _P
            G2 = us.gamma_singlet_qed((1, 2), Q(2), nf, (0,) * 7, True)
            for ij in ((1, 1), (0, 2)):
                for col in range(4):
                    ssum = T.lift(sum((G2[ij][r, col] for r in range(3)), Q(0)))
                    exact = (ssum.is_const() and ssum.const() == 0) or _P.prove_zero(ssum)[0]
                    if exact:
                        chk.ground(f"C25.qed.momentum[nf={nf},order={ij},column={col}]", True, fn="ekore.anomalous_dimensions.unpolarized.space_like:gamma_singlet_qed", replay=rp, backend="poly-NF",
                                   goal="gluon + photon + Sigma rows of the column sum to zero at N = 2 (exactly)")
                    else:
                        res = abs(complex(T.evalmp(ssum, {}, 40)))
                        scale = max(abs(complex(T.evalmp(T.lift(G2[ij][r, col]), {}, 40))) for r in range(3))
                        chk.ground(f"C25.qed.momentum[nf={nf},order={ij},column={col}]", res <= 1e-5 * max(1.0, scale), fn="ekore.anomalous_dimensions.unpolarized.space_like:gamma_singlet_qed", replay=rp, backend="exact-eval+mpmath",
                                   goal="gluon + photon + Sigma rows of the column sum to zero at N = 2 within 1e-5 of the largest entry (approximated Mellin transforms inside)", detail=f"residual {res:.3e}, scale {scale:.3e}")
            V = us.gamma_valence_qed((1, 1), Q(1), nf, (0,) * 7, True)
            for ij in ((1, 0), (0, 1)):
                chk.eq_array(f"C25.lo.qed.valence_number[nf={nf},order={ij}]", V[ij], np.array([[Q(0)] * 2] * 2, dtype=object), fn="ekore.anomalous_dimensions.unpolarized.space_like:gamma_valence_qed", replay=rp, goal="gamma_valence_qed(1) == 0")
            for mode in (10202, 10203):
                gn = us.gamma_ns_qed((1, 1), mode, Q(1), nf, (0,) * 7, True)
                chk.eq_array(f"C25.lo.qed.minus_number[nf={nf},mode={mode}]", np.array([gn[1, 0], gn[0, 1]], dtype=object), np.array([Q(0), Q(0)], dtype=object), fn="ekore.anomalous_dimensions.unpolarized.space_like:gamma_ns_qed", replay=rp, goal="gamma_ns-(1) == 0 at orders (1,0) and (0,1)")
            chk.configs += 1

        # ---- (2) FHMRUVV: central == mean of the variations, symbolic N ---------------------------------------------------------------------------
        N = T.var("N")
        RG = {"N": (1.6, 6.0)}
        def worker(chk, task):
            nf, name = task
            f = getattr(fh, name)
            try:
                if name == "gamma_singlet":
                    gs = [f(N, nf, hc.reset(), (v,) * 7) for v in (0, 1, 2)]
                    chk.eq_array(f"C25.fhmruvv_mean.gamma_singlet[nf={nf}]", gs[0], (gs[1] + gs[2]) / 2, fn="ekore.anomalous_dimensions.unpolarized.space_like.as4.fhmruvv:gamma_singlet", replay=rp, ranges=RG, goal="assembled N3LO singlet block: central == mean of the variations")
                else:
                    vals = [f(N, nf, hc.reset(), v) for v in (0, 1, 2)]
                    chk.eq(f"C25.fhmruvv_mean.{name}[nf={nf}]", vals[0], (vals[1] + vals[2]) / 2, fn=f"ekore.anomalous_dimensions.unpolarized.space_like.as4.fhmruvv:{name}", replay=rp, ranges=RG,
                           goal="central variation == (down + up) / 2 for every N")
            except NotImplementedError:
                chk.ground(f"C25.fhmruvv_mean.{name}[nf={nf}].not_available", True, fn=f"ekore.anomalous_dimensions.unpolarized.space_like.as4.fhmruvv:{name}", goal="nf not provided by the parametrisation (refused)", replay=rp)

        chk.parallel([(nf, name) for nf in (3, 4, 5) for name in ("gamma_gg", "gamma_gq", "gamma_qg", "gamma_ps", "gamma_nsp", "gamma_nsm", "gamma_nsv", "gamma_singlet")], worker)

        # ---- (3) beyond leading order: exact terms of the real code at N = 2 / N = 1 evaluated to 40 digits, every nf, every N3LO variation ---------------------
        # "within the documented accuracy of its parametrisation": NLO expressions are exact up to approximated Mellin transforms (1e-5 of the largest entry);
        # the NNLO / N3LO parametrisations are documented as accurate to one part in a thousand (2e-3 of the largest entry allowed).
        TOL = {2: 1e-5, 3: 2e-3, 4: 2e-3}
        NEAR1 = Q(10**12 + 1, 10**12)          # removable poles at N = 1 (valence sea parts): evaluated 1e-12 away, 40 digits

        def val(x):
            return complex(T.evalmp(T.lift(x), {}, 40))

        def at_one(f):
            try:
                return f(Q(1)), "N=1"
            except ZeroDivisionError:
                return f(NEAR1), "N=1+1e-12"

        def rule(chk, name, resid, scale, k, fn, goal):
            r, sc = abs(val(resid)), max(abs(val(x)) for x in scale)
            chk.ground(name, r <= TOL[k] * max(sc, 1e-30), fn=fn, replay=rp_ho, backend="exact-eval+mpmath", goal=goal + f" within {TOL[k]:.0e} of the largest entry", detail=f"residual {r:.3e}, largest entry {sc:.3e}")

        def worker3(chk, task):
            fam, nf, usefh, v = task
            if fam == "us":
                var = (min(v, 19), min(v, 15), min(v, 15), min(v, 6), v % 3, v % 3, v % 3) if not usefh else (v,) * 7
                lab = f"{'fhmruvv' if usefh else 'n3lo'},nf={nf},var={v}"
                fn = "ekore.anomalous_dimensions.unpolarized.space_like:gamma_singlet"
                try:
                    g = us.gamma_singlet((4, 0), Q(2), nf, var, usefh)
                except NotImplementedError:
                    chk.ground(f"C25.higher.us[{lab}].not_available", True, fn=fn, goal="nf not provided by the parametrisation")
                    return
                for k in range(2, 5):
                    if v and k < 4:
                        continue
                    m = g[k - 1]
                    tag = f"C25.higher.us[order={k},{lab}]" if k == 4 else f"C25.higher.us[order={k},nf={nf}]"
                    if usefh and k < 4:
                        continue
                    rule(chk, f"{tag}.momentum.quark_column", m[0, 0] + m[1, 0], (m[0, 0], m[1, 0]), k, fn, "gamma_qq(2) + gamma_gq(2) == 0")
                    rule(chk, f"{tag}.momentum.gluon_column", m[0, 1] + m[1, 1], (m[0, 1], m[1, 1]), k, fn, "gamma_qg(2) + gamma_gg(2) == 0")
                fn = "ekore.anomalous_dimensions.unpolarized.space_like:gamma_ns"
                for mode, ml in ((10201, "ns-"), (10200, "nsV")):
                    n1, where = at_one(lambda n: us.gamma_ns((4, 0), mode, n, nf, var, usefh))
                    n2 = us.gamma_ns((4, 0), mode, Q(2), nf, var, usefh)
                    for k in range(2, 5):
                        if (v or usefh) and k < 4:
                            continue
                        tag = f"C25.higher.us[order={k},{lab}]" if k == 4 else f"C25.higher.us[order={k},nf={nf}]"
                        rule(chk, f"{tag}.quark_number.{ml}", n1[k - 1], (n2[k - 1],), k, fn, f"gamma_{ml}({where}) == 0 (scale: its second moment)")
            elif fam == "usq":
                # the QED-extended dispatchers carry the pure-QCD towers in their [k, 0] entries: the same rules, through these entry points (both N3LO parametrisations)
                var = (v,) * 7 if usefh else (min(v, 19), min(v, 15), min(v, 15), min(v, 6), v % 3, v % 3, v % 3)
                lab = f"{'fhmruvv' if usefh else 'n3lo'},nf={nf}"
                fn = "ekore.anomalous_dimensions.unpolarized.space_like:gamma_ns_qed"
                try:
                    for mode, ml in ((10202, "ns-u"), (10203, "ns-d")):
                        n1, where = at_one(lambda n: us.gamma_ns_qed((4, 2), mode, n, nf, var, usefh))
                        n2 = us.gamma_ns_qed((4, 2), mode, Q(2), nf, var, usefh)
                        for k in range(2, 5):
                            rule(chk, f"C25.higher.qed[order=({k},0),{lab}].quark_number.{ml}", n1[k, 0], (n2[k, 0],), k, fn, f"gamma_{ml}({where}) == 0 at O(a_s^{k}) (scale: its second moment)")
                    fn = "ekore.anomalous_dimensions.unpolarized.space_like:gamma_valence_qed"
                    v1, where = at_one(lambda n: us.gamma_valence_qed((4, 2), n, nf, var, usefh))
                    v2 = us.gamma_valence_qed((4, 2), Q(2), nf, var, usefh)
                    for k in range(2, 5):
                        for r in range(2):
                            for c in range(2):
                                rule(chk, f"C25.higher.qed[order=({k},0),{lab}].valence_number[{r},{c}]", v1[k, 0][r, c], tuple(v2[k, 0].reshape(-1)), k, fn, f"gamma_valence_qed({where}) == 0 at O(a_s^{k}) (scale: the largest second moment)")
                    fn = "ekore.anomalous_dimensions.unpolarized.space_like:gamma_singlet_qed"
                    g4 = us.gamma_singlet_qed((4, 2), Q(2), nf, var, usefh)
                    for k in range(2, 5):
                        for c in range(4):
                            col = [g4[k, 0][r, c] for r in range(3)]
                            rule(chk, f"C25.higher.qed[order=({k},0),{lab}].momentum.column{c}", sum(col, Q(0)), tuple(g4[k, 0].reshape(-1)), k, fn, "gluon + photon + Sigma rows of the column sum to zero at N = 2 (scale: the largest entry)")
                except NotImplementedError:
                    chk.ground(f"C25.higher.qed[{lab}].not_available", True, fn=fn, goal="nf not provided by the parametrisation")
            elif fam == "ut":
                fn = "ekore.anomalous_dimensions.unpolarized.time_like:gamma_singlet"
                t = ut.gamma_singlet((3, 0), Q(2), nf)
                for k in (2, 3):
                    m = t[k - 1]
                    for r, rl in ((0, "quark_row"), (1, "gluon_row")):
                        rule(chk, f"C25.higher.ut[order={k},nf={nf}].momentum.{rl}", 2 * nf * m[r, 0] + m[r, 1], (2 * nf * m[r, 0], m[r, 1]), k, fn, "2 nf gamma[r, Sigma](2) + gamma[r, g](2) == 0")
                fn = "ekore.anomalous_dimensions.unpolarized.time_like:gamma_ns"
                for mode, ml in ((10201, "ns-"), (10200, "nsV")):
                    n1, where = at_one(lambda n: ut.gamma_ns((3, 0), mode, n, nf))
                    n2 = ut.gamma_ns((3, 0), mode, Q(2), nf)
                    for k in (2, 3):
                        rule(chk, f"C25.higher.ut[order={k},nf={nf}].quark_number.{ml}", n1[k - 1], (n2[k - 1],), k, fn, f"gamma_{ml}({where}) == 0 (scale: its second moment)")
            else:
                fn = "ekore.anomalous_dimensions.polarized.space_like:gamma_singlet"
                pm = ps.gamma_singlet((3, 0), Q(1), nf)
                for k in (2, 3):
                    m = pm[k - 1]
                    b = beta.beta_qcd((k + 1, 0), nf)
                    rule(chk, f"C25.higher.ps[order={k},nf={nf}].qg_first_moment", m[0, 1], (m[1, 1],), k, fn, "polarised gamma_qg(1) == 0 (scale: gamma_gg(1))")
                    rule(chk, f"C25.higher.ps[order={k},nf={nf}].gg_first_moment", m[1, 1] + b, (b,), k, fn, f"polarised gamma_gg(1) == -beta_{k - 1}")
                fn = "ekore.anomalous_dimensions.polarized.space_like:gamma_ns"
                n1 = ps.gamma_ns((3, 0), 10101, Q(1), nf)
                n2 = ps.gamma_ns((3, 0), 10101, Q(2), nf)
                for k in (2, 3):
                    rule(chk, f"C25.higher.ps[order={k},nf={nf}].axial_charge", n1[k - 1], (n2[k - 1],), k, fn, "polarised gamma_ns+(1) == 0 (scale: its second moment)")

        nv = 20 if chk.tier != "quick" else 4
        tasks = [("us", nf, False, v) for nf in (3, 4, 5, 6) for v in range(nv)] + [("us", nf, True, v) for nf in (3, 4, 5) for v in (0, 1, 2)]
        tasks += [("ut", nf, None, 0) for nf in (3, 4, 5, 6)] + [("ps", nf, None, 0) for nf in (3, 4, 5, 6)]
        tasks += [("usq", nf, False, 0) for nf in (3, 4, 5, 6)] + [("usq", nf, True, 0) for nf in (3, 4, 5)]
        chk.parallel(tasks, worker3)
    finally:
        undo()
    chk.extra["exhaustive"] = True
