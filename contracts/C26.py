"""C26 -- anomalous dimensions and matching elements are real-analytic in N (conjugation symmetry).

Every entry point of ekore -- gamma_ns / gamma_singlet (unpolarised, polarised, time-like), the QED grids, A_singlet / A_non_singlet (three variants) -- is
executed with a symbolic Mellin moment N (and symbolic log L for the matching elements); the only replaced leaf is cern_polygamma (contract: polygamma_k is
real-analytic, the subject of C24).  The resulting term of EVERY entry of every returned array is then typed by a conjugation calculus:
      even:  f(conj N) = conj f(N)          odd:  f(conj N) = - conj f(N)
   rational and zeta constants, L, N: even;   the imaginary unit: odd;   + within a parity;   * and / multiply parities;   integer powers accordingly;
   g(even) is even for g in {exp, ln, sqrt, polygamma_k, atan, ...: real-analytic on their principal domain};   Re(even) = even, Im(even) = odd, abs(any) = even.
ensures  every entry is even, for every order, nf 3-6, sector, N3LO parametrisation and variation index, MSbar flag.
Even entries are real at real N (f(N) = conj f(N)), which is the second half of the statement.
The typing is syntactic (sound, not complete): an entry the calculus cannot type is reported as a failed obligation.
"""
from fractions import Fraction as Q

import numpy as np

from pyvc import terms as T
from pyvc.replay import script

REPLAY = '''
def replay():
    import importlib
    us = importlib.import_module("ekore.anomalous_dimensions.unpolarized.space_like")
    ps = importlib.import_module("ekore.anomalous_dimensions.polarized.space_like")
    ut = importlib.import_module("ekore.anomalous_dimensions.unpolarized.time_like")
    ous = importlib.import_module("ekore.operator_matrix_elements.unpolarized.space_like")
    ops = importlib.import_module("ekore.operator_matrix_elements.polarized.space_like")
    out_ = importlib.import_module("ekore.operator_matrix_elements.unpolarized.time_like")
    rng = np.random.default_rng(26)
    out = []
    def chk(name, f):
        for _ in range(2):
            N = complex(rng.uniform(1.3, 6.0), rng.uniform(0.2, 4.0))
            try:
                a, b = np.asarray(f(N)), np.asarray(f(N.conjugate()))
            except NotImplementedError:
                return
            dev = np.max(np.abs(a.conj() - b)) / max(1.0, np.max(np.abs(a)))
            if dev > 1e-9: out.append(f"{name}: f(conj N) differs from conj f(N) by {dev:.2e} at N = {N}")
    for nf in (3, 4, 5):
        for fh in (True, False):
            for var in ((0,) * 7, (1, 2, 1, 2, 1, 2, 1)):
                for mode in (10101, 10201, 10200):
                    chk(f"us.gamma_ns nf={nf} mode={mode} fhmruvv={fh}", lambda N: us.gamma_ns((4, 0), mode, N, nf, var, fh))
                chk(f"us.gamma_singlet nf={nf} fhmruvv={fh}", lambda N: us.gamma_singlet((4, 0), N, nf, var, fh))
        chk(f"us.gamma_singlet_qed nf={nf}", lambda N: us.gamma_singlet_qed((3, 2), N, nf, (0,) * 7, True))
        chk(f"us.gamma_valence_qed nf={nf}", lambda N: us.gamma_valence_qed((3, 2), N, nf, (0,) * 7, True))
        for mode in (10102, 10103, 10202, 10203):
            chk(f"us.gamma_ns_qed nf={nf} mode={mode}", lambda N: us.gamma_ns_qed((3, 2), mode, N, nf, (0,) * 7, True))
        for mod, nm in ((ps, "ps"), (ut, "ut")):
            for mode in (10101, 10201, 10200):
                chk(f"{nm}.gamma_ns nf={nf} mode={mode}", lambda N: mod.gamma_ns((3, 0), mode, N, nf))
            chk(f"{nm}.gamma_singlet nf={nf}", lambda N: mod.gamma_singlet((3, 0), N, nf))
        for L in (-1.3, 0.0, 2.1):
            for msbar in (False, True):
                chk(f"ome us.A_singlet nf={nf} L={L}", lambda N: ous.A_singlet((3, 0), N, nf, L, msbar))
            chk(f"ome us.A_non_singlet nf={nf} L={L}", lambda N: ous.A_non_singlet((3, 0), N, nf, L))
            chk(f"ome ps.A_singlet nf={nf} L={L}", lambda N: ops.A_singlet((2, 0), N, nf, L))
            chk(f"ome ps.A_non_singlet L={L}", lambda N: ops.A_non_singlet((2, 0), N, L))
            chk(f"ome ut.A_singlet L={L}", lambda N: out_.A_singlet((1, 0), N, L))
    return bool(out), "; ".join(out[:5]) if out else "conjugation symmetry holds natively on the sampled moments"
'''

EVEN, ODD, UNKNOWN = "even", "odd", "unknown"
ODD_FUNCTIONS = {"sin", "tan", "tanh", "sinh", "atan", "atanh"}
EVEN_FUNCTIONS = {"cos", "cosh"}
REAL_ANALYTIC = {"pi", "exp", "ln", "sqrt", "atan", "atanh", "sinh", "cosh", "sin", "cos", "tan", "tanh", "root", "gamma", "loggamma", "zeta2", "zeta3", "zeta4", "zeta5"}


def parity(sym, memo, why):
    """conjugation parity of a term; `why` collects the first reason for 'unknown'"""
    def mul(a, b):
        if UNKNOWN in (a, b):
            return UNKNOWN
        return EVEN if a == b else ODD

    order = []
    stack = [sym.n]
    seen = set()
    while stack:                      # iterative post-order (terms of the N3LO parametrisations are deep)
        n = stack[-1]
        if n in memo:
            stack.pop()
            continue
        kids = [k for k in T.children(n) if k not in memo]
        if kids and n not in seen:
            seen.add(n)
            stack.extend(kids)
            continue
        stack.pop()
        t = T.node(n)
        op = t[0]
        if op == "c":
            r = EVEN
        elif op == "v":
            r = EVEN                   # N, L and real parameters
        elif op == "+":
            a, b = memo[t[1]], memo[t[2]]
            r = a if a == b else UNKNOWN
            if r == UNKNOWN and a != UNKNOWN and b != UNKNOWN:
                za = T.node(t[1])
                zb = T.node(t[2])
                if za[0] == "c" and za[1] == 0:
                    r = b
                elif zb[0] == "c" and zb[1] == 0:
                    r = a
                else:
                    why.append("sum of an even and an odd term")
        elif op == "neg":
            r = memo[t[1]]
        elif op in ("*", "/"):
            r = mul(memo[t[1]], memo[t[2]])
        elif op == "^":
            b = memo[t[1]]
            r = b if b != ODD else (EVEN if t[2] % 2 == 0 else ODD)
        elif op == "app":
            name, args = t[1], t[2]
            ps = [memo[a] for a in args]
            if name == "I" and not args:
                r = ODD
            elif name == "abs":
                r = EVEN if UNKNOWN not in ps else UNKNOWN
            elif name in ("Re", "conj"):
                r = ps[0]
            elif name == "Im":
                r = {EVEN: ODD, ODD: EVEN}.get(ps[0], UNKNOWN)
            elif name in ODD_FUNCTIONS and len(ps) == 1 and ps[0] == ODD:
                r = ODD                    # g odd and real-analytic: g(-conj w) = -conj g(w)
            elif name in EVEN_FUNCTIONS and len(ps) == 1 and ps[0] == ODD:
                r = EVEN
            elif name in REAL_ANALYTIC or name.startswith("polygamma") or not args:
                r = EVEN if all(p == EVEN for p in ps) else UNKNOWN
                if r == UNKNOWN:
                    why.append(f"{name}(...) of an argument that is not even")
            else:
                r = UNKNOWN
                why.append(f"function '{name}' is not in the table of real-analytic functions")
        elif op == "ite":
            r = UNKNOWN
            why.append("value-dependent branch (ite)")
        else:
            r = UNKNOWN
            why.append(f"operator {op}")
        memo[n] = r
    return memo[sym.n]


def cond_operands(c):
    """the arithmetic operands of the comparisons a path condition is built from"""
    out, stack = [], [c.n]
    while stack:
        n = stack.pop()
        t = T.node(n)
        if t[0] in ("<", "<=", "==", "!="):
            out.extend([t[1], t[2]])
        elif t[0] in ("and", "or", "not"):
            stack.extend(t[1:])
    return out


def run(chk):
    import importlib
    import sys
    us = importlib.import_module("ekore.anomalous_dimensions.unpolarized.space_like")
    ps = importlib.import_module("ekore.anomalous_dimensions.polarized.space_like")
    ut = importlib.import_module("ekore.anomalous_dimensions.unpolarized.time_like")
    ous = importlib.import_module("ekore.operator_matrix_elements.unpolarized.space_like")
    ops = importlib.import_module("ekore.operator_matrix_elements.polarized.space_like")
    out_ = importlib.import_module("ekore.operator_matrix_elements.unpolarized.time_like")
    pg = importlib.import_module("ekore.harmonics.polygamma")

    rp = script(REPLAY, kind="conjugation_oracle")
    chk.under_contract(*[f"ekore.anomalous_dimensions.{v}:{f}" for v in ("unpolarized.space_like", "polarized.space_like", "unpolarized.time_like") for f in ("gamma_ns", "gamma_singlet")],
                       "ekore.anomalous_dimensions.unpolarized.space_like:gamma_ns_qed", "ekore.anomalous_dimensions.unpolarized.space_like:gamma_singlet_qed", "ekore.anomalous_dimensions.unpolarized.space_like:gamma_valence_qed",
                       *[f"ekore.operator_matrix_elements.{v}:{f}" for v in ("unpolarized.space_like", "polarized.space_like", "unpolarized.time_like") for f in ("A_singlet", "A_non_singlet")],
                       "ekore.harmonics.polygamma:cern_polygamma", "ekore.harmonics:* (all harmonic sums, g-functions and log-functions reached from the entry points, executed symbolically)",
                       "ekore.anomalous_dimensions.*.as1..as4 / aem1 / aem2 / as1aem1 and ekore.operator_matrix_elements.*.as1..as3 (all splitting and matching functions, executed symbolically)")
    chk.trust("the value of cern_polygamma is used above it only through its own conjugation symmetry, which is proved here path by path (case split on int|Re Z|)", "exp, ln, sqrt, atan, ... are real-analytic on their principal domains; the statement excludes poles and cuts",
              "lemma: the parity calculus of the docstring is sound (conj is a ring homomorphism)")
    chk.uncovered("points on branch cuts / poles", "numerical accuracy of the polygamma implementation at conjugate points (C24)")

    # ---- cern_polygamma itself: asymptotic series + upward recurrence + reflection, every branch -----------------------------------------------
    Z = T.var("Z")
    memo0 = {}
    saved_int = pg.__dict__.get("int")
    try:
        for K in range(5):
            for m in list(range(15)) + [20]:
                pg.int = lambda a, m=m: m          # case split on int(|Re Z|) = m (the only use of int() in the function: the length of the upward recurrence)
                tag = f"C26.cern_polygamma[K={K},int|ReZ|={m}]"

                def guarded():
                    try:
                        return ("ok", pg.cern_polygamma(Z, K))
                    except (NotImplementedError, ValueError) as e:
                        return ("refused", str(e))
                for pt, pc, (kind, val) in chk.run_paths(tag, guarded, [], fn="ekore.harmonics.polygamma:cern_polygamma", replay=rp):
                    if kind == "refused":
                        chk.ground(pt, True, fn="ekore.harmonics.polygamma:cern_polygamma", goal="pole: refused", replay=rp)
                        continue
                    bad, why = [], []
                    if parity(T.lift(val), memo0, why) != EVEN:
                        bad.append("result is not conjugation-even" + (f" ({why[0]})" if why else ""))
                    for cnd in pc:
                        for n in cond_operands(cnd):
                            why = []
                            if parity(T.Sym(n), memo0, why) != EVEN:
                                bad.append(f"branch condition {cnd!r} is not conjugation invariant")
                    chk.ground(pt, not bad, fn="ekore.harmonics.polygamma:cern_polygamma", replay=rp, goal="psi^(K)(conj Z) = conj psi^(K)(Z) on this path (series, recurrence, reflection); branches conjugation invariant", detail="; ".join(bad[:2]))
    finally:
        if saved_int is None:
            del pg.int
        else:
            pg.int = saved_int

    real_pg = pg.cern_polygamma

    def stub(z, k):
        return T.app(f"polygamma{int(k)}", T.lift(z))

    patched = []
    for name, mod in list(sys.modules.items()):
        if name.startswith("ekore") and getattr(mod, "cern_polygamma", None) is real_pg:
            patched.append(mod)
            mod.cern_polygamma = stub
    N, L = T.var("N"), T.var("L")
    memo = {}
    stats = {"entries": 0, "nodes": 0}

    def check(tag, fn, thunk):
        def guarded():
            try:
                return ("ok", thunk())
            except (NotImplementedError, ValueError) as e:
                return ("refused", str(e))
        for pt, pc, (kind, arr) in chk.run_paths(tag, guarded, [], fn=fn, replay=rp, goal="no unexpected exception"):
            if kind == "refused":
                chk.ground(pt, True, fn=fn, goal="configuration refused (C04)", replay=rp)
                continue
            flat = np.asarray(arr, dtype=object).ravel()
            bad = []
            for i, x in enumerate(flat):
                x = T.lift(x) if not isinstance(x, T.Sym) else x
                why = []
                p = parity(x, memo, why)
                stats["entries"] += 1
                if p != EVEN:
                    bad.append(f"entry {i}: {p}" + (f" ({why[0]})" if why else ""))
            # a value-dependent branch must be taken alike at N and conj N: its comparisons are between even (hence, being compared, real) quantities
            for c in pc:
                for n in cond_operands(c):
                    why = []
                    if parity(T.Sym(n), memo, why) != EVEN:
                        bad.append(f"branch condition {c!r} is not conjugation invariant" + (f" ({why[0]})" if why else ""))
            chk.ground(pt, not bad, fn=fn, replay=rp, goal=f"every entry ({len(flat)}) is conjugation-even: f(conj N) = conj f(N); value-dependent branches are conjugation invariant", detail="; ".join(bad[:3]))

    try:
        base = "ekore.anomalous_dimensions."
        for nf in (3, 4, 5, 6):
            for fh in (True, False):
                variations = [(0,) * 7, (1,) * 7, (2,) * 7] if fh else [(0,) * 7, (3, 2, 5, 1, 0, 0, 0), (19, 15, 15, 6, 0, 0, 0)]
                for var in variations:
                    for order in (1, 2, 3, 4):
                        t = f"[order={order},nf={nf},fhmruvv={fh},var={var[0]}{var[1]}{var[2]}{var[3]}]"
                        if order < 4 and (not fh or var[0] != 0):
                            continue      # parametrisation and variation only enter at N3LO (C55)
                        for mode in (10101, 10201, 10200):
                            check(f"C26.us.gamma_ns{t}[mode={mode}]", base + "unpolarized.space_like:gamma_ns", lambda: us.gamma_ns((order, 0), mode, N, nf, var, fh))
                        check(f"C26.us.gamma_singlet{t}", base + "unpolarized.space_like:gamma_singlet", lambda: us.gamma_singlet((order, 0), N, nf, var, fh))
            for o in ((1, 1), (2, 2), (3, 2)):
                check(f"C26.us.gamma_singlet_qed[order={o},nf={nf}]", base + "unpolarized.space_like:gamma_singlet_qed", lambda: us.gamma_singlet_qed(o, N, nf, (0,) * 7, True))
                check(f"C26.us.gamma_valence_qed[order={o},nf={nf}]", base + "unpolarized.space_like:gamma_valence_qed", lambda: us.gamma_valence_qed(o, N, nf, (0,) * 7, True))
                for mode in (10102, 10103, 10202, 10203):
                    check(f"C26.us.gamma_ns_qed[order={o},nf={nf},mode={mode}]", base + "unpolarized.space_like:gamma_ns_qed", lambda: us.gamma_ns_qed(o, mode, N, nf, (0,) * 7, True))
            for mod, nm, full in ((ps, "ps", "polarized.space_like"), (ut, "ut", "unpolarized.time_like")):
                for order in (1, 2, 3):
                    for mode in (10101, 10201, 10200):
                        check(f"C26.{nm}.gamma_ns[order={order},nf={nf},mode={mode}]", base + full + ":gamma_ns", lambda: mod.gamma_ns((order, 0), mode, N, nf))
                    check(f"C26.{nm}.gamma_singlet[order={order},nf={nf}]", base + full + ":gamma_singlet", lambda: mod.gamma_singlet((order, 0), N, nf))
            ob = "ekore.operator_matrix_elements."
            for mo in (1, 2, 3):
                for msbar in (False, True):
                    check(f"C26.ome.us.A_singlet[order={mo},nf={nf},msbar={msbar}]", ob + "unpolarized.space_like:A_singlet", lambda: ous.A_singlet((mo, 0), N, nf, L, msbar))
                check(f"C26.ome.us.A_non_singlet[order={mo},nf={nf}]", ob + "unpolarized.space_like:A_non_singlet", lambda: ous.A_non_singlet((mo, 0), N, nf, L))
                check(f"C26.ome.ps.A_singlet[order={mo},nf={nf}]", ob + "polarized.space_like:A_singlet", lambda: ops.A_singlet((mo, 0), N, nf, L))
                check(f"C26.ome.ps.A_non_singlet[order={mo},nf={nf}]", ob + "polarized.space_like:A_non_singlet", lambda: ops.A_non_singlet((mo, 0), N, L))
                check(f"C26.ome.ut.A_singlet[order={mo},nf={nf}]", ob + "unpolarized.time_like:A_singlet", lambda: out_.A_singlet((mo, 0), N, L))
                check(f"C26.ome.ut.A_non_singlet[order={mo},nf={nf}]", ob + "unpolarized.time_like:A_non_singlet", lambda: out_.A_non_singlet((mo, 0), N, L))
            chk.configs += 1
    finally:
        for mod in patched:
            mod.cern_polygamma = real_pg
    chk.extra["entries_typed"] = stats["entries"]
    chk.extra["term_nodes_typed"] = len(memo)
    chk.extra["exhaustive"] = True
