"""C27 -- Large-N behaviour matches the cusp anomalous dimension.

Method: the REAL dispatchers gamma_ns / gamma_singlet (unpolarised space-like, time-like, polarised) are executed with a symbolic real Mellin moment N (and a
symbolic nf where the code allows it) with ekore's cern_polygamma under its mathematical contract psi^(k) (contracts/harmonic_spec.py).  The resulting term is
expanded for N -> +infinity in the asymptotic domain pyvc/asym.py (exact series arithmetic in 1/N and L = ln N; the only analytic input is the textbook
asymptotic series of psi^(k)), which yields every coefficient  c_ij  of  N^(-i) L^j, i <= 0,  as an exact polynomial in nf, zeta_k, ln 2, euler_gamma.
Ensures, for every order k = 1..4 (time-like, polarised: 1..3), every non-singlet mode (ns+, ns-, nsV) and the gluon-gluon entry, every N3LO variation:
  growth     no positive power of N and no power L^j, j >= 2, survives:   gamma(N) = c_01 ln N + c_00 + O(ln^p N / N)
  cusp       c_01 == A_k                for the non-singlet entries (unpolarised space-like, time-like, polarised)
             c_01 == (C_A / C_F) A_k    for the unpolarised space-like gluon-gluon entry
with the literature values (a_s = alpha_s / 4 pi)
  A_1 = 4 C_F,   A_2 = 8 C_F [(67/18 - zeta2) C_A - 5/9 nf],
  A_3 = 16 C_F [C_A^2 (245/24 - 67/9 zeta2 + 11/6 zeta3 + 11/5 zeta2^2) + C_F nf (-55/24 + 2 zeta3) + C_A nf (-209/108 + 10/9 zeta2 - 7/3 zeta3) - nf^2 / 27],
  A_4 = 20702.353 - 5171.916 nf + 195.5772 nf^2 + 3.272344 nf^3          (Moch et al. 2017, Henn-Korchemsky-Mistlberger 2019).
Equality is exact at k = 1; at k = 2 to the 16 digits of the decimal literals in the code (1e-12 relative); at k = 3 (parametrised) and k = 4 (eko's own N3LO)
to the printed digits of the parametrisation, coefficient by coefficient in nf; for the FHMRUVV N3LO non-singlet parametrisations (nf = 3, 4, 5) the central
member lies within the uncertainty 20702(2) - 5171.9(2) nf quoted with the approximations, and the two error-band members bracket the literature value.
Known finding F27: the N3LO gluon-gluon entry carries the four-loop GLUON cusp coefficient 40880.330 - 11714.246 nf + 440.04876 nf^2 + 7.3627750 nf^3 -- its nf^0 and
nf^1 parts are not C_A/C_F times the quark ones (quartic Casimir terms break Casimir scaling at four loops).  Known finding F28: the time-like NNLO valence entry
is -gamma_ns- - nf PS2 (sign of the ns- part), so its ln N coefficient is -A_3.  The `..._or_the_recorded_...` clauses pin both recorded values: any other
deviation is still reported as a violation.
Trusted: asymptotic series of psi^(k) (Abramowitz-Stegun 6.3.18, 6.4.11); the literature values of A_k above; floats as exact rationals (A1).
Not covered: complex directions N -> infinity; the N3LO time-like / polarised sectors (not implemented in the code).
"""
from fractions import Fraction as Q

import mpmath as mp

from pyvc import asym
from pyvc import poly as P
from pyvc import terms as T
from pyvc.explore import explore
from pyvc.replay import script

CF, CA = Q(4, 3), Q(3)
A4Q = (Q("20702.353"), Q("-5171.916"), Q("195.5772"), Q("3.272344"))
A4G = (Q("40880.330"), Q("-11714.246"), Q("440.04876"), Q("7.3627750"))

REPLAY = '''
def replay():
    import ekore.anomalous_dimensions.unpolarized.space_like as sl
    import ekore.anomalous_dimensions.unpolarized.time_like as tl
    import ekore.anomalous_dimensions.polarized.space_like as pl
    from eko.constants import CA, CF, zeta2, zeta3
    def A(k, nf):
        return [4 * CF, 8 * CF * ((67 / 18 - zeta2) * CA - 5 / 9 * nf),
                16 * CF * (CA**2 * (245 / 24 - 67 / 9 * zeta2 + 11 / 6 * zeta3 + 11 / 5 * zeta2**2) + CF * nf * (-55 / 24 + 2 * zeta3)
                           + CA * nf * (-209 / 108 + 10 / 9 * zeta2 - 7 / 3 * zeta3) - nf**2 / 27),
                20702.353 - 5171.916 * nf + 195.5772 * nf**2 + 3.272344 * nf**3][k - 1]
    out = []
    N = 2.0**17
    def slope(f):
        # gamma(N) = A ln N + B + O(ln N / N): the difference quotient over one octave isolates A
        return (f(2 * N) - f(N)) / np.log(2)
    var = (0,) * 7
    for nf in (3, 4, 5):
        for fh in (False, True):
            for mode in (10101, 10201, 10200):
                got = slope(lambda n: sl.gamma_ns((4, 0), mode, complex(n), nf, var, fh).real)
                for k in range(1, 5):
                    tol = 1e-4 * abs(A(k, nf)) + (3 + 0.3 * nf if k == 4 else 1e-3)
                    if abs(got[k - 1] - A(k, nf)) > tol: out.append(f"space-like ns mode {mode} order {k} nf={nf} fhmruvv={fh}: d gamma / d ln N = {got[k-1]:.6g} at N = 2^17, A_{k} = {A(k, nf):.6g}")
            got = slope(lambda n: np.array([g[1, 1] for g in sl.gamma_singlet((4, 0), complex(n), nf, var, fh)]).real)
            for k in range(1, 5):
                want = CA / CF * A(k, nf)
                tol = 1e-4 * abs(want) + (7 + 0.7 * nf if k == 4 else 3e-3)
                if abs(got[k - 1] - want) > tol: out.append(f"space-like gg order {k} nf={nf} fhmruvv={fh}: d gamma / d ln N = {got[k-1]:.6g} at N = 2^17, (CA/CF) A_{k} = {want:.6g}")
        for lab, mod in (("time-like", tl), ("polarised", pl)):
            for mode in (10101, 10201, 10200):
                got = slope(lambda n: mod.gamma_ns((3, 0), mode, complex(n), nf).real)
                for k in range(1, 4):
                    if abs(got[k - 1] - A(k, nf)) > 1e-4 * abs(A(k, nf)) + 1e-3: out.append(f"{lab} ns mode {mode} order {k} nf={nf}: d gamma / d ln N = {got[k-1]:.6g} at N = 2^17, A_{k} = {A(k, nf):.6g}")
    return bool(out), "; ".join(out[:4]) if out else "the ln N slopes of the native anomalous dimensions at N = 2^17 agree with the cusp coefficients"
'''

REPLAY_GG4 = '''
def replay():
    import ekore.anomalous_dimensions.unpolarized.space_like as sl
    from eko.constants import CA, CF
    out = []
    N = 2.0**17
    for nf in (3, 4, 5):
        for fh in (False, True):
            f = lambda n: sl.gamma_singlet((4, 0), complex(n), nf, (0,) * 7, fh)[3][1, 1].real
            got = (f(2 * N) - f(N)) / np.log(2)
            want = CA / CF * (20702.353 - 5171.916 * nf + 195.5772 * nf**2 + 3.272344 * nf**3)
            if abs(got - want) > 1e-4 * abs(want) + 7 + 0.7 * nf: out.append(f"N3LO gg nf={nf} fhmruvv={fh}: d gamma_gg / d ln N = {got:.6g} at N = 2^17, (CA/CF) A_4 = {want:.6g}")
    return bool(out), "; ".join(out[:4]) if out else "N3LO gg slope equals (CA/CF) A_4"
'''


def A_spec(k, nf):
    z2, z3 = T.app("zeta2"), T.app("zeta3")
    if k == 1:
        return T.lift(4 * CF)
    if k == 2:
        return 8 * CF * ((Q(67, 18) - z2) * CA - Q(5, 9) * nf)
    if k == 3:
        return 16 * CF * (CA**2 * (Q(245, 24) - Q(67, 9) * z2 + Q(11, 6) * z3 + Q(11, 5) * z2 * z2) + CF * nf * (Q(-55, 24) + 2 * z3)
                          + CA * nf * (Q(-209, 108) + Q(10, 9) * z2 - Q(7, 3) * z3) - nf * nf / 27)
    return A4Q[0] + A4Q[1] * nf + A4Q[2] * nf * nf + A4Q[3] * nf * nf * nf


def nf_parts(poly, gid):
    """{power of nf: numerical value of its coefficient} of a sparse polynomial"""
    parts = {}
    for mono, c in poly.items():
        k = sum(e for g, e in mono if g == gid)
        rest = tuple((g, e) for g, e in mono if g != gid)
        parts.setdefault(k, {})
        parts[k][rest] = parts[k].get(rest, 0) + c
    return {k: mp.re(T.evalmp(P.poly_to_sym(p), {}, 30)) for k, p in parts.items()}


def run(chk):
    from contracts import harmonic_spec
    import ekore.anomalous_dimensions.unpolarized.space_like as sl
    import ekore.anomalous_dimensions.unpolarized.time_like as tl
    import ekore.anomalous_dimensions.polarized.space_like as pl

    rp = script(REPLAY, kind="large_N_slope_oracle")
    rp_gg4 = script(REPLAY_GG4, kind="large_N_slope_oracle")
    chk.under_contract(
        "ekore.anomalous_dimensions.unpolarized.space_like:gamma_ns", "ekore.anomalous_dimensions.unpolarized.space_like:gamma_singlet",
        "ekore.anomalous_dimensions.unpolarized.time_like:gamma_ns", "ekore.anomalous_dimensions.polarized.space_like:gamma_ns",
        "ekore.anomalous_dimensions.unpolarized.space_like.as1..as4 (gamma_ns*, gamma_gg), as4.fhmruvv (gamma_ns*, gamma_gg)",
        "ekore.anomalous_dimensions.unpolarized.time_like.as1..as3 (gamma_ns*)", "ekore.anomalous_dimensions.polarized.space_like.as1..as3 (gamma_ns*)",
        "ekore.harmonics.cache:get and the harmonic sums it dispatches to")
    chk.trust("asymptotic series of psi^(k)(z) for z -> +infinity (Abramowitz-Stegun 6.3.18, 6.4.11) -- the contract pyvc/asym.py gives the polygamma atoms",
              "contracts/harmonic_spec.py: cern_polygamma(z, k) is the mathematical psi^(k)(z)",
              "literature values of the cusp coefficients A_1..A_4 and of the four-loop gluon cusp coefficient (docstring)")
    chk.uncovered("N -> infinity along complex directions", "N3LO time-like and polarised anomalous dimensions (the code refuses these orders)")
    undo = harmonic_spec.install()
    N, nfs = T.var("N"), T.var("nf")
    gid = P.gen_var("nf")
    assume = [N > 100, T.app("Im", N) == 0, T.app("Re", N) == N]   # N real and large
    MODES = ((10101, "ns+"), (10201, "ns-"), (10200, "nsV"))

    def expansions(tag, thunk, fn):
        """run the real code on the single feasible path for large real N and expand every returned entry"""
        paths = explore(thunk, assume)
        good = [p for p in paths if p.exc is None]
        if len(good) != 1 or len(paths) != 1:
            chk.fail(f"{tag}.single_path_for_large_real_N", "; ".join(f"{type(p.exc).__name__}: {p.exc}" if p.exc else "ok" for p in paths)[:400], fn=fn, replay=rp)
            return None
        out = []
        for k, g in enumerate(good[0].value, start=1):
            try:
                a = asym.expand(g)
                a.coeff(0, 0)
            except T.Unsupported as e:
                chk.error(f"{tag}[order={k}].expansion", str(e))
                out.append(None)
                continue
            out.append(a)
        return out

    def growth(tag, a, fn, replay):
        bad = [(i, j) for (i, j) in a.c if i < 0 or (i == 0 and j >= 2)]
        chk.ground(f"{tag}.no_faster_growth_than_lnN", not bad, fn=fn, replay=replay, backend="asymptotic-expansion",
                   goal="no positive power of N and no ln^j N, j >= 2, in the large-N expansion",
                   detail=None if not bad else "surviving terms N^i ln^j N: " + ", ".join(f"N^{-i} L^{j}: {mp.nstr(mp.re(T.evalmp(P.poly_to_sym(a.c[(i, j)]), {'nf': 4}, 20)), 8)} (nf=4)" for i, j in bad[:4]))
        chk.ground(f"{tag}.grows_like_lnN", bool(a.coeff(0, 1)), fn=fn, replay=replay, backend="asymptotic-expansion", goal="the ln N coefficient is present (vacuity guard)",
                   detail="no ln N term at all")

    def cusp(tag, a, spec, tols, fn, replay, what):
        """ln N coefficient == spec (polynomials in nf), coefficient by coefficient within tols[k] (None: exact)"""
        got = a.coeff(0, 1)
        if tols is None:
            return chk.eq(f"{tag}.lnN_coefficient_is_{what}", P.poly_to_sym(got), spec, fn=fn, replay=replay, goal=f"coefficient of ln N == {what}")
        d = P.p_sub(got, asym._const_poly(T.lift(spec)))
        parts = nf_parts(d, gid)
        ref = nf_parts(asym._const_poly(T.lift(spec)), gid)
        bad = [f"nf^{k}: code - literature = {mp.nstr(v, 8)} (literature {mp.nstr(ref.get(k, 0), 10)}, allowed {float(tols(k, ref.get(k, 0))):.1e})" for k, v in sorted(parts.items())
               if abs(v) > tols(k, ref.get(k, 0))]
        chk.ground(f"{tag}.lnN_coefficient_is_{what}", not bad, fn=fn, replay=replay, backend="asymptotic-expansion+exact-eval", goal=f"coefficient of ln N == {what}", detail="; ".join(bad) or None)

    def within(a, spec, tols):
        parts = nf_parts(P.p_sub(a.coeff(0, 1), asym._const_poly(T.lift(spec))), gid)
        ref = nf_parts(asym._const_poly(T.lift(spec)), gid)
        return all(abs(v) <= tols(k, ref.get(k, 0)) for k, v in parts.items())

    digits16 = lambda k, ref: 1e-12 * max(abs(ref), 1)                                     # 16-digit decimal literals
    printed3 = lambda scale: (lambda k, ref: 6e-4 * scale if k < 2 else 1e-9)              # 1174.898, 183.187 (x 9/4 for gg); nf^2 exact
    printed4q = lambda k, ref: (5e-3, 5e-4, 5e-5, 1e-5)[k] if k < 4 else 1e-12
    printed4g = lambda k, ref: (5e-3, 5e-4, 5e-6, 5e-8)[k] if k < 4 else 1e-12
    TOL = {1: None, 2: digits16, 3: printed3(1), 4: printed4q}
    TOLG = {1: None, 2: digits16, 3: printed3(Q(9, 4)), 4: printed4q}

    # ---- unpolarised space-like, eko's own N3LO, symbolic nf ------------------------------------------------------------------------
    nvar = 3 if chk.tier == "quick" else 20
    fn_ns, fn_s = "ekore.anomalous_dimensions.unpolarized.space_like:gamma_ns", "ekore.anomalous_dimensions.unpolarized.space_like:gamma_singlet"
    for mode, lab in MODES:
        for v in range(nvar if chk.tier != "quick" else 1):
            var = (0, 0, 0, 0, v, v, v)
            ex = expansions(f"C27.space_like.{lab}[n3lo,var={v}]", lambda: list(sl.gamma_ns((4, 0), mode, N, nfs, var, False)), fn_ns)
            for k, a in enumerate(ex or [], start=1):
                if a is None or (v and k < 4):
                    continue
                tag = f"C27.space_like.{lab}[order={k},n3lo,var={v}]" if k == 4 else f"C27.space_like.{lab}[order={k}]"
                growth(tag, a, fn_ns, rp)
                cusp(tag, a, A_spec(k, nfs), TOL[k], fn_ns, rp, f"A_{k}")
    for v in range(nvar):
        var = (v, 0, 0, 0, 0, 0, 0)
        ex = expansions(f"C27.space_like.gg[n3lo,var={v}]", lambda: [g[1][1] for g in sl.gamma_singlet((4, 0), N, nfs, var, False)], fn_s)
        for k, a in enumerate(ex or [], start=1):
            if a is None or (v and k < 4):
                continue
            tag = f"C27.space_like.gg[order={k},n3lo,var={v}]" if k == 4 else f"C27.space_like.gg[order={k}]"
            growth(tag, a, fn_s, rp)
            if k < 4:
                cusp(tag, a, CA / CF * A_spec(k, nfs), TOLG[k], fn_s, rp, f"(CA/CF)A_{k}")
            else:
                # the nf^2 and nf^3 parts obey Casimir scaling; the nf^0 and nf^1 parts do not (known finding F27), they are pinned to the literature gluon value
                cusp(tag, a, CA / CF * A_spec(4, nfs), lambda kk, ref: (5e-3, 5e-4, 5e-5, 1e-5)[kk] if kk < 4 else 1e-12, fn_s, rp_gg4, "(CA/CF)A_4")
                a4g = A4G[0] + A4G[1] * nfs + A4G[2] * nfs * nfs + A4G[3] * nfs * nfs * nfs
                chk.ground(f"{tag}.lnN_coefficient_is_(CA/CF)A_4_or_the_recorded_gluon_cusp", within(a, CA / CF * A_spec(4, nfs), printed4q) or within(a, a4g, printed4g), fn=fn_s, replay=rp,
                           backend="asymptotic-expansion+exact-eval", goal="pins known finding F27: the only admitted deviation from (CA/CF) A_4 is the literature four-loop gluon cusp coefficient",
                           detail="ln N coefficient " + P.p_str(a.coeff(0, 1), 8))

    # ---- FHMRUVV N3LO parametrisations: nf = 3, 4, 5 x variations 0, 1, 2 (order-4 entry only; the lower orders are the ones above) -----------------------
    for nf in (3, 4, 5):
        lit = float(mp.re(T.evalmp(A_spec(4, nf), {}, 30)))
        litg = float(sum(c * nf**k for k, c in enumerate(A4G)))
        band = 2 + 0.2 * nf
        for mode, lab in MODES:
            vals = {}
            for v in (0, 1, 2):
                var = (0, 0, 0, 0, v, v, v)
                ex = expansions(f"C27.space_like.{lab}[fhmruvv,nf={nf},var={v}]", lambda: list(sl.gamma_ns((4, 0), mode, N, nf, var, True))[3:], fn_ns)
                if not ex or ex[0] is None:
                    continue
                tag = f"C27.space_like.{lab}[order=4,fhmruvv,nf={nf},var={v}]"
                growth(tag, ex[0], fn_ns, rp)
                vals[v] = float(mp.re(T.evalmp(P.poly_to_sym(ex[0].coeff(0, 1)), {}, 30)))
            if len(vals) == 3:
                tag = f"C27.space_like.{lab}[order=4,fhmruvv,nf={nf}]"
                chk.ground(f"{tag}.central.lnN_coefficient_is_A_4", abs(vals[0] - lit) <= band, fn=fn_ns, replay=rp, backend="asymptotic-expansion+exact-eval",
                           goal="central member: coefficient of ln N within the quoted uncertainty 20702(2) - 5171.9(2) nf of A_4", detail=f"ln N coefficient {vals[0]:.6f}, A_4 = {lit:.6f}, allowed +-{band:.2f}")
                chk.ground(f"{tag}.band.brackets_A_4", (vals[1] - lit) * (vals[2] - lit) <= 0 and max(abs(vals[1] - lit), abs(vals[2] - lit)) <= 4 * band, fn=fn_ns, replay=rp,
                           backend="asymptotic-expansion+exact-eval", goal="error-band members: ln N coefficients on either side of A_4, each within 4x the quoted uncertainty",
                           detail=f"ln N coefficients {vals[1]:.6f} / {vals[2]:.6f}, A_4 = {lit:.6f}")
        for v in (0, 1, 2):
            var = (v, 0, 0, 0, 0, 0, 0)
            ex = expansions(f"C27.space_like.gg[fhmruvv,nf={nf},var={v}]", lambda: [g[1][1] for g in sl.gamma_singlet((4, 0), N, nf, var, True)][3:], fn_s)
            if not ex or ex[0] is None:
                continue
            tag = f"C27.space_like.gg[order=4,fhmruvv,nf={nf},var={v}]"
            growth(tag, ex[0], fn_s, rp)
            got = float(mp.re(T.evalmp(P.poly_to_sym(ex[0].coeff(0, 1)), {}, 30)))
            want = float(CA / CF) * lit
            chk.ground(f"{tag}.lnN_coefficient_is_(CA/CF)A_4", abs(got - want) <= float(CA / CF) * band, fn=fn_s, replay=rp_gg4, backend="asymptotic-expansion+exact-eval",
                       goal="coefficient of ln N == (CA/CF) A_4 within the quoted uncertainty", detail=f"ln N coefficient {got:.6f}, (CA/CF) A_4 = {want:.6f}")
            chk.ground(f"{tag}.lnN_coefficient_is_(CA/CF)A_4_or_the_recorded_gluon_cusp", abs(got - want) <= float(CA / CF) * band or abs(got - litg) <= 0.01 * (1 + nf), fn=fn_s, replay=rp,
                       backend="asymptotic-expansion+exact-eval", goal="pins known finding F27: the only admitted deviation from (CA/CF) A_4 is the literature four-loop gluon cusp coefficient",
                       detail=f"ln N coefficient {got:.6f}, (CA/CF) A_4 = {want:.6f}, literature gluon value {litg:.6f}")

    # ---- time-like and polarised non-singlet: the same A_k ---------------------------------------------------------------------------------
    for lab2, mod in (("time_like", tl), ("polarised", pl)):
        fn = f"ekore.anomalous_dimensions.{'unpolarized.time_like' if mod is tl else 'polarized.space_like'}:gamma_ns"
        seen = {}
        for mode, lab in MODES:
            ex = expansions(f"C27.{lab2}.{lab}", lambda: list(mod.gamma_ns((3, 0), mode, N, nfs)), fn)
            for k, a in enumerate(ex or [], start=1):
                if a is None:
                    continue
                seen[lab, k] = a
                tag = f"C27.{lab2}.{lab}[order={k}]"
                growth(tag, a, fn, rp)
                cusp(tag, a, A_spec(k, nfs), TOL[k], fn, rp, f"A_{k}")
        if mod is tl and ("nsV", 3) in seen and ("ns-", 3) in seen:
            a, m = seen["nsV", 3], seen["ns-", 3]
            chk.ground("C27.time_like.nsV[order=3].lnN_coefficient_is_A_3_or_the_recorded_sign_flip_of_the_ns-_part", within(a, A_spec(3, nfs), TOL[3]) or not P.p_add(a.coeff(0, 1), m.coeff(0, 1)),
                       fn=fn, replay=rp, backend="asymptotic-expansion+exact-eval", goal="pins known finding F28: the only admitted deviation is gamma_nsv ~ -gamma_nsm",
                       detail="ln N coefficient " + P.p_str(a.coeff(0, 1), 8))
    undo()
