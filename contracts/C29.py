"""C29 -- matching elements obey sum rules and renormalisation-group structure (exact clauses through O(a_s^2)).

cern_polygamma is replaced by its contract (contracts/harmonic_spec.py); basis of the 3x3 matching matrices: (g, q = light singlet, h); L = ln(mu^2 / m_h^2).
  (1) momentum at N = 2, unpolarised space-like (rows g + q + h of a column):
        O(a_s)    all three columns, identically in L (exact);
        O(a_s^2)  light-quark column identically in L (exact); gluon column: the coefficients of L and L^2 vanish exactly, the L-independent term vanishes up to
                  the accuracy of the approximated Mellin transform g3 it contains (|residual| <= 1e-5 of the largest entry: a ground numerical statement);
                  both mass schemes (pole / MSbar)
  (2) quark number at N = 1:  A_qq,ns^(1)(1) == A_qq,ns^(2)(1) == 0 exactly, identically in L
  (3) renormalisation-group structure of the L dependence.  From f^(nf+1) = A(L, a) f^(nf), a = a_s^(nf+1), d f/d ln mu^2 = -gamma f in both schemes,
      d a/d ln mu^2 = -beta_0^(nf+1) a^2 and the coupling decoupling a^(nf) = a (1 - 4/3 T_R L a):
        O(a_s)    d A1/dL == gamma0_emb^(nf) - gamma0^(nf+1)                          (all nine entries, symbolic N, nf = 3, 4, 5; and the non-singlet matrix)
        O(a_s^2)  [L^2] A2 == 1/2 ( A1' gamma0_emb^(nf) - gamma0^(nf+1) A1' + beta0^(nf+1) A1' - 4/3 T_R gamma0_emb^(nf) ),  A1' = dA1/dL   (gluon and light-quark columns)
                  [L^1] A2 == gamma1_emb^(nf) - gamma1^(nf+1)   (NLO anomalous dimensions, same columns);   non-singlet: [L^1], [L^2] of A_qq,ns^(2) likewise
      with gamma0^(nf+1) the LO anomalous dimensions of nf + 1 flavours in the (g, q, h) basis and gamma0_emb^(nf) those of nf flavours with a non-evolving intrinsic h.
      Polarised space-like O(a_s): the same equation for the gluon and light-quark columns (no intrinsic heavy column is implemented).
        O(a_s^3)  [L^3] A3 == 1/3 ( (2 beta0^(nf+1) - gamma0^(nf+1)) [L^2]A2 + [L^2]A2 gamma0_emb - c11 A1' gamma0_emb + c11^2 gamma0_emb ),  c11 = 4/3 T_R, through the dispatcher (at 6 sample moments to 1e-12: the code's coefficients are 16-digit decimals)
Not claimed: the lower logarithms and the sum rules at O(a_s^3) (parametrised terms with removable singularities at N = 2), the heavy-quark (intrinsic) column beyond O(a_s) -- the code implements no O(a_s^2) intrinsic matching, so the
RG equation is not satisfied there --, the time-like (fragmentation) RG structure.
"""
from fractions import Fraction as Q

import numpy as np

from pyvc import terms as T
from pyvc.replay import script
from contracts.common import coeffs_in

REPLAY = '''
def replay():
    import importlib
    ous = importlib.import_module("ekore.operator_matrix_elements.unpolarized.space_like")
    from ekore.anomalous_dimensions.unpolarized.space_like import as1
    from ekore.harmonics import cache as hc
    from eko import beta, constants
    out = []
    for nf in (3, 4, 5):
        for L in (-2.0, 0.7, 3.0):
            for msbar in (False, True):
                A = ous.A_singlet((2, 0), 2.0 + 1e-9, nf, L, msbar)
                for k in range(2):
                    col = np.abs(A[k].sum(axis=0)[:2])
                    if col.max() > 2e-5 * max(1.0, np.abs(A[k]).max()): out.append(f"nf={nf} L={L} msbar={msbar}: momentum sum rule at order {k+1}: column sums {A[k].sum(axis=0)}")
            An = ous.A_non_singlet((2, 0), 1.0 + 1e-9, nf, L)
            if max(abs(An[0][0, 0]), abs(An[1][0, 0])) > 1e-6: out.append(f"nf={nf} L={L}: A_qq,ns(1) = {An[0][0,0]}, {An[1][0,0]}")
        # RG structure at O(a_s): finite difference in L
        N = 3.3 + 0.8j
        def g0(n_f):
            c = hc.reset()
            return as1.gamma_gg(N, c, n_f), as1.gamma_gq(N), as1.gamma_qg(N, n_f), as1.gamma_ns(N, c)
        gg, gq, qg, ns = g0(nf); gg1, gq1, qg1, ns1 = g0(nf + 1)
        emb = np.array([[gg, gq, 0], [qg, ns, 0], [0, 0, 0]])
        full = np.array([[gg1, gq1, gq1], [nf / (nf + 1) * qg1, ns1, 0], [qg1 / (nf + 1), 0, ns1]])
        d1 = ous.A_singlet((1, 0), N, nf, 1.0, False)[0] - ous.A_singlet((1, 0), N, nf, 0.0, False)[0]
        if np.max(np.abs(d1 - (emb - full))) > 1e-9: out.append(f"nf={nf}: dA1/dL differs from gamma0_emb(nf) - gamma0(nf+1) by {np.max(np.abs(d1 - (emb - full))):.2e}")
        a2 = [ous.A_singlet((2, 0), N, nf, Lv, False)[1] for Lv in (0.0, 1.0, 2.0)]
        l2 = (a2[2] - 2 * a2[1] + a2[0]) / 2
        b0 = beta.beta_qcd((2, 0), nf + 1)
        want = 0.5 * (d1 @ emb - full @ d1 + b0 * d1 - 4 / 3 * constants.TR * emb)
        if np.max(np.abs((l2 - want)[:, :2])) > 1e-8: out.append(f"nf={nf}: L^2 coefficient of A2 differs from the RG prediction by {np.max(np.abs((l2 - want)[:, :2])):.2e}")
        a3 = [ous.A_singlet((3, 0), N, nf, Lv, False)[2] for Lv in (0.0, 1.0, 2.0, 3.0)]
        l3 = (a3[3] - 3 * a3[2] + 3 * a3[1] - a3[0]) / 6
        c11 = 4 / 3 * constants.TR
        want3 = ((2 * b0) * l2 - full @ l2 + l2 @ emb - c11 * (d1 @ emb) + c11**2 * emb) / 3
        if np.max(np.abs((l3 - want3)[:, :2])) > 1e-7 * max(1.0, np.max(np.abs(want3))): out.append(f"nf={nf}: L^3 coefficient of A3 differs from the RG prediction by {np.max(np.abs((l3 - want3)[:, :2])):.2e}")
        # L^2 coefficient of A3 (Lagrange coefficients of a cubic through L = 0, 1, 2, 3), NLO anomalous dimensions and the decoupling of the coupling
        from ekore.anomalous_dimensions.unpolarized.space_like import as2 as g2
        from eko import couplings as cpl
        l2_3 = (-a3[3] + 4 * a3[2] - 5 * a3[1] + 2 * a3[0]) / 2
        l1_2 = (-a2[2] + 4 * a2[1] - 3 * a2[0]) / 2
        def g1(n_f):
            return g2.gamma_gg(N, n_f, hc.reset()), g2.gamma_gq(N, n_f, hc.reset()), g2.gamma_qg(N, n_f, hc.reset()), g2.gamma_nsp(N, n_f, hc.reset()), g2.gamma_ps(N, n_f)
        gg_, gq_, qg_, nsp_, ps_ = g1(nf); gg1_, gq1_, qg1_, nsp1_, ps1_ = g1(nf + 1)
        r = nf / (nf + 1)
        emb1 = np.array([[gg_, gq_, 0], [qg_, nsp_ + ps_, 0], [0, 0, 0]])
        full1 = np.array([[gg1_, gq1_, gq1_], [r * qg1_, nsp1_ + r * ps1_, r * ps1_], [qg1_ / (nf + 1), ps1_ / (nf + 1), nsp1_ + ps1_ / (nf + 1)]])
        cd = cpl.compute_matching_coeffs_down("POLE", nf)
        b1 = beta.beta_qcd((3, 0), nf + 1)
        A1c = ous.A_singlet((1, 0), N, nf, 0.0, False)[0]
        want2_3 = ((2 * b0) * l1_2 - full @ l1_2 + l1_2 @ emb + b1 * d1 - full1 @ d1 + d1 @ emb1 + 2 * cd[1, 1] * emb1 + cd[2, 1] * emb + cd[1, 1] * (A1c @ emb)) / 2
        dev = np.max(np.abs((l2_3 - want2_3)[:, :2])) / max(1.0, np.max(np.abs(want2_3)))
        if dev > 1e-4: out.append(f"nf={nf}: L^2 coefficient of A3 differs from the RG prediction by {dev:.2e} (relative)")
        # every element on an empty cache is the entry of the tower
        from ekore.operator_matrix_elements.unpolarized.space_like import as3 as o3
        for Nv in (2.5 + 0.0j, 3.3 + 0.8j):
            tower = ous.A_singlet((3, 0), Nv, nf, 0.7, False)[2]
            for name, val, ent in (("A_Hq", o3.A_Hq(Nv, hc.reset(), nf, 0.7), tower[2, 1]), ("A_Hg", o3.A_Hg(Nv, hc.reset(), nf, 0.7), tower[2, 0]), ("A_gq", o3.A_gq(Nv, hc.reset(), nf, 0.7), tower[0, 1]),
                                   ("A_gg", o3.A_gg(Nv, hc.reset(), nf, 0.7), tower[0, 0]), ("A_qg", o3.A_qg(Nv, hc.reset(), nf, 0.7), tower[1, 0])):
                if abs(val - ent) > 1e-9 * max(1.0, abs(ent)): out.append(f"nf={nf}, N={Nv}: {name} on an empty cache is {val}, in the tower {ent}")
    return bool(out), "; ".join(out[:4]) if out else "sum rules and RG structure of the matching elements hold natively"
'''


TOL_L2A3 = 1e-4        # observed on the unchanged tree: 2.4e-6 (the NLO anomalous dimensions contain approximated Mellin transforms)


def run(chk):
    import importlib
    from contracts import harmonic_spec
    ous = importlib.import_module("ekore.operator_matrix_elements.unpolarized.space_like")
    ops = importlib.import_module("ekore.operator_matrix_elements.polarized.space_like")
    from ekore.anomalous_dimensions.unpolarized.space_like import as1 as g_us
    from ekore.anomalous_dimensions.polarized.space_like import as1 as g_ps
    from ekore.harmonics import cache as hc
    from eko import beta, constants

    rp = script(REPLAY, kind="ome_oracle")
    chk.under_contract("ekore.operator_matrix_elements.unpolarized.space_like:A_singlet", "ekore.operator_matrix_elements.unpolarized.space_like:A_non_singlet",
                       "ekore.operator_matrix_elements.unpolarized.space_like.as1:*", "ekore.operator_matrix_elements.unpolarized.space_like.as2:*",
                       "ekore.operator_matrix_elements.polarized.space_like.as1:*", "ekore.anomalous_dimensions.unpolarized.space_like.as1:*", "ekore.anomalous_dimensions.polarized.space_like.as1:*")
    chk.trust("contract of cern_polygamma (contracts/harmonic_spec.py)", "lemma: derivation of the RG equations of the docstring (chain rule on f^(nf+1) = A f^(nf))", "C16: coupling decoupling a^(nf) = a (1 - 4/3 T_R L a + ...)", "C20: beta_0")
    chk.uncovered("O(a_s^3) matching (parametrised, removable singularities at N = 2)", "the intrinsic heavy-quark column beyond O(a_s): no O(a_s^2) intrinsic matching elements are implemented, the RG equation cannot hold for that column", "time-like RG structure; polarised beyond O(a_s)")
    undo = harmonic_spec.install()
    L, N = T.var("L"), T.var("N")
    RG = {"N": (2.5, 6.0), "L": (-2.0, 3.0)}
    zero3 = np.array([Q(0)] * 3, dtype=object)
    try:
        # ---- (1) momentum at N = 2 ---------------------------------------------------------------------------------------------------------------
        for nf in (3, 4, 5):
            for msbar in (False, True):
                A = ous.A_singlet((2, 0), Q(2), nf, L, msbar)
                t = f"[nf={nf},msbar={msbar}]"
                cols1 = np.array([A[0][0, c] + A[0][1, c] + A[0][2, c] for c in range(3)], dtype=object)
                chk.eq_array(f"C29.momentum.order1{t}", cols1, zero3, fn="ekore.operator_matrix_elements.unpolarized.space_like.as1:A_singlet", goal="O(a_s): g + q + h rows of every column vanish at N = 2 for every L", replay=rp, ranges=RG)
                colq = A[1][0, 1] + A[1][1, 1] + A[1][2, 1]
                chk.eq(f"C29.momentum.order2.quark_column{t}", colq, 0, fn="ekore.operator_matrix_elements.unpolarized.space_like.as2:A_singlet", goal="O(a_s^2): light-quark column vanishes at N = 2 for every L", replay=rp, ranges=RG)
                colg = T.lift(A[1][0, 0] + A[1][1, 0] + A[1][2, 0])
                cs = coeffs_in(colg, "L", 3)
                chk.eq(f"C29.momentum.order2.gluon_column.L^1{t}", cs[1], 0, fn="ekore.operator_matrix_elements.unpolarized.space_like.as2:A_singlet", goal="O(a_s^2) gluon column: coefficient of L vanishes exactly", replay=rp)
                chk.eq(f"C29.momentum.order2.gluon_column.L^2{t}", cs[2], 0, fn="ekore.operator_matrix_elements.unpolarized.space_like.as2:A_singlet", goal="O(a_s^2) gluon column: coefficient of L^2 vanishes exactly", replay=rp)
                res = abs(complex(T.evalmp(T.lift(cs[0]), {}, 40)))
                scale = max(abs(complex(T.evalmp(T.lift(A[1][r, 0]), {"L": Q(0)}, 40))) for r in range(3))
                chk.ground(f"C29.momentum.order2.gluon_column.L^0{t}", res <= 1e-5 * max(1.0, scale), fn="ekore.operator_matrix_elements.unpolarized.space_like.as2:A_singlet", replay=rp, backend="exact-eval+mpmath",
                           goal="O(a_s^2) gluon column: L-independent term vanishes within the accuracy of the approximated Mellin transform (<= 1e-5 of the largest entry)", detail=f"residual {res:.3e}, scale {scale:.3e}")
            # ---- (2) quark number at N = 1 -------------------------------------------------------------------------------------------------------
            An = ous.A_non_singlet((2, 0), Q(1), nf, L)
            chk.eq_array(f"C29.quark_number[nf={nf}]", np.array([An[0][0, 0], An[1][0, 0]], dtype=object), np.array([Q(0), Q(0)], dtype=object), fn="ekore.operator_matrix_elements.unpolarized.space_like:A_non_singlet", replay=rp, ranges=RG,
                         goal="A_qq,ns(1) == 0 at O(a_s) and O(a_s^2) for every L")
            chk.configs += 1

        # ---- (3) RG structure ---------------------------------------------------------------------------------------------------------------------
        def lo(mod, n_f):
            c = hc.reset()
            ns = g_us.gamma_ns(N, c)          # the LO non-singlet anomalous dimension is the same function in the polarised case
            return mod.gamma_gg(N, hc.reset(), n_f), mod.gamma_gq(N), mod.gamma_qg(N, n_f), ns

        for nf in (3, 4, 5):
            for label, gmod, omod, cols in (("unpolarised", g_us, ous, (0, 1, 2)), ("polarised", g_ps, ops, (0, 1))):
                gg, gq, qg, ns = lo(gmod, nf)
                gg1, gq1, qg1, ns1 = lo(gmod, nf + 1)
                emb = np.array([[gg, gq, Q(0)], [qg, ns, Q(0)], [Q(0), Q(0), Q(0)]], dtype=object)
                full = np.array([[gg1, gq1, gq1], [Q(nf, nf + 1) * qg1, ns1, Q(0)], [qg1 / (nf + 1), Q(0), ns1]], dtype=object)
                A1 = omod.A_singlet((1, 0), N, nf, L, False)[0] if label == "unpolarised" else omod.A_singlet((1, 0), N, nf, L)[0]
                dA1 = np.vectorize(lambda e: T.diff(T.lift(e), "L"), otypes=[object])(np.array(A1, dtype=object))
                want = emb - full
                sel = np.ix_(range(3), list(cols))
                chk.eq_array(f"C29.rg.order1.{label}[nf={nf}]", dA1[sel], want[sel], fn=f"ekore.operator_matrix_elements.{'unpolarized' if label == 'unpolarised' else 'polarized'}.space_like.as1:A_singlet", replay=rp, ranges=RG,
                             goal="dA1/dL == gamma0_emb(nf) - gamma0(nf+1) in the (g, q, h) basis" + ("" if len(cols) == 3 else " (gluon and light-quark columns)"))
                if label == "unpolarised":
                    An = omod.A_non_singlet((1, 0), N, nf, L)[0]
                    dAn = np.vectorize(lambda e: T.diff(T.lift(e), "L"), otypes=[object])(np.array(An, dtype=object))
                    chk.eq_array(f"C29.rg.order1.non_singlet[nf={nf}]", dAn, np.array([[Q(0), Q(0)], [Q(0), -ns1]], dtype=object), fn="ekore.operator_matrix_elements.unpolarized.space_like.as1:A_ns", replay=rp, ranges=RG,
                                 goal="non-singlet: dA1/dL == diag(0, -gamma_ns) (light quarks unchanged, intrinsic heavy quark acquires its evolution)")
                    A2 = omod.A_singlet((2, 0), N, nf, L, False)[1]
                    l2 = np.vectorize(lambda e: coeffs_in(T.lift(e), "L", 3)[2], otypes=[object])(np.array(A2, dtype=object))
                    b0 = beta.beta_qcd((2, 0), nf + 1)
                    spec = (dA1 @ emb - full @ dA1 + b0 * dA1 - Q(4, 3) * constants.TR * emb) / 2
                    sel2 = np.ix_(range(3), [0, 1])
                    # O(a_s^3): triple logs through the dispatcher (the entry point the kernels use), from the same chain rule:
                    #   3 [L^3]A3 == (2 beta0' - gamma0') [L^2]A2 + [L^2]A2 gamma0_emb - c11 A1' gamma0_emb + c11^2 gamma0_emb,   c11 = 4/3 T_R
                    A3 = omod.A_singlet((3, 0), N, nf, L, False)[2]
                    l3 = np.vectorize(lambda e: coeffs_in(T.lift(e), "L", 4)[3], otypes=[object])(np.array(A3, dtype=object))
                    c11 = Q(4, 3) * constants.TR
                    spec3 = ((2 * b0) * l2 - full @ l2 + l2 @ emb - c11 * (dA1 @ emb) + c11 ** 2 * emb) / 3
                    # the O(a_s^3) code writes its rational coefficients as 16-digit decimals: the identity holds up to their rounding (1e-16), so it is
                    # evaluated with 40 digits at sample moments and compared to 1e-12 (a ground numerical statement per sample, not an identity in N)
                    worst, where = 0.0, None
                    for Nv in (Q(5, 2), Q(17, 5), Q(41, 10), Q(27, 5), Q(71, 10), Q(9)):
                        for r in range(3):
                            for cidx in (0, 1):
                                x = complex(T.evalmp(T.lift(l3[r, cidx]), {"N": Nv}, 40))
                                y = complex(T.evalmp(T.lift(spec3[r, cidx]), {"N": Nv}, 40))
                                dev = abs(x - y) / max(1.0, abs(y))
                                if dev > worst:
                                    worst, where = dev, (float(Nv), r, cidx, x, y)
                    chk.ground(f"C29.rg.order3.triple_logs[nf={nf}]", worst <= 1e-12, fn="ekore.operator_matrix_elements.unpolarized.space_like:A_singlet", replay=rp, backend="exact-eval+mpmath",
                               goal="[L^3] A3 == 1/3 ((2 beta0' - gamma0') [L^2]A2 + [L^2]A2 gamma0_emb - c11 A1' gamma0_emb + c11^2 gamma0_emb), gluon and light-quark columns, at 6 sample moments to 1e-12",
                               detail=f"largest relative deviation {worst:.2e} at (N, row, column, code, RG) = {where}")
                    # O(a_s^2) single logs: [L^1]A2 == gamma1_emb(nf) - gamma1(nf+1) on the gluon and light-quark columns (the L-independent part of A1 lives in the heavy column only)
                    from ekore.anomalous_dimensions.unpolarized.space_like import as2 as g2

                    def nlo(n_f):
                        return g2.gamma_gg(N, n_f, hc.reset()), g2.gamma_gq(N, n_f, hc.reset()), g2.gamma_qg(N, n_f, hc.reset()), g2.gamma_nsp(N, n_f, hc.reset()), g2.gamma_ps(N, n_f)
                    gg_, gq_, qg_, nsp_, ps_ = nlo(nf)
                    gg1_, gq1_, qg1_, nsp1_, ps1_ = nlo(nf + 1)
                    emb1 = np.array([[gg_, gq_, Q(0)], [qg_, nsp_ + ps_, Q(0)], [Q(0), Q(0), Q(0)]], dtype=object)
                    full1 = np.array([[gg1_, gq1_, gq1_], [Q(nf, nf + 1) * qg1_, nsp1_ + Q(nf, nf + 1) * ps1_, Q(nf, nf + 1) * ps1_], [qg1_ / (nf + 1), ps1_ / (nf + 1), nsp1_ + ps1_ / (nf + 1)]], dtype=object)
                    l1 = np.vectorize(lambda e: coeffs_in(T.lift(e), "L", 3)[1], otypes=[object])(np.array(A2, dtype=object))
                    chk.eq_array(f"C29.rg.order2.single_logs[nf={nf}]", l1[sel2], (emb1 - full1)[sel2], fn="ekore.operator_matrix_elements.unpolarized.space_like.as2:A_singlet", replay=rp, ranges=RG,
                                 goal="[L^1] A2 == gamma1_emb(nf) - gamma1(nf+1) (NLO anomalous dimensions of both schemes in the (g, q, h) basis), gluon and light-quark columns")
                    # MSbar masses: the mass parameter m(m) does not run, so the L dependence required by RG invariance is the same as for pole masses -- the two
                    # schemes may differ by an L-INDEPENDENT term only (the conversion of the mass inside the O(a_s) logarithm)
                    A2m = omod.A_singlet((2, 0), N, nf, L, True)[1]
                    for pw in (1, 2):
                        lm = np.vectorize(lambda e, pw=pw: coeffs_in(T.lift(e), "L", 3)[pw], otypes=[object])(np.array(A2m, dtype=object))
                        lp = np.vectorize(lambda e, pw=pw: coeffs_in(T.lift(e), "L", 3)[pw], otypes=[object])(np.array(A2, dtype=object))
                        chk.eq_array(f"C29.rg.order2.msbar_same_logs[nf={nf},L^{pw}]", lm, lp, fn="ekore.operator_matrix_elements.unpolarized.space_like.as2:A_singlet", replay=rp, ranges=RG,
                                     goal="MSbar masses: the coefficients of L and L^2 of A2 are those of the pole scheme (the schemes differ by an L-independent term)")
                    An2 = omod.A_non_singlet((2, 0), N, nf, L)[1]
                    ns_l = coeffs_in(T.lift(An2[0, 0]), "L", 3)
                    chk.eq(f"C29.rg.order2.non_singlet.single_log[nf={nf}]", ns_l[1], nsp_ - nsp1_, fn="ekore.operator_matrix_elements.unpolarized.space_like.as2:A_qq_ns", replay=rp, ranges=RG, goal="[L^1] A_qq,ns^(2) == gamma_ns+^(1)(nf) - gamma_ns+^(1)(nf+1)")
                    chk.eq(f"C29.rg.order2.non_singlet.double_log[nf={nf}]", ns_l[2], -Q(4, 3) * constants.TR * ns / 2, fn="ekore.operator_matrix_elements.unpolarized.space_like.as2:A_qq_ns", replay=rp, ranges=RG, goal="[L^2] A_qq,ns^(2) == -1/2 * 4/3 T_R * gamma_ns^(0)")
                    # O(a_s^3) non-singlet through the dispatcher: the L^3 and L^2 coefficients of A_qq,ns^(3) from the same chain rule (commuting case), with the decoupled
                    # coupling a^(nf) = a' (1 + d11 L a' + (d20 + d21 L + d22 L^2) a'^2) of C16:
                    #   3 [L^3] == 2 beta0' [L^2]A2 + gamma0 d22,      2 [L^2] == 2 beta0' [L^1]A2 + 2 gamma1_ns-(nf) d11 + gamma0 d21
                    from eko import couplings as cpl_
                    cd = cpl_.compute_matching_coeffs_down("POLE", nf)
                    An3 = omod.A_non_singlet((3, 0), N, nf, L)[2]
                    ns3 = coeffs_in(T.lift(An3[0, 0]), "L", 4)
                    g1m = g2.gamma_nsm(N, nf, hc.reset())
                    want3 = (2 * b0 * ns_l[2] + ns * cd[2, 2]) / 3
                    want2 = (2 * b0 * ns_l[1] + 2 * g1m * cd[1, 1] + ns * cd[2, 1]) / 2
                    worst, where = 0.0, None
                    for Nv in (Q(5, 2), Q(17, 5), Q(4), Q(27, 5), Q(71, 10), Q(8)):        # even and non-integer moments (the continuation eta = -1 matters there)
                        for lab_, got_, exp_ in (("L^3", ns3[3], want3), ("L^2", ns3[2], want2)):
                            x = complex(T.evalmp(T.lift(got_), {"N": Nv}, 40))
                            y = complex(T.evalmp(T.lift(exp_), {"N": Nv}, 40))
                            dev = abs(x - y) / max(1.0, abs(y))
                            if dev > worst:
                                worst, where = dev, (float(Nv), lab_, x, y)
                    chk.ground(f"C29.rg.order3.non_singlet.higher_logs[nf={nf}]", worst <= 1e-6, fn="ekore.operator_matrix_elements.unpolarized.space_like:A_non_singlet", replay=rp, backend="exact-eval+mpmath",
                               goal="[L^3] and [L^2] of A_qq,ns^(3) equal the RG values built from beta0(nf+1), gamma_ns^(0), gamma_ns-^(1)(nf), the O(a_s^2) logs and the decoupling coefficients, at 6 sample moments to 1e-6 (the NLO ingredients contain approximated Mellin transforms: observed 6e-8)",
                               detail=f"largest relative deviation {worst:.2e} at (N, coefficient, code, RG) = {where}")
                    # O(a_s^3) singlet double logs through the dispatcher, from the a^3 order of the same chain rule
                    #   dA3/dL = 2 beta0' A2 + beta1' A1 - gamma2' - gamma1' A1 - gamma0' A2 + gamma2_emb + 2 d1 gamma1_emb + d2 gamma0_emb + A1 (gamma1_emb + d1 gamma0_emb) + A2 gamma0_emb,
                    # d1 = d11 L, d2 = d20 + d21 L + d22 L^2 the decoupling of the coupling; its coefficient of L gives
                    #   2 [L^2]A3 == (2 beta0' - gamma0') [L^1]A2 + [L^1]A2 gamma0_emb + (beta1' - gamma1') A1' + A1' gamma1_emb + 2 d11 gamma1_emb + d21 gamma0_emb + d11 A1(L=0) gamma0_emb
                    b1 = beta.beta_qcd((3, 0), nf + 1)
                    l1m = np.array(l1, dtype=object)
                    A1c = np.vectorize(lambda e: coeffs_in(T.lift(e), "L", 2)[0], otypes=[object])(np.array(A1, dtype=object))
                    l2_3 = np.vectorize(lambda e: coeffs_in(T.lift(e), "L", 4)[2], otypes=[object])(np.array(A3, dtype=object))
                    spec2_3 = ((2 * b0) * l1m - full @ l1m + l1m @ emb + b1 * dA1 - full1 @ dA1 + dA1 @ emb1 + (2 * cd[1, 1]) * emb1 + cd[2, 1] * emb + cd[1, 1] * (A1c @ emb)) / 2
                    worst, where = 0.0, None
                    for Nv in (Q(5, 2), Q(3), Q(17, 5), Q(4), Q(27, 5), Q(71, 10), Q(8)):      # odd, even and non-integer moments: the singlet continuation (eta = +1) is what the elements must use
                        for r in range(3):
                            for cidx in (0, 1):
                                x = complex(T.evalmp(T.lift(l2_3[r, cidx]), {"N": Nv}, 40))
                                y = complex(T.evalmp(T.lift(spec2_3[r, cidx]), {"N": Nv}, 40))
                                dev = abs(x - y) / max(1.0, abs(y))
                                if dev > worst:
                                    worst, where = dev, (float(Nv), r, cidx, x, y)
                    chk.ground(f"C29.rg.order3.double_logs[nf={nf}]", worst <= TOL_L2A3, fn="ekore.operator_matrix_elements.unpolarized.space_like:A_singlet", replay=rp, backend="exact-eval+mpmath",
                               goal="[L^2] A3 equals the RG value built from beta0', beta1', the LO and NLO anomalous dimensions of both schemes, the O(a_s), O(a_s^2) logs and the decoupling coefficients; gluon and light-quark columns, 7 sample moments (odd, even, non-integer), to 1e-4",
                               detail=f"largest relative deviation {worst:.2e} at (N, row, column, code, RG) = {where}")
                    chk.eq_array(f"C29.rg.order2.double_logs[nf={nf}]", l2[sel2], spec[sel2], fn="ekore.operator_matrix_elements.unpolarized.space_like.as2:A_singlet", replay=rp, ranges=RG,
                                 goal="[L^2] A2 == 1/2 (A1' gamma0_emb - gamma0' A1' + beta0' A1' - 4/3 T_R gamma0_emb), gluon and light-quark columns")
        # ---- (4) the elements on their own -----------------------------------------------------------------------------------------------------------
        # The statements above are made through the dispatchers, where the elements of one order share the harmonic-sum cache with the orders computed
        # before.  Every element function has the contract "for every well-formed cache (entries absent or equal to the sum of this N in the singlet /
        # non-singlet continuation the element asks for) the value is the same": evaluated on an EMPTY cache it must be the entry of the tower.
        us2 = importlib.import_module("ekore.operator_matrix_elements.unpolarized.space_like.as2")
        us3 = importlib.import_module("ekore.operator_matrix_elements.unpolarized.space_like.as3")
        ps2 = importlib.import_module("ekore.operator_matrix_elements.polarized.space_like.as2")
        SAMPLES = ({"N": Q(5, 2), "L": Q(7, 10)}, {"N": Q(17, 5), "L": Q(-2)}, {"N": Q(3), "L": Q(3, 2)})

        def same_value(a, b):
            a, b = T.lift(a), T.lift(b)
            if a.n == b.n:
                return True, ""
            for pt in SAMPLES:
                x, y = complex(T.evalmp(a, pt, 40)), complex(T.evalmp(b, pt, 40))
                if abs(x - y) > 1e-25 * max(1.0, abs(y)):
                    return False, f"at N = {float(pt['N'])}, L = {float(pt['L'])}: {x} on an empty cache, {y} in the tower"
            return True, ""

        for nf in (3, 4, 5):
            tower = ous.A_singlet((3, 0), N, nf, L, False)
            tower_ns = ous.A_non_singlet((3, 0), N, nf, L)
            alone = [
                ("as2.A_gg", lambda: us2.A_gg(N, hc.reset(), L), tower[1][0, 0]), ("as2.A_gq", lambda: us2.A_gq(N, hc.reset(), L), tower[1][0, 1]),
                ("as2.A_hg", lambda: us2.A_hg(N, hc.reset(), L), tower[1][2, 0]), ("as2.A_hq_ps", lambda: us2.A_hq_ps(N, hc.reset(), L), tower[1][2, 1]),
                ("as2.A_qq_ns", lambda: us2.A_qq_ns(N, hc.reset(), L), tower[1][1, 1]), ("as2.A_qq_ns(non-singlet tower)", lambda: us2.A_qq_ns(N, hc.reset(), L), tower_ns[1][0, 0]),
                ("as3.A_gg", lambda: us3.A_gg(N, hc.reset(), nf, L), tower[2][0, 0]), ("as3.A_gq", lambda: us3.A_gq(N, hc.reset(), nf, L), tower[2][0, 1]),
                ("as3.A_qg", lambda: us3.A_qg(N, hc.reset(), nf, L), tower[2][1, 0]), ("as3.A_Hg", lambda: us3.A_Hg(N, hc.reset(), nf, L), tower[2][2, 0]),
                ("as3.A_Hq", lambda: us3.A_Hq(N, hc.reset(), nf, L), tower[2][2, 1]),
                ("as3.A_qqPS+A_qqNS", lambda: us3.A_qqPS(N, hc.reset(), nf, L) + us3.A_qqNS(N, hc.reset(), nf, L, 1), tower[2][1, 1]),
                ("as3.A_qqNS(non-singlet tower)", lambda: us3.A_qqNS(N, hc.reset(), nf, L, -1), tower_ns[2][0, 0]),
            ]
            if nf == 3:
                ptower = ops.A_singlet((2, 0), N, nf, L)
                alone += [("polarised as2.A_gg", lambda: ps2.A_gg(N, hc.reset(), L), ptower[1][0, 0]), ("polarised as2.A_gq", lambda: ps2.A_gq(N, hc.reset(), L), ptower[1][0, 1]),
                          ("polarised as2.A_hg", lambda: ps2.A_hg(N, hc.reset(), L), ptower[1][2, 0]), ("polarised as2.A_hq_ps", lambda: ps2.A_hq_ps(N, hc.reset(), L, nf), ptower[1][2, 1])]
            for name, thunk, entry in alone:
                ok, why = same_value(thunk(), entry)
                chk.ground(f"C29.alone[{name},nf={nf}]", ok, fn="ekore.operator_matrix_elements:" + name.split("(")[0].replace("polarised ", "polarized."), replay=rp, backend="syntactic-identity+exact-eval",
                           goal="the element evaluated on an empty harmonic-sum cache equals the entry of the matching tower (where the cache was filled by the lower orders): its value does not depend on the cache history", detail=why)
    finally:
        undo()
    chk.extra["exhaustive"] = True
