"""C30 -- QED-extended anomalous dimensions embed the QCD ones with correct charges.

The leaf splitting functions (as1..as4, as4.fhmruvv, as1aem1: gamma_qq/qg/gq/gg/ns*/ps..., harmonic sums) are replaced by opaque atoms of their
arguments (callee contracts: "a function of (N, nf, variation)"); the real builders and dispatchers above them run symbolically.  Ensures, for every
order (k, j), k = 1..4, j = 1..2, nf = 3..6, symbolic N, both N3LO parametrisations:
  singlet   gamma_singlet_qed[i,0] (basis g, ph, Sigma, Sigma_Delta) == [[gg,0,gq,0],[0,0,0,0],[qg,0,qq,0],[0,0,0,ns+]] of gamma_singlet[i-1] / gamma_ns(10101)[i-1]
            -- in particular the photon row and column vanish at every pure-QCD order
  valence   gamma_valence_qed[i,0] == diag(gamma_ns(10200)[i-1], gamma_ns(10201)[i-1])                      (V <-> nsV, V_Delta <-> ns-)
  ns        gamma_ns_qed(mode)[i,0] == gamma_ns(10101)[i-1] for the plus modes 10102/10103, gamma_ns(10201)[i-1] for the minus modes 10202/10203; [0,0] == 0
  charges   [0,1] and [1,1]:  entry_u * e_d^2 == entry_d * e_u^2      (e_q^2 times one function)
            [0,2]          :  entry_q == e_q^2 * g(e_q^2), g(e^2) = e^2 X/(2 CF) + T with X = as1aem1.gamma_ns(p|m) and T common to u and d:
                              entry_u / e_u^2 - entry_d / e_d^2 == (e_u^2 - e_d^2) X / (2 CF)
requires (fhmruvv parametrisation): the qq and ns+ entries of n3lo_ad_variation coincide (the singlet block, including Sigma_Delta, follows the qq index).
"""
from fractions import Fraction as Q

import numpy as np

from pyvc import terms as T
from pyvc import vnp
from pyvc.replay import script

REPLAY = '''
def replay():
    import ekore.anomalous_dimensions.unpolarized.space_like as ad
    from eko import constants
    rng = np.random.default_rng(30)
    out = []
    for nf in (3, 4, 5, 6):
        for fh in (True, False):
            for var in ((0,) * 7, (1, 2, 1, 2, 2, 1, 2)):
                N = complex(rng.uniform(1.5, 4), rng.uniform(-1, 1))
                o = (4, 2)
                try:
                    S = ad.gamma_singlet_qed(o, N, nf, var, fh)
                except NotImplementedError:   # nf = 6 is not available at N3LO in the fhmruvv parametrisation
                    o = (3, 2)
                    S = ad.gamma_singlet_qed(o, N, nf, var, fh)
                V = ad.gamma_valence_qed(o, N, nf, var, fh)
                s = ad.gamma_singlet((o[0], 0), N, nf, var, fh)
                nsp, nsm, nsv = (ad.gamma_ns((o[0], 0), m, N, nf, var, fh) for m in (10101, 10201, 10200))
                for i in range(1, o[0] + 1):
                    want = np.zeros((4, 4), complex)
                    want[0, 0], want[0, 2], want[2, 0], want[2, 2], want[3, 3] = s[i-1][1, 1], s[i-1][1, 0], s[i-1][0, 1], s[i-1][0, 0], nsp[i-1]
                    if not np.allclose(S[i, 0], want, rtol=1e-12, atol=0): out.append(f"nf={nf} fhmruvv={fh} var={var}: singlet_qed[{i},0] is not the embedding of gamma_singlet[{i-1}] / ns+ (max dev {np.max(np.abs(S[i,0]-want)):.2e})")
                    if not np.allclose(V[i, 0], np.diag([nsv[i-1], nsm[i-1]]), rtol=1e-12, atol=0): out.append(f"nf={nf} fhmruvv={fh}: valence_qed[{i},0] != diag(nsV, ns-)")
                for mu, md, ref in ((10102, 10103, nsp), (10202, 10203, nsm)):
                    gu, gd = ad.gamma_ns_qed(o, mu, N, nf, var, fh), ad.gamma_ns_qed(o, md, N, nf, var, fh)
                    for i in range(1, o[0] + 1):
                        if not (np.isclose(gu[i, 0], ref[i-1], rtol=1e-12) and np.isclose(gd[i, 0], ref[i-1], rtol=1e-12)): out.append(f"nf={nf} fhmruvv={fh}: ns_qed modes {mu}/{md} [{i},0] != QCD non-singlet")
                    for ij in ((0, 1), (1, 1)):
                        if not np.isclose(gu[ij] * constants.ed2, gd[ij] * constants.eu2, rtol=1e-12): out.append(f"nf={nf}: ns_qed {ij} of modes {mu}/{md} are not charge-squared multiples of one function")
                    if gu[0, 0] != 0 or gd[0, 0] != 0: out.append("ns_qed[0,0] != 0")
                    from ekore.anomalous_dimensions.unpolarized.space_like import as1aem1
                    from ekore.harmonics import cache as hc
                    X = (as1aem1.gamma_nsp if mu == 10102 else as1aem1.gamma_nsm)(N, hc.reset())
                    if not np.isclose(gu[0, 2] / constants.eu2 - gd[0, 2] / constants.ed2, (constants.eu2 - constants.ed2) * X / constants.CF / 2, rtol=1e-10): out.append(f"nf={nf}: ns_qed [0,2] of modes {mu}/{md} are not e_q^2 g(e_q^2) with a common g")
    return bool(out), "; ".join(out[:5]) if out else "QED grids embed the QCD anomalous dimensions natively"
'''


def run(chk):
    import importlib
    ad = importlib.import_module("ekore.anomalous_dimensions.unpolarized.space_like")
    from ekore.anomalous_dimensions.unpolarized.space_like import as1, as2, as3, as4, as1aem1, aem1, aem2
    from ekore.harmonics import cache as hc
    from eko import constants

    fh = as4.fhmruvv
    rp = script(REPLAY, kind="qed_embedding_oracle")
    chk.under_contract(*[f"ekore.anomalous_dimensions.unpolarized.space_like:{f}" for f in
                         ("gamma_ns", "gamma_singlet", "gamma_ns_qed", "gamma_singlet_qed", "gamma_valence_qed", "choose_ns_ad_aem1", "choose_ns_ad_as1aem1", "choose_ns_ad_aem2")],
                       *[f"ekore.anomalous_dimensions.unpolarized.space_like.{m}:{f}" for m in ("as1", "as2", "as3", "as4", "as4.fhmruvv") for f in ("gamma_singlet", "gamma_singlet_qed", "gamma_valence_qed")],
                       "ekore.anomalous_dimensions.unpolarized.space_like.aem2:gamma_nspu", "ekore.anomalous_dimensions.unpolarized.space_like.aem2:gamma_nspd",
                       "ekore.anomalous_dimensions.unpolarized.space_like.aem2:gamma_nsmu", "ekore.anomalous_dimensions.unpolarized.space_like.aem2:gamma_nsmd",
                       "ekore.anomalous_dimensions.unpolarized.space_like.aem1:gamma_ns")
    chk.trust("leaf splitting functions and harmonic sums are functions of their arguments (opaque atoms); their values are the subject of C24-C27")
    chk.uncovered("fhmruvv with different qq and ns+ variation indices: Sigma_Delta follows the qq index, the non-singlet sector the ns+ index (precondition of the Sigma_Delta clause)")

    LEAVES = {
        as1: ("gamma_ns", "gamma_qg", "gamma_gq", "gamma_gg"),
        as2: ("gamma_nsm", "gamma_nsp", "gamma_ps", "gamma_qg", "gamma_gq", "gamma_gg"),
        as3: ("gamma_nsm", "gamma_nsp", "gamma_nsv", "gamma_ps", "gamma_qg", "gamma_gq", "gamma_gg"),
        as4: ("gamma_nsm", "gamma_nsp", "gamma_nsv", "gamma_ps", "gamma_qg", "gamma_gq", "gamma_gg"),
        fh: ("gamma_nsm", "gamma_nsp", "gamma_nsv", "gamma_ps", "gamma_qg", "gamma_gq", "gamma_gg"),
        as1aem1: ("gamma_phq", "gamma_qph", "gamma_gph", "gamma_phg", "gamma_qg", "gamma_gq", "gamma_phph", "gamma_gg", "gamma_nsp", "gamma_nsm"),
    }
    saved = []

    def atom_maker(tag):
        def f(*args, **kw):
            vals = [a for a in list(args) + [kw[k] for k in sorted(kw)] if isinstance(a, (T.Sym, int, Q)) and not isinstance(a, bool)]
            return T.app(tag, *[T.lift(v) for v in vals])
        return f

    for mod, names in LEAVES.items():
        short = mod.__name__.split("space_like.")[-1]
        for nm in names:
            saved.append((mod, nm, getattr(mod, nm)))
            setattr(mod, nm, atom_maker(f"{short}.{nm}"))
    saved.append((hc, "get", hc.get))
    hc.get = lambda key, cache, n, *a: T.app(f"S_{key}", T.lift(n))
    N = T.var("N")
    try:
        for nf in (3, 4, 5, 6):
            for use_fh in (True, False):
                for var in ((0,) * 7, (11, 12, 13, 14, 14, 15, 16)):
                    ref_s = ad.gamma_singlet((4, 0), N, nf, var, use_fh)
                    nsp, nsm, nsv = (ad.gamma_ns((4, 0), m, N, nf, var, use_fh) for m in (10101, 10201, 10200))
                    for k in (1, 2, 3, 4):
                        for j in (1, 2):
                            o = (k, j)
                            t = f"C30[nf={nf},fhmruvv={use_fh},var={'default' if var[0] == 0 else 'generic'},order={o}]"
                            S = ad.gamma_singlet_qed(o, N, nf, var, use_fh)
                            V = ad.gamma_valence_qed(o, N, nf, var, use_fh)
                            chk.ground(f"{t}.shapes", np.shape(S) == (k + 1, j + 1, 4, 4) and np.shape(V) == (k + 1, j + 1, 2, 2), fn="ekore.anomalous_dimensions.unpolarized.space_like:gamma_singlet_qed", goal="grids of shape (order_s+1, order_em+1, dim, dim)", replay=rp)
                            for i in range(1, k + 1):
                                want = vnp.zeros((4, 4))
                                want[0, 0], want[0, 2], want[2, 0], want[2, 2], want[3, 3] = ref_s[i - 1][1, 1], ref_s[i - 1][1, 0], ref_s[i - 1][0, 1], ref_s[i - 1][0, 0], nsp[i - 1]
                                chk.eq_array(f"{t}.singlet[{i},0]", S[i, 0], want, fn="ekore.anomalous_dimensions.unpolarized.space_like:gamma_singlet_qed", replay=rp,
                                             goal="pure-QCD entry == embedding of gamma_singlet (g, Sigma block), zero photon row/column, Sigma_Delta == ns+")
                                chk.eq_array(f"{t}.valence[{i},0]", V[i, 0], np.array([[nsv[i - 1], Q(0)], [Q(0), nsm[i - 1]]], dtype=object), fn="ekore.anomalous_dimensions.unpolarized.space_like:gamma_valence_qed", replay=rp,
                                             goal="pure-QCD entry == diag(nsV, ns-)")
                            chk.eq_array(f"{t}.singlet[0,0]", S[0, 0], vnp.zeros((4, 4)), fn="ekore.anomalous_dimensions.unpolarized.space_like:gamma_singlet_qed", goal="order (0,0) entry is zero", replay=rp)
                            chk.eq_array(f"{t}.valence[0,0]", V[0, 0], vnp.zeros((2, 2)), fn="ekore.anomalous_dimensions.unpolarized.space_like:gamma_valence_qed", goal="order (0,0) entry is zero", replay=rp)
                            for mu, md, ref, X in ((10102, 10103, nsp, as1aem1.gamma_nsp(N, None)), (10202, 10203, nsm, as1aem1.gamma_nsm(N, None))):
                                gu = ad.gamma_ns_qed(o, mu, N, nf, var, use_fh)
                                gd = ad.gamma_ns_qed(o, md, N, nf, var, use_fh)
                                fnn = "ekore.anomalous_dimensions.unpolarized.space_like:gamma_ns_qed"
                                for i in range(1, k + 1):
                                    chk.eq(f"{t}.ns[{mu}][{i},0]", gu[i, 0], ref[i - 1], fn=fnn, goal="pure-QCD entry == QCD non-singlet anomalous dimension of the sector", replay=rp)
                                    chk.eq(f"{t}.ns[{md}][{i},0]", gd[i, 0], ref[i - 1], fn=fnn, goal="pure-QCD entry == QCD non-singlet anomalous dimension of the sector", replay=rp)
                                chk.eq(f"{t}.ns[{mu}][0,0]", gu[0, 0], 0, fn=fnn, goal="order (0,0) entry is zero", replay=rp)
                                chk.eq(f"{t}.ns[{md}][0,0]", gd[0, 0], 0, fn=fnn, goal="order (0,0) entry is zero", replay=rp)
                                for ij in ((0, 1), (1, 1)):
                                    chk.eq(f"{t}.charges[{mu}/{md}]{list(ij)}", gu[ij] * constants.ed2, gd[ij] * constants.eu2, fn=fnn, goal="entry_u * e_d^2 == entry_d * e_u^2", replay=rp)
                                if j >= 2:
                                    chk.eq(f"{t}.charges[{mu}/{md}][0, 2]", gu[0, 2] / constants.eu2 - gd[0, 2] / constants.ed2, (constants.eu2 - constants.ed2) * X / constants.CF / 2, fn=fnn, replay=rp,
                                           goal="entry_q == e_q^2 g(e_q^2) with one g: entry_u/e_u^2 - entry_d/e_d^2 == (e_u^2 - e_d^2) X/(2 CF)")
                            chk.configs += 1
    finally:
        for mod, nm, f in saved:
            setattr(mod, nm, f)
    chk.extra["exhaustive"] = True
