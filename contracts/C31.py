"""C31 -- flavour/evolution basis rotations and sector projectors are exact and complete (ground, exhaustive).

Everything here is variable-free: the finite domain (nf 3-6) x (QCD, QED) x (every sector label of the basis) is evaluated exhaustively
in exact rational arithmetic through the transformed code; each fact is one obligation decided by exact evaluation.
 * both 14x14 tables: R R^T diagonal (mutually orthogonal rows), det != 0, label / pid tuples and map_ad_to_* keys and names consistent,
   the rows are the documented flavour combinations (specification below, from the label meaning);
 * for P = ad_projector(label, nf, qed) acting on row vectors, with r_X the rows restricted to the nf active flavours:
   every member "A.B" of the sector has r_A P = r_B, every other distribution of the nf-flavour evolution basis is annihilated,
   diagonal sectors are idempotent, mutually orthogonal and sum to the identity on the active parton space;
 * ad_projectors(nf, qed) returns one projector per sector of the corresponding basis.
"""
from fractions import Fraction as Q

import numpy as np

from pyvc.replay import script

PIDS = (22, -6, -5, -4, -3, -2, -1, 21, 1, 2, 3, 4, 5, 6)


def vec(d):
    return np.array([Q(d.get(p, 0)) for p in PIDS], dtype=object)


def qp(q, w=1):
    return {q: w, -q: w}


def qm(q, w=1):
    return {q: w, -q: -w}


def comb(*ds):
    out = {}
    for d in ds:
        for k, v in d.items():
            out[k] = out.get(k, 0) + v
    return out


def spec_evol(label, nf=6):
    """documented flavour content of a QCD evolution-basis label restricted to nf flavours (u=2, d=1, s=3, c=4, b=5, t=6)"""
    order = [2, 1, 3, 4, 5, 6]       # the T_{n^2-1} ladder is ordered u, d, s, c, b, t
    act = [q for q in range(1, 7) if q <= nf]
    if label == "ph":
        return vec({22: 1})
    if label == "g":
        return vec({21: 1})
    if label == "S":
        return vec(comb(*[qp(q) for q in act]))
    if label == "V":
        return vec(comb(*[qm(q) for q in act]))
    n = int(round((int(label[1:]) + 1) ** 0.5))          # T3 -> 2, T8 -> 3 ...
    f = qp if label[0] == "T" else qm
    terms = [f(order[i]) for i in range(n - 1)] + [f(order[n - 1], -(n - 1))]
    v = comb(*terms)
    return vec({k: (w if abs(k) <= nf else 0) for k, w in v.items()})


def spec_unified(label, nf=6, static=True):
    """unified (QED) evolution basis.  static=True: the rows of the 14x14 table (nu = nd = 3 form); else the nf-dependent definition"""
    ups, downs = [q for q in (2, 4, 6) if q <= nf], [q for q in (1, 3, 5) if q <= nf]
    if label in ("ph", "g", "S", "V"):
        return spec_evol(label, nf)
    f = qp if label[0] in "ST" else qm
    if label in ("Sdelta", "Vdelta"):
        w = Q(1) if static else Q(len(downs), len(ups))
        return vec(comb(*[f(q, w) for q in ups], *[f(q, -1) for q in downs]))
    table = {"d3": {1: 1, 3: -1}, "u3": {2: 1, 4: -1}, "d8": {1: 1, 3: 1, 5: -2}, "u8": {2: 1, 4: 1, 6: -2}}[label[1:]]
    v = comb(*[f(q, w) for q, w in table.items()])
    return vec({k: (w if abs(k) <= nf else 0) for k, w in v.items()})


REPLAY = '''
def replay():
    from eko import basis_rotation as br
    out = []
    for qed, R, basis in ((False, br.rotate_flavor_to_evolution, br.evol_basis), (True, br.rotate_flavor_to_unified_evolution, br.unified_evol_basis)):
        G = R @ R.T
        if np.abs(G - np.diag(np.diag(G))).max() > 0: out.append(f"qed={qed}: rows not mutually orthogonal")
        if abs(np.linalg.det(R.astype(float))) < 1e-9: out.append(f"qed={qed}: singular rotation")
        labels = br.full_unified_labels if qed else br.full_labels
        for nf in (3, 4, 5, 6):
            try:
                ps = br.ad_projectors(nf, qed)
                if len(ps) != len(labels): out.append(f"ad_projectors(nf={nf}, qed={qed}) returns {len(ps)} projectors for {len(labels)} sectors")
            except Exception as e:
                out.append(f"ad_projectors(nf={nf}, qed={qed}) raised {type(e).__name__}: {e}")
            for lab in labels:
                try:
                    br.ad_projector(lab, nf, qed)
                except Exception as e:
                    out.append(f"ad_projector({lab}, nf={nf}, qed={qed}) raised {type(e).__name__}: {e}")
    return bool(out), "; ".join(out[:8]) if out else "native tables orthogonal and every sector projector available"
'''


def run(chk):
    from eko import basis_rotation as br
    from pyvc import vnp

    rp = script(REPLAY, kind="projector_availability_oracle")
    fn = "eko.basis_rotation:ad_projector"
    chk.under_contract("eko.basis_rotation:(tables)", fn, "eko.basis_rotation:ad_projectors", "eko.basis_rotation:select_light_flavors_uni_ev",
                       "eko.basis_rotation:intrinsic_unified_evol_labels")
    chk.trust("specification of the evolution-basis labels typed in contracts/C31.py from the documented definitions (FlavorSpace docs): T_{n^2-1} ladder u,d,s,c,b,t; "
              "unified basis Sdelta = (nd/nu) sum_up q+ - sum_down q+, Tu3 = u+ - c+, Tu8 = u+ + c+ - 2t+, Td3 = d+ - s+, Td8 = d+ + s+ - 2b+")
    chk.extra["exhaustive"] = True

    # ---- tables ------------------------------------------------------------------------------------------------------------
    chk.ground("C31.tables.flavor_pids", tuple(br.flavor_basis_pids) == PIDS, fn="eko.basis_rotation", goal="flavour basis pid order", detail=str(br.flavor_basis_pids))
    chk.ground("C31.tables.flavor_names", tuple(br.flavor_basis_names) == ("ph", "tbar", "bbar", "cbar", "sbar", "ubar", "dbar", "g", "d", "u", "s", "c", "b", "t"), fn="eko.basis_rotation", goal="names follow pids")
    for qed, R, basis, pids, spec in ((False, br.rotate_flavor_to_evolution, br.evol_basis, br.evol_basis_pids, spec_evol),
                                      (True, br.rotate_flavor_to_unified_evolution, br.unified_evol_basis, br.unified_evol_basis_pids, spec_unified)):
        tag = "qed" if qed else "qcd"
        R = np.array([[Q(int(x)) if not isinstance(x, Q) else x for x in row] for row in np.asarray(R, dtype=object)], dtype=object)
        chk.ground(f"C31.tables.{tag}.shape", R.shape == (14, 14) and len(basis) == 14 and len(pids) == 14 and len(set(basis)) == 14 and len(set(pids)) == 14, fn="eko.basis_rotation", goal="14 distinct labels and pids")
        G = R @ R.T
        for i in range(14):
            for j in range(i + 1, 14):
                chk.ground(f"C31.tables.{tag}.orthogonal[{basis[i]},{basis[j]}]", G[i, j] == 0, fn="eko.basis_rotation", goal="rows mutually orthogonal", detail=str(G[i, j]), replay=rp)
        chk.ground(f"C31.tables.{tag}.invertible", vnp._exact_det(R) != 0, fn="eko.basis_rotation", goal="det R != 0", replay=rp)
        for i, lab in enumerate(basis):
            chk.ground(f"C31.tables.{tag}.row[{lab}]", all(a == b for a, b in zip(R[i], spec(lab))), fn="eko.basis_rotation", goal="row == documented flavour combination", detail=str(list(R[i])), replay=rp)
        # pid encoding
        enc = {"ph": 22, "g": 21, "S": 100, "V": 200, "Sdelta": 101, "Vdelta": 201}
        for lab, pid in zip(basis, pids):
            if lab in enc:
                want = enc[lab]
            elif not qed:
                want = (100 if lab[0] == "T" else 200) + int(lab[1:])
            else:
                want = (100 if lab[0] == "T" else 200) + {"d3": 5, "u3": 4, "d8": 10, "u8": 9}[lab[1:]]
            chk.ground(f"C31.tables.{tag}.pid[{lab}]", pid == want, fn="eko.basis_rotation", goal="pid follows the documented encoding", detail=f"{pid} vs {want}")
        amap = br.map_ad_to_unified_evolution if qed else br.map_ad_to_evolution
        labels = br.full_unified_labels if qed else br.full_labels
        chk.ground(f"C31.tables.{tag}.map_keys", set(amap.keys()) == set(labels), fn="eko.basis_rotation", goal="sector map has exactly the sector labels of the basis", detail=str(set(amap) ^ set(labels)))
        names_ok = all(all(part in basis for part in el.split(".")) for els in amap.values() for el in els)
        chk.ground(f"C31.tables.{tag}.map_names", names_ok, fn="eko.basis_rotation", goal="every member name of the sector map is a basis label")

    # ---- projectors -----------------------------------------------------------------------------------------------------------
    for qed in (False, True):
        tag = "qed" if qed else "qcd"
        basis = br.unified_evol_basis if qed else br.evol_basis
        labels = br.full_unified_labels if qed else br.full_labels
        amap = br.map_ad_to_unified_evolution if qed else br.map_ad_to_evolution
        for nf in (3, 4, 5, 6):
            # the nf-flavour evolution basis: the labels whose restricted rows are the distributions of that basis
            if not qed:
                active = ["ph", "S", "g", "V"] + [f"{t}{n*n-1}" for n in range(2, nf + 1) for t in "VT"]
                rows = {lab: spec_evol(lab, nf) for lab in active}
            else:
                active = ["g", "ph", "S", "Sdelta", "V", "Vdelta", "Td3", "Vd3"] + (["Tu3", "Vu3"] if nf >= 4 else []) + (["Td8", "Vd8"] if nf >= 5 else []) + (["Tu8", "Vu8"] if nf >= 6 else [])
                rows = {lab: spec_unified(lab, nf, static=True) for lab in active}
            diag = {}
            for lab in labels:
                name = f"C31.projector[{tag},nf={nf},{lab}]"
                try:
                    P = np.asarray(br.ad_projector(lab, nf, qed), dtype=object)
                except Exception as e:
                    chk.raised(f"{name}.available", e, fn=fn, goal="a projector exists for every sector of the basis", replay=rp)
                    continue
                chk.ground(f"{name}.available", P.shape == (14, 14), fn=fn, goal="a projector exists for every sector of the basis")
                members = [el.split(".") for el in amap[lab]]
                members = [(a, b) for a, b in members if a in rows and b in rows]
                srcs = {a for a, _ in members}
                for a, b in members:
                    img = rows[a] @ P
                    chk.ground(f"{name}.maps[{a}->{b}]", all(x == y for x, y in zip(img, rows[b])), fn=fn, goal="r_A . P == r_B for the member A.B (rows restricted to the active flavours)", detail=str(list(img)), replay=rp)
                for y in active:
                    if y in srcs:
                        continue
                    img = rows[y] @ P
                    chk.ground(f"{name}.annihilates[{y}]", all(x == 0 for x in img), fn=fn, goal="every other distribution of the nf-flavour evolution basis is annihilated", detail=str(list(img)), replay=rp)
                if all(a == b for a, b in members) and members:
                    diag[lab] = P
                    chk.ground(f"{name}.idempotent", bool(np.all((P @ P) == P)), fn=fn, goal="diagonal sector projector is idempotent", replay=rp)
            dl = list(diag)
            for i in range(len(dl)):
                for j in range(i + 1, len(dl)):
                    Z = diag[dl[i]] @ diag[dl[j]]
                    chk.ground(f"C31.projector[{tag},nf={nf}].orthogonal[{dl[i]},{dl[j]}]", bool(np.all(Z == 0)), fn=fn, goal="distinct diagonal sectors are orthogonal", replay=rp)
            # completeness on the active parton space (gluon, active quarks and antiquarks; photon only with QED)
            if diag:
                tot = sum(diag.values())
                act_idx = [i for i, p in enumerate(PIDS) if p == 21 or (p != 22 and abs(p) <= nf) or (p == 22 and qed)]
                ok = all(tot[i, j] == (1 if i == j else 0) for i in act_idx for j in range(14))
                chk.ground(f"C31.projector[{tag},nf={nf}].complete", bool(ok), fn=fn, goal="diagonal sector projectors sum to the identity on the active parton space", detail="sum of diagonal projectors != identity on active flavours", replay=rp)
            # the collective constructor
            try:
                ps = br.ad_projectors(nf, qed)
                chk.ground(f"C31.ad_projectors[{tag},nf={nf}].one_per_sector", len(ps) == len(labels), fn="eko.basis_rotation:ad_projectors", goal="one projector per sector of the basis", detail=f"{len(ps)} projectors, {len(labels)} sectors", replay=rp)
            except Exception as e:
                chk.raised(f"C31.ad_projectors[{tag},nf={nf}].one_per_sector", e, fn="eko.basis_rotation:ad_projectors", goal="one projector per sector of the basis", replay=rp)
            chk.configs += 1
    # intrinsic labels
    for nf in (3, 4, 5, 6):
        labs = br.intrinsic_unified_evol_labels(nf)
        chk.ground(f"C31.intrinsic_unified_labels[nf={nf}]", len(labs) == 14 and len(set(labs)) == 14, fn="eko.basis_rotation:intrinsic_unified_evol_labels", goal="14 distinct labels (active evolution labels + heavy q+-)", detail=str(labs))
