"""C32 -- evolution-basis operators are reconstructed exactly in the flavour basis.

For members m_l (one symbolic n x n matrix per anomalous-dimension / matching label l), nf 3-6, QCD and QED:
    T[a,:,b,:] == sum over members "X.Y" of  Rplus_out[a,X] * M[X.Y] * R_in[Y,b]
with R_in[Y,:] the documented flavour content of label Y restricted to the active flavours (heavy intrinsic quarks through their
plus/minus combinations) and Rplus_out[:,X] = flav(X)/(flav(X).flav(X)).  The specification builds R and the label -> member map from
the statement's description (S,g block; V; each active T_k/V_k -> ns+-; intrinsic h+- -> identity; matching: the (g,S,h+) and (V,h-)
blocks), not from evolution_operator/flavors.py.  Also the error tensor (same contraction with the member errors).
"""
from fractions import Fraction as Q

import numpy as np

from pyvc import terms as T
from pyvc import vnp
from pyvc.replay import script
from contracts.common import symmat
from contracts.C31 import PIDS
from contracts.C33 import flav

N = 2   # grid size of the symbolic members (the construction is size-uniform: np.eye / np.zeros / broadcasting only)

REPLAY = '''
def replay():
    """native: tensor == R^+ M R built independently from the rotation tables, random members"""
    from eko.evolution_operator.physical import PhysicalOperator
    from eko.evolution_operator.matching_condition import MatchingCondition
    from eko.member import OpMember
    from eko import basis_rotation as br
    rng = np.random.default_rng(8)
    out = []
    n = 3
    def mem(): return OpMember(rng.normal(size=(n, n)), np.abs(rng.normal(size=(n, n))))
    for nf in (3, 4, 5, 6):
        labs = dict()
        for l in br.full_labels: labs[l] = mem()
        op = PhysicalOperator.ad_to_evol_map(labs, nf, 1.0, False)
        Tv, Te = op.to_flavor_basis_tensor(False)
        R = br.rotate_flavor_to_evolution.astype(float).copy()
        for j, pid in enumerate(br.flavor_basis_pids):
            if nf < abs(pid) <= 6: R[:, j] = 0
        ref = np.zeros_like(Tv)
        def row(lab):
            if lab in br.evol_basis: return R[br.evol_basis.index(lab)]
            w = np.zeros(14); q = "duscbt".index(lab[0]) + 1; w[br.flavor_basis_pids.index(q)] = 1; w[br.flavor_basis_pids.index(-q)] = 1 if lab[1] == "+" else -1; return w
        for name, m in op.op_members.items():
            o, i = row(name.target), row(name.input)
            ref += np.einsum("a,ij,b->aibj", o / (o @ o), m.value, i)
        if not np.allclose(Tv, ref, atol=1e-12): out.append(f"physical map nf={nf}: tensor deviates from R^+ M R by {np.abs(Tv-ref).max():.2e}")
    return bool(out), "; ".join(out) if out else "native flavour tensors equal the change of basis of the block operator"
'''


def members_physical(nf, qed):
    """label -> member symbol, from the statement (not from the code)"""
    from eko import basis_rotation as br
    m = {}
    sym = {}

    def M(lab):
        if lab not in sym:
            sym[lab] = (symmat(f"v{len(sym)}_", N), symmat(f"e{len(sym)}_", N))
        return sym[lab]

    spec = {}   # "X.Y" -> label
    if not qed:
        for x, px in (("S", 100), ("g", 21)):
            for y, py in (("S", 100), ("g", 21)):
                spec[f"{x}.{y}"] = (px, py)
        spec["V.V"] = (10200, 0)
        for f in range(2, nf + 1):
            n = f * f - 1
            spec[f"V{n}.V{n}"] = (10201, 0)
            spec[f"T{n}.T{n}"] = (10101, 0)
    else:
        names = {"g": 21, "ph": 22, "S": 100, "Sdelta": 101}
        for x, px in names.items():
            for y, py in names.items():
                spec[f"{x}.{y}"] = (px, py)
        for x, px in (("V", 10200), ("Vdelta", 10204)):
            for y, py in (("V", 10200), ("Vdelta", 10204)):
                spec[f"{x}.{y}"] = (px, py)
        for k, nm, up in ((3, "d3", False), (4, "u3", True), (5, "d8", False), (6, "u8", True)):
            if nf >= k:
                spec[f"T{nm}.T{nm}"] = (10102 if up else 10103, 0)
                spec[f"V{nm}.V{nm}"] = (10202 if up else 10203, 0)
    labels = br.full_unified_labels if qed else br.full_labels
    ops = {l: M(l) for l in labels}
    return spec, ops


def spec_tensor(block, nf_in, nf_out, qed):
    """block: {"X.Y": (value matrix, error matrix) or "id"}"""
    Tv = vnp.zeros((14, N, 14, N))
    Te = vnp.zeros((14, N, 14, N))
    for name, mem in block.items():
        x, y = name.split(".")
        o = flav(x, nf_out, qed)
        i = flav(y, nf_in, qed)
        norm = sum((a * a for a in o), Q(0))
        val, err = (vnp.eye(N), vnp.zeros((N, N))) if mem == "id" else mem
        for a in range(14):
            if o[a] == 0:
                continue
            for b in range(14):
                if i[b] == 0:
                    continue
                w = o[a] / norm * i[b]
                Tv[a, :, b, :] += w * val
                Te[a, :, b, :] += w * err
    return Tv, Te


def run(chk):
    from eko.evolution_operator.physical import PhysicalOperator
    from eko.evolution_operator.matching_condition import MatchingCondition
    from eko.member import OpMember
    from eko import basis_rotation as br

    rp = script(REPLAY, kind="change_of_basis_oracle")
    chk.under_contract("eko.member:OperatorBase.to_flavor_basis_tensor", "eko.member:OpMember", "eko.member:MemberName", "eko.evolution_operator.flavors:pids_from_intrinsic_evol",
                       "eko.evolution_operator.flavors:pids_from_intrinsic_unified_evol", "eko.evolution_operator.flavors:get_range", "eko.evolution_operator.flavors:rotate_pm_to_flavor",
                       "eko.evolution_operator.physical:PhysicalOperator.ad_to_evol_map", "eko.evolution_operator.matching_condition:MatchingCondition.split_ad_to_evol_map")
    chk.trust("flavour content of every evolution-basis label typed from its documented definition (contracts/C31.py, C33.py)",
              "grid-size uniformity: members enter only through np.eye, np.zeros and broadcasting, so the 2x2 symbolic members stand for any grid size")
    chk.extra["exhaustive"] = True
    QN = "duscbt"

    def compare(tag, op, block, nf_in, nf_out, qed, fn):
        try:
            Tv, Te = op.to_flavor_basis_tensor(qed)
        except Exception as e:
            chk.raised(f"{tag}.no_exception", e, fn=fn, replay=rp)
            return
        Sv, Se = spec_tensor(block, nf_in, nf_out, qed)
        for a in range(14):
            for b in range(14):
                same_v = all(T.lift(Tv[a, i, b, j]).n == T.lift(Sv[a, i, b, j]).n for i in range(N) for j in range(N))
                if same_v:
                    chk.ground(f"{tag}.value[{PIDS[a]},{PIDS[b]}]", True, fn=fn, goal="T[a,:,b,:] == sum Rplus_out[a,X] M[X,Y] R_in[Y,b]", backend="syntactic-identity")
                else:
                    chk.eq_block(f"{tag}.value[{PIDS[a]},{PIDS[b]}]", Tv[a, :, b, :], Sv[a, :, b, :], fn=fn, goal="T[a,:,b,:] == sum Rplus_out[a,X] M[X,Y] R_in[Y,b]", replay=rp)
                chk.eq_block(f"{tag}.error[{PIDS[a]},{PIDS[b]}]", Te[a, :, b, :], Se[a, :, b, :], fn=fn, goal="error tensor: same contraction with the member errors", replay=rp) if not all(T.lift(Te[a, i, b, j]).n == T.lift(Se[a, i, b, j]).n for i in range(N) for j in range(N)) else None

    for qed in (False, True):
        for nf in (3, 4, 5, 6):
            tag = f"C32.physical[{'qed' if qed else 'qcd'},nf={nf}]"
            fn = "eko.evolution_operator.physical:PhysicalOperator.ad_to_evol_map"
            spec, ops = members_physical(nf, qed)
            om = {l: OpMember(v.copy(), e.copy()) for l, (v, e) in ops.items()}
            try:
                op = PhysicalOperator.ad_to_evol_map(om, nf, T.var("q2"), qed)
            except Exception as e:
                chk.raised(f"{tag}.no_exception", e, fn=fn, replay=rp)
                continue
            block = {name: ops[lab] for name, lab in spec.items()}
            for q in range(nf + 1, 7):
                block[f"{QN[q-1]}+.{QN[q-1]}+"] = "id"
                block[f"{QN[q-1]}-.{QN[q-1]}-"] = "id"
            got_names = {str(k) for k in op.op_members}
            chk.ground(f"{tag}.member_names", got_names == set(block), fn=fn, goal="the evolution-basis member set is the one of the statement", detail=str(got_names ^ set(block)), replay=rp)
            compare(tag, op, block, nf, nf, qed, fn)
            chk.configs += 1
        for nf in (3, 4, 5):
            tag = f"C32.matching[{'qed' if qed else 'qcd'},nf={nf}->{nf+1}]"
            fn = "eko.evolution_operator.matching_condition:MatchingCondition.split_ad_to_evol_map"
            labs = [(100, 100), (100, 21), (21, 100), (21, 21), (200, 200), (90, 100), (90, 21), (90, 90), (100, 90), (21, 90), (91, 91)]
            ops = {l: (symmat(f"mv{i}_", N), symmat(f"me{i}_", N)) for i, l in enumerate(labs)}
            om = {l: OpMember(v.copy(), e.copy()) for l, (v, e) in ops.items()}
            try:
                op = MatchingCondition.split_ad_to_evol_map(om, nf, T.var("q2"), qed)
            except Exception as e:
                chk.raised(f"{tag}.no_exception", e, fn=fn, replay=rp)
                continue
            h = QN[nf]
            block = {"S.S": ops[(100, 100)], "S.g": ops[(100, 21)], "g.S": ops[(21, 100)], "g.g": ops[(21, 21)], "V.V": ops[(200, 200)],
                     f"{h}+.S": ops[(90, 100)], f"{h}+.g": ops[(90, 21)], f"{h}+.{h}+": ops[(90, 90)], f"S.{h}+": ops[(100, 90)], f"g.{h}+": ops[(21, 90)],
                     f"{h}-.{h}-": ops[(91, 91)]}
            if not qed:
                for f in range(2, nf + 1):
                    block[f"V{f*f-1}.V{f*f-1}"] = ops[(200, 200)]
                    block[f"T{f*f-1}.T{f*f-1}"] = ops[(200, 200)]
            else:
                block["Sdelta.Sdelta"] = ops[(200, 200)]
                block["Vdelta.Vdelta"] = ops[(200, 200)]
                block["ph.ph"] = "id"
                for k, nm in ((3, "d3"), (4, "u3"), (5, "d8"), (6, "u8")):
                    if nf >= k:
                        block[f"V{nm}.V{nm}"] = ops[(200, 200)]
                        block[f"T{nm}.T{nm}"] = ops[(200, 200)]
            for q in range(nf + 2, 7):
                block[f"{QN[q-1]}+.{QN[q-1]}+"] = "id"
                block[f"{QN[q-1]}-.{QN[q-1]}-"] = "id"
            got_names = {str(k) for k in op.op_members}
            chk.ground(f"{tag}.member_names", got_names == set(block), fn=fn, goal="the matching-basis member set is the one of the statement", detail=str(got_names ^ set(block)), replay=rp)
            compare(tag, op, block, nf, nf, qed, fn)
            chk.configs += 1
