"""C33 -- threshold flavour rotations are mutually inverse and flavour-consistent (ground, exhaustive: nf 4-6 x QCD/QED).

Reading rotate_matching(nf, qed) as a matrix  new-basis label X  <-  matching-basis label Y  (entries m["X.Y"]):
 (i)   sum_Y m[X.Y] flav_(nf-1)(Y) == flav_nf(X) for every new-basis label X, where the matching basis is the (nf-1)-flavour evolution
       basis plus the plus/minus combinations of the quark being activated (and of the still heavier quarks);
 (ii)  rotate_matching_inverse composed with it is the identity on the matching basis, and in the other order on the new basis;
 (iii) the key sets are exactly products of labels of the two bases.
Flavour contents are typed here from the label definitions (same specification as C31; Sdelta/Vdelta with the nf-dependent weight nd/nu).
"""
from fractions import Fraction as Q

import numpy as np

from pyvc.replay import script
from contracts.C31 import vec, qp, qm, comb, spec_evol, spec_unified, PIDS

QN = {1: "d", 2: "u", 3: "s", 4: "c", 5: "b", 6: "t"}
NAME2PID = {v: k for k, v in QN.items()}


def flav(label, nf, qed):
    if label[0] in "cbt" and label[1] in "+-":
        q = NAME2PID[label[0]]
        return vec(qp(q) if label[1] == "+" else qm(q))
    return spec_unified(label, nf, static=False) if qed else spec_evol(label, nf)


def basis_labels(nf, qed):
    """evolution-basis labels with nf active flavours plus the +- combinations of the heavier quarks"""
    if not qed:
        labs = ["g", "ph", "S", "V"] + [f"{t}{n*n-1}" for n in range(2, nf + 1) for t in "VT"]
    else:
        labs = ["g", "ph", "S", "V", "Sdelta", "Vdelta", "Td3", "Vd3"] + (["Tu3", "Vu3"] if nf >= 4 else []) + (["Td8", "Vd8"] if nf >= 5 else []) + (["Tu8", "Vu8"] if nf >= 6 else [])
    for q in range(nf + 1, 7):
        labs += [f"{QN[q]}+", f"{QN[q]}-"]
    return labs


REPLAY = '''
def replay():
    from eko.evolution_operator import flavors
    out = []
    for qed in (False, True):
        for nf in (4, 5, 6):
            m = flavors.rotate_matching(nf, qed); mi = flavors.rotate_matching_inverse(nf, qed)
            news = sorted({k.split(".")[0] for k in m}); olds = sorted({k.split(".")[1] for k in m})
            M = np.array([[m.get(f"{x}.{y}", 0.0) for y in olds] for x in news]); Mi = np.array([[mi.get(f"{y}.{x}", 0.0) for x in news] for y in olds])
            if M.shape[0] != M.shape[1] or not np.allclose(Mi @ M, np.eye(len(olds)), atol=1e-12) or not np.allclose(M @ Mi, np.eye(len(news)), atol=1e-12):
                out.append(f"nf={nf} qed={qed}: rotate_matching_inverse is not the inverse")
            for x in news:
                tgt = flavors.pids_from_intrinsic_unified_evol(x, nf, False) if qed else flavors.pids_from_intrinsic_evol(x, nf, False)
                src = sum(m.get(f"{x}.{y}", 0.0) * (flavors.pids_from_intrinsic_unified_evol(y, nf - 1, False) if qed else flavors.pids_from_intrinsic_evol(y, nf - 1, False)) for y in olds)
                if not np.allclose(src, tgt, atol=1e-12): out.append(f"nf={nf} qed={qed}: flavour content of {x} not reproduced")
    return bool(out), "; ".join(out[:6]) if out else "native threshold rotations are mutually inverse and flavour-consistent"
'''


def run(chk):
    from eko.evolution_operator import flavors

    rp = script(REPLAY, kind="rotation_oracle")
    fn = "eko.evolution_operator.flavors:rotate_matching"
    chk.under_contract(fn, "eko.evolution_operator.flavors:rotate_matching_inverse", "eko.evolution_operator.flavors:qed_rotation_parameters")
    chk.trust("flavour content of the evolution-basis labels typed in contracts/C31.py / C33.py from their documented definitions")
    chk.extra["exhaustive"] = True
    for qed in (False, True):
        for nf in (4, 5, 6):
            tag = f"C33[{'qed' if qed else 'qcd'},nf={nf}]"
            try:
                m = flavors.rotate_matching(nf, qed)
                mi = flavors.rotate_matching_inverse(nf, qed)
            except Exception as e:
                chk.raised(f"{tag}.available", e, fn=fn, replay=rp)
                continue
            new, old = basis_labels(nf, qed), basis_labels(nf - 1, qed)
            getq = lambda d, k: Q(d[k]) if k in d and not isinstance(d[k], Q) else d.get(k, Q(0))
            # (iii) key sets
            bad = [k for k in m if k.split(".")[0] not in new or k.split(".")[1] not in old]
            chk.ground(f"{tag}.keys.forward", not bad, fn=fn, goal="forward keys are (new-basis label).(matching-basis label)", detail=str(bad), replay=rp)
            bad = [k for k in mi if k.split(".")[0] not in old or k.split(".")[1] not in new]
            chk.ground(f"{tag}.keys.inverse", not bad, fn=fn, goal="inverse keys are (matching-basis label).(new-basis label)", detail=str(bad), replay=rp)
            chk.ground(f"{tag}.keys.cover_new", {k.split(".")[0] for k in m} == set(new), fn=fn, goal="every new-basis label has a row", detail=str(set(new) ^ {k.split('.')[0] for k in m}), replay=rp)
            chk.ground(f"{tag}.keys.cover_old", {k.split(".")[1] for k in m} == set(old), fn=fn, goal="every matching-basis label is used", detail=str(set(old) ^ {k.split('.')[1] for k in m}), replay=rp)
            # (i) flavour content
            for x in new:
                src = sum((getq(m, f"{x}.{y}") * flav(y, nf - 1, qed) for y in old), vec({}))
                tgt = flav(x, nf, qed)
                chk.ground(f"{tag}.flavour[{x}]", all(a == b for a, b in zip(src, tgt)), fn=fn, goal="sum_Y m[X.Y] flav_(nf-1)(Y) == flav_nf(X)", detail=f"{list(src)} vs {list(tgt)}", replay=rp)
            # (ii) inverse
            for y in old:
                for y2 in old:
                    s = sum((getq(mi, f"{y}.{x}") * getq(m, f"{x}.{y2}") for x in new), Q(0))
                    chk.ground(f"{tag}.inverse_forward[{y},{y2}]", s == (1 if y == y2 else 0), fn="eko.evolution_operator.flavors:rotate_matching_inverse", goal="inverse o forward == identity on the matching basis", detail=str(s), replay=rp)
            for x in new:
                for x2 in new:
                    s = sum((getq(m, f"{x}.{y}") * getq(mi, f"{y}.{x2}") for y in old), Q(0))
                    chk.ground(f"{tag}.forward_inverse[{x},{x2}]", s == (1 if x == x2 else 0), fn="eko.evolution_operator.flavors:rotate_matching_inverse", goal="forward o inverse == identity on the new basis", detail=str(s), replay=rp)
            chk.configs += 1
