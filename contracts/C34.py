"""C34 -- the interpolation basis is a partition of unity that reproduces polynomials.

 1. blocks (for ALL integers n > d >= 1 and every area index 0 <= i <= n-2; loop body of InterpolatorDispatcher.__init__ cut by T4, z3 LIA):
        0 <= kmin <= i,  i+1 <= kmax <= n-1,  kmax - kmin == d
 2. Lagrange per block (d = 1..6, d+1 symbolic distinct nodes; log mode only renames the nodes): sum_i coefs_j[i] x_k^i == delta_jk
    (lemma: a polynomial of degree <= d vanishing at d+1 distinct points is zero  =>  sum_j L_j == 1 and reproduction of degree <= d)
 3. whole dispatcher (n = 2..4 quick / ..8 thorough, d <= min(4, n-1), symbolic strictly increasing nodes, x constrained to each area in turn,
    linear and log mode): sum_j bf_j(x) == 1; bf_j(x_k) == delta_jk; sum_j p(x_j) bf_j(x) == p(x) for the monomials of degree <= d;
    rows of get_interpolation for a target point in each area reproduce the same.
 4. rejections: repeated points, fewer than 2 points, degree < 1, n <= d  =>  ValueError
 5. re-interpolation: get_interpolation(target) must reproduce polynomials on EVERY path, including the np.allclose shortcut.
"""
from fractions import Fraction as Q

import numpy as np

from pyvc import terms as T
from pyvc import vnp, hook
from pyvc.hook import LoopSpec
from pyvc.explore import current_pc
from pyvc.replay import script

REPLAY = '''
def replay():
    from eko import interpolation
    rng = np.random.default_rng(6)
    out = []
    for trial in range(30):
        n = int(rng.integers(2, 25)); d = int(rng.integers(1, min(6, n - 1) + 1)); log = bool(trial % 2)
        # well separated nodes (jittered geometric / linear grid): nearly coincident random nodes make the float evaluation of a degree-6 basis meaningless
        base = np.geomspace(1e-7, 1.0, n) if log else np.linspace(0.3, 1.0, n)
        jit = rng.uniform(-0.25, 0.25, size=n); jit[-1] = 0.0
        xs = base * np.exp(jit * np.log(base[1] / base[0])) if log else base + jit * (base[1] - base[0])
        xs = np.unique(np.sort(xs))
        if len(xs) <= d: continue
        disp = interpolation.InterpolatorDispatcher(interpolation.XGrid(xs, log=log), d, mode_N=False)
        f = (lambda x: np.log(x)) if log else (lambda x: x)
        pts = np.concatenate([xs, np.exp(rng.uniform(np.log(xs[0]), 0, size=20))])
        for x in pts:
            vals = np.array([b.evaluate_x(x) for b in disp])
            cond = max(1.0, np.abs(vals).sum())        # Lebesgue function: float rounding of the sums scales with it (wide linear grids are ill-conditioned)
            if abs(vals.sum() - 1) > 1e-7 * cond: out.append(f"n={len(xs)} d={d} log={log}: sum of basis functions at x={x:.3e} is {vals.sum()}")
            for k in range(d + 1):
                got = sum(v * f(xj) ** k for v, xj in zip(vals, xs))
                if abs(got - f(x) ** k) > 1e-7 * max(1.0, sum(abs(v * f(xj) ** k) for v, xj in zip(vals, xs))): out.append(f"n={len(xs)} d={d} log={log}: monomial degree {k} not reproduced at x={x:.3e}")
        K = disp.get_interpolation(xs + 0.0)
        if not np.allclose(K, np.eye(len(xs)), atol=1e-9): out.append("Kronecker property")
    # target grid differing from the nodes only at very small x
    xs = np.array([1e-9, 1e-8, 1e-6, 1e-4, 1e-2, 0.1, 0.5, 1.0])
    disp = interpolation.InterpolatorDispatcher(interpolation.XGrid(xs, log=True), 2, mode_N=False)
    tg = xs.copy(); tg[0] = 3e-9; tg[1] = 2e-8
    M = disp.get_interpolation(tg)
    for k in (1, 2):
        got = M @ np.log(xs) ** k; want = np.log(tg) ** k
        if not np.allclose(got, want, rtol=1e-6): out.append(f"re-interpolation to a grid differing only below x=1e-7: (ln x)^{k} reproduced as {got[0]:.4f} instead of {want[0]:.4f}")
    return bool(out), "; ".join(sorted(set(out))[:5]) if out else "native basis is a partition of unity reproducing polynomials"
'''


class Done(Exception):
    pass


SPACING = Q(1, 10**14)


def run(chk):
    from eko import interpolation
    from eko.interpolation import InterpolatorDispatcher, XGrid, Area

    rp = script(REPLAY, kind="interpolation_oracle")
    chk.under_contract("eko.interpolation:InterpolatorDispatcher.__init__", "eko.interpolation:InterpolatorDispatcher.get_interpolation", "eko.interpolation:Area.__init__",
                       "eko.interpolation:Area._compute_coefs", "eko.interpolation:Area._reference_indices", "eko.interpolation:BasisFunction.__init__", "eko.interpolation:BasisFunction.evaluate_x",
                       "eko.interpolation:evaluate_x", "eko.interpolation:log_evaluate_x", "eko.interpolation:XGrid.__init__")
    chk.assume("requires: an evaluation point is a node or lies at least 1e-14 below the next node: inside the 10-eps window below an interior node x_k the basis function whose support starts at x_k returns (x - x_k) L'(x_k) instead of 0 -- a float tolerance of evaluate_x (deviation <= 10 eps / node spacing), not modelled")
    chk.assume("requires: neighbouring nodes (in the variable of the basis, x or ln x) differ by more than 1e-14 > _atol_eps = 10 eps: the left-edge clause of evaluate_x then only fires at the first node")
    chk.trust("lemma: a polynomial of degree <= d that vanishes at d+1 distinct points is identically zero",
              "np.log is strictly increasing (ordering of the log-nodes follows the ordering of the nodes)", "np.unique sorts and removes duplicates")
    chk.bounded_parts.append("whole-dispatcher obligations: n <= 4 (quick) / 8 (thorough), d <= 4 -- shape-bounded, values unbounded; blocks proved for all n, d; Lagrange property per block for d <= 6")

    # ---- 1. blocks, all n and d ----------------------------------------------------------------------------------------------------
    n, d, i = T.var("n", "int"), T.var("d", "int"), T.var("i", "int")

    class FakeXG(XGrid):
        def __init__(self):
            self.log = True
            self.grid = None
        def __vclen__(self):
            return n
        def __len__(self):
            raise TypeError("symbolic length")

    req = [d >= 1, n > d, i >= 0, i <= n - 2]
    fn = "eko.interpolation:InterpolatorDispatcher.__init__"

    def preserved(env):
        hyp = req + current_pc()
        kmin, kmax, b = env["kmin"], env["kmax"], env["b"]
        tag = f"C34.blocks.path{preserved.k}"
        preserved.k += 1
        chk.smt(f"{tag}.kmin_ge_0", hyp, T.lift(kmin) >= 0, fn=fn, goal="0 <= kmin", replay=rp)
        chk.smt(f"{tag}.kmin_le_i", hyp, T.lift(kmin) <= i, fn=fn, goal="kmin <= i", replay=rp)
        chk.smt(f"{tag}.kmax_ge_i1", hyp, T.lift(kmax) >= i + 1, fn=fn, goal="i + 1 <= kmax", replay=rp)
        chk.smt(f"{tag}.kmax_le_n1", hyp, T.lift(kmax) <= n - 1, fn=fn, goal="kmax <= n - 1", replay=rp)
        chk.smt(f"{tag}.width", hyp, T.cmp("==", T.lift(kmax) - T.lift(kmin), d), fn=fn, goal="kmax - kmin == d", replay=rp)
        chk.ground(f"{tag}.block_appended", isinstance(b, tuple) and T.lift(b[0]).n == T.lift(kmin).n and T.lift(b[1]).n == T.lift(kmax).n and env["list_of_blocks"][-1] is b, fn=fn, goal="the block (kmin, kmax) is appended for area i")

    preserved.k = 0

    def stop(lazy, env):
        raise Done()

    def body():
        hook.ACTIVE_CUTS[("eko.interpolation", "InterpolatorDispatcher.__init__", 0)] = LoopSpec(lambda ph: {}, lambda: i, lambda env, it: None, preserved)
        hook.ACTIVE_CUTS[("eko.interpolation", "InterpolatorDispatcher.__init__", 1)] = LoopSpec(lambda ph: {}, lambda: None, lambda env, it: None, lambda env: None, prefix=stop)
        obj = object.__new__(InterpolatorDispatcher)
        try:
            InterpolatorDispatcher.__init__(obj, FakeXG(), d, False)
        except Done:
            return True
        finally:
            hook.ACTIVE_CUTS.clear()
        return False

    paths = chk.run_paths("C34.blocks", body, req, fn=fn, replay=rp)
    chk.ground("C34.blocks.paths_explored", len(paths) >= 2 and all(v for _, _, v in paths), fn=fn, goal="every branch of the block construction reaches the end of the loop body", detail=f"{len(paths)} paths")

    # ---- 2. Lagrange property per block ----------------------------------------------------------------------------------------------
    for deg in range(1, 7 if chk.tier == "thorough" else 6):
        xs = [T.var(f"x{k}") for k in range(deg + 1)]
        grid = np.array(xs, dtype=object)
        for j in range(deg + 1):
            ar = Area(0 if j < deg else deg - 1, j, (0, deg), grid)
            for k in range(deg + 1):
                val = sum((c * xs[k] ** p for p, c in enumerate(ar.coefs)), T.ZERO)
                chk.eq(f"C34.lagrange[d={deg}].L{j}(x{k})", val, 1 if j == k else 0, fn="eko.interpolation:Area._compute_coefs", goal="sum_i coefs_j[i] x_k^i == delta_jk", replay=rp)
            chk.ground(f"C34.lagrange[d={deg}].L{j}.degree", len(ar.coefs) == deg + 1, fn="eko.interpolation:Area._compute_coefs", goal="degree <= d")

    # ---- 3. whole dispatcher -------------------------------------------------------------------------------------------------------------
    nmax = 8 if chk.tier == "thorough" else 4
    tasks = [(nn, dd, log) for nn in range(2, nmax + 1) for dd in range(1, min(4, nn - 1) + 1) for log in (False, True)]

    def worker(chk, task):
        nn, dd, log = task
        tag = f"C34.dispatcher[n={nn},d={dd},{'log' if log else 'lin'}]"
        fnd = "eko.interpolation:InterpolatorDispatcher"
        xs = [T.var(f"x{k}") for k in range(nn)]
        order = [xs[0] > 0] + [a < b for a, b in zip(xs, xs[1:])]
        ys = [T.app("ln", v) for v in xs] if log else xs       # the nodes seen by the basis functions
        # requires: neighbouring nodes (as seen by the basis) are further apart than the edge tolerance _atol_eps = 10 * machine epsilon
        order_y = [b - a > SPACING for a, b in zip(ys, ys[1:])]
        built = chk.run_paths(f"{tag}.build", lambda: InterpolatorDispatcher(XGrid(list(xs), log=log), dd, mode_N=False), order + order_y, fn=fnd, replay=rp)
        if len(built) != 1:
            chk.fail(f"{tag}.build.single_path", f"{len(built)} construction paths for strictly increasing nodes", fn=fnd, replay=rp)
            return
        disp = built[0][2]
        base = order + order_y
        xv = T.var("x")
        yv = T.app("ln", xv) if log else xv
        for a in range(nn - 1):
            inside = base + [xv > 0, ys[a] < yv, yv <= ys[a + 1] - SPACING]
            ev = chk.run_paths(f"{tag}.area{a}.eval", lambda: [b.evaluate_x(xv) for b in disp], inside, fn="eko.interpolation:evaluate_x", replay=rp)
            for pt, pc, vals in ev:
                hyp = inside + list(pc)
                chk.eq(f"{pt}.partition_of_unity", sum(vals, T.ZERO), 1, fn=fnd, goal="sum_j bf_j(x) == 1 for x in the area", replay=rp, assumptions=hyp)
                for k in range(1, dd + 1):
                    chk.eq(f"{pt}.reproduces_degree_{k}", sum((v * yj**k for v, yj in zip(vals, ys)), T.ZERO), yv**k, fn=fnd, goal="sum_j p(x_j) bf_j(x) == p(x) for monomials of degree <= d", replay=rp, assumptions=hyp)
                outside = [j for j in range(nn) if not (disp.basis[j].areas[0].kmin <= a + 1 and any(ar.xmin is ys[a] or T.lift(ar.xmin).n == T.lift(ys[a]).n for ar in disp.basis[j].areas))]
        for k in range(nn):
            ev = chk.run_paths(f"{tag}.node{k}.eval", lambda: [b.evaluate_x(xs[k]) for b in disp], base, fn="eko.interpolation:evaluate_x", replay=rp)
            for pt, pc, vals in ev:
                for j, v in enumerate(vals):
                    chk.eq(f"{pt}.kronecker[{j}]", v, 1 if j == k else 0, fn=fnd, goal="bf_j(x_k) == delta_jk", replay=rp, assumptions=base + list(pc))
        # get_interpolation: one target point per area (number of targets != n unless n-1 == n, never) -> rows reproduce polynomials
        tg = [T.var(f"t{a}") for a in range(nn - 1)]
        tgy = [T.app("ln", v) for v in tg] if log else tg
        tcond = base + [c for a in range(nn - 1) for c in (tg[a] > 0, ys[a] < tgy[a], tgy[a] <= ys[a + 1] - SPACING)]
        if nn - 1 >= 1:
            for pt, pc, M in chk.run_paths(f"{tag}.get_interpolation", lambda: disp.get_interpolation(list(tg)), tcond, fn="eko.interpolation:InterpolatorDispatcher.get_interpolation", replay=rp):
                M = np.asarray(M, dtype=object)
                for a in range(nn - 1):
                    for k in range(0, dd + 1):
                        chk.eq(f"{pt}.row{a}.degree_{k}", sum((M[a, j] * ys[j] ** k for j in range(nn)), T.ZERO), tgy[a] ** k, fn="eko.interpolation:InterpolatorDispatcher.get_interpolation",
                               goal="sum_j M[a,j] p(x_j) == p(t_a) for monomials of degree <= d", replay=rp, assumptions=tcond + list(pc))
        chk.configs += 1

    chk.parallel(tasks, worker)

    # ---- 4. rejections ------------------------------------------------------------------------------------------------------------------------
    a_, b_ = T.var("xa"), T.var("xb")
    for nm, thunk in (("repeated_points", lambda: XGrid([a_, b_, a_])), ("one_point", lambda: XGrid([a_])), ("degree_zero", lambda: InterpolatorDispatcher(XGrid([a_, b_]), 0)),
                      ("too_few_points", lambda: InterpolatorDispatcher(XGrid([a_, b_]), 2)), ("too_few_points_3", lambda: InterpolatorDispatcher(XGrid([a_, b_, T.var("xc")]), 3))):
        ps = chk.run_paths(f"C34.reject.{nm}", lambda: _expect_value_error(thunk), [a_ > 0, a_ < b_, b_ < T.var("xc")], fn="eko.interpolation:XGrid.__init__", replay=rp, goal="invalid grid/degree raises ValueError")
        for pt, pc, ok in ps:
            chk.ground(f"{pt}.raises_ValueError", ok, fn="eko.interpolation", goal="ValueError", replay=rp)

    # ---- 5. re-interpolation to a grid of the same length: every path must reproduce polynomials ------------------------------------------------
    for log in (False, True):
        nn, dd = 3, 1
        xs = [T.var(f"x{k}") for k in range(nn)]
        ys = [T.app("ln", v) for v in xs] if log else xs
        base = [xs[0] > 0] + [p < q for p, q in zip(xs, xs[1:])] + [q - p > SPACING for p, q in zip(ys, ys[1:])]
        disp = chk.run_paths(f"C34.reinterpolate[{'log' if log else 'lin'}].build", lambda: InterpolatorDispatcher(XGrid(list(xs), log=log), dd, mode_N=False), base, fn=fn, replay=rp)[0][2]
        tg = [T.var(f"t{k}") for k in range(nn)]
        tgy = [T.app("ln", v) for v in tg] if log else tg
        # targets in the closed areas [x_k, x_{k+1}] (k = 0, 0, 1), possibly equal to / very close to the nodes
        # each target is a node or an interior point at least SPACING below the next node (see the assumption on the edge window)
        def at(tv, tyv, k):      # target in area k (closed at the upper node)
            return [T.bor(T.cmp("==", tyv, ys[k + 1]), T.band(ys[k] < tyv, tyv <= ys[k + 1] - SPACING))]
        tcond = base + [tg[0] > 0, T.bor(T.cmp("==", tgy[0], ys[0]), T.bor(T.cmp("==", tgy[0], ys[1]), T.band(ys[0] < tgy[0], tgy[0] <= ys[1] - SPACING)))] + at(tg[1], tgy[1], 0) + at(tg[2], tgy[2], 1)
        fng = "eko.interpolation:InterpolatorDispatcher.get_interpolation"
        for pt, pc, M in chk.run_paths(f"C34.reinterpolate[{'log' if log else 'lin'}]", lambda: disp.get_interpolation(list(tg)), tcond, fn=fng, replay=rp):
            M = np.asarray(M, dtype=object)
            hyp = tcond + list(pc)
            for a in range(nn):
                lhs = sum((M[a, j] * ys[j] for j in range(nn)), T.ZERO)
                if all(isinstance(v, (int, Q)) or (isinstance(v, T.Sym) and v.is_const()) for v in M[a]):
                    # constant row (the allclose shortcut returns the identity): reproduction needs t_a == x_a, to be PROVED from the path condition
                    chk.smt(f"{pt}.row{a}.degree_1", hyp, T.cmp("==", lhs, tgy[a]), fn=fng, replay=_shortcut_replay(log), goal="sum_j M[a,j] x_j == t_a on the shortcut path (identity matrix) -- requires t_a == x_a")
                else:
                    chk.smt(f"{pt}.row{a}.degree_1", hyp, T.cmp("==", lhs, tgy[a]), fn=fng, replay=rp, goal="sum_j M[a,j] x_j == t_a")
    # ---- 6. the default dispatcher (mode_N=True) evaluates in x-space like the mode_N=False one (proved above), and keeps its N-space callable -------------------
    import mpmath as _mp
    rp6 = script(_MODE_N_REPLAY, kind="mode_n_oracle")
    for log in (False,):     # linear grids in the engine (concrete logarithmic nodes would need an ordering of ln atoms); the native oracle of this clause also runs a logarithmic grid
        nodes = [Q(1, 10), Q(1, 4), Q(1, 2), Q(3, 4), Q(1)]
        pts = nodes + [(a + b) / 2 for a, b in zip(nodes, nodes[1:])]
        for dd in (1, 2, 3):
            tag6 = f"C34.mode_N[{'log' if log else 'lin'},d={dd}]"
            try:
                dN = InterpolatorDispatcher(XGrid(list(nodes), log=log), dd, mode_N=True)
                dX = InterpolatorDispatcher(XGrid(list(nodes), log=log), dd, mode_N=False)
            except Exception as e:  # noqa: BLE001
                chk.raised(f"{tag6}.build", e, fn=fnd, replay=rp6)
                continue
            bad, restored = [], True
            for j, (bN, bX) in enumerate(zip(dN, dX)):
                before = bN.callable
                for x in pts:
                    got = complex(T.evalmp(T.lift(bN.evaluate_x(x)), {}, 40))
                    want = complex(T.evalmp(T.lift(bX.evaluate_x(x)), {}, 40))
                    if abs(got - want) > 1e-30:
                        bad.append(f"p_{j}({x}) = {got.real:.6g} with mode_N=True, {want.real:.6g} with mode_N=False")
                restored = restored and bN.callable is before
            chk.ground(f"{tag6}.evaluate_x_as_in_x_space", not bad, fn="eko.interpolation:BasisFunction.evaluate_x", replay=rp6, backend="exact-eval",
                       goal="evaluate_x of the default (N-space) dispatcher == evaluate_x of the x-space dispatcher at every node (x_min and 1 included) and mid-point, every basis function", detail="; ".join(bad[:3]) or None)
            chk.ground(f"{tag6}.callable_restored", restored, fn="eko.interpolation:BasisFunction.evaluate_x", replay=rp6, goal="evaluate_x leaves the N-space callable in place (frame)")
    chk.extra["exhaustive"] = False


def _expect_value_error(thunk):
    try:
        thunk()
    except ValueError:
        return True
    return False


_MODE_N_REPLAY = '''
def replay():
    from eko import interpolation
    out = []
    for log, nodes in ((True, [1e-2, 0.1, 0.3, 0.6, 1.0]), (False, [0.1, 0.25, 0.5, 0.75, 1.0])):
        for d in (1, 2, 3):
            dN = interpolation.InterpolatorDispatcher(interpolation.XGrid(nodes, log=log), d, mode_N=True)
            dX = interpolation.InterpolatorDispatcher(interpolation.XGrid(nodes, log=log), d, mode_N=False)
            pts = nodes + [(a + b) / 2 for a, b in zip(nodes, nodes[1:])]
            for j, (bN, bX) in enumerate(zip(dN, dX)):
                for x in pts:
                    if abs(bN.evaluate_x(x) - bX.evaluate_x(x)) > 1e-12: out.append(f"log={log} d={d}: p_{j}({x}) = {bN.evaluate_x(x):.6g} with mode_N=True, {bX.evaluate_x(x):.6g} with mode_N=False")
    return bool(out), "; ".join(out[:3]) if out else "mode_N=True evaluates in x-space like mode_N=False"
'''


def _shortcut_replay(log):
    body = '''
def replay():
    from eko import interpolation
    xs = np.array([1e-9, 1e-8, 1e-6, 1e-4, 1e-2, 0.1, 0.5, 1.0])
    out = []
    for log in (True, False):
        disp = interpolation.InterpolatorDispatcher(interpolation.XGrid(xs, log=log), 1, mode_N=False)
        tg = xs.copy(); tg[0] = 3e-9; tg[1] = 2e-8        # differs from the nodes only far below the tolerance of np.allclose
        M = disp.get_interpolation(tg)
        f = np.log if log else (lambda v: v)
        got, want = M @ f(xs), f(tg)
        if not np.allclose(got, want, rtol=1e-9, atol=0): out.append(f"log={log}: re-interpolated node values {got[:2]} instead of {want[:2]} (identity returned for a different grid)")
    return bool(out), "; ".join(out) if out else "re-interpolation reproduces linear functions"
'''
    return script(body, kind="allclose_shortcut")
