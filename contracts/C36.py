"""C36 -- EKO archives round-trip all their content.  BOUNDED stand-in (never counted as proved).

Array serialisation (numpy.save / numpy.load / lz4), YAML and tarfile are library code outside the reach of the symbolic engine, so this property is checked by
run-time contracts: `deal` post-conditions on wrappers of the real functions (bounded/C36_native.py), evaluated over the finite input set stated there
(3 shapes x {random, special values incl. -0.0, inf, nan with payload, denormals} x errors on/off; 8 kinds of scale numbers incl. NumPy scalars and scales
one ulp apart x 3 header types; 4 card variants x {0,1,3,6} points; one edit session).  Contracts:
   load(save(op)) == op on the bit level;   a header stored by Inventory.__setitem__ is read back as an equal header by a fresh Inventory.sync;
   scales one ulp apart are distinct points;   create/close/read returns the same points, bitwise-equal arrays, equal cards and metadata;
   an edit session changes exactly what was assigned.
One defect found and repaired by a fix commit: headers with NumPy-scalar scales could be written but not read back.
"""
LEVEL = "exploration"


def run(chk):
    from pyvc import bounded

    chk.under_contract("eko.io.items:Operator.save", "eko.io.items:Operator.load", "eko.io.inventory:Inventory.__setitem__", "eko.io.inventory:Inventory.sync", "eko.io.inventory:encode",
                       "eko.io.struct:EKO.create", "eko.io.struct:EKO.read", "eko.io.struct:EKO.edit", "eko.io.struct:EKO.close", "eko.io.struct:EKO.dump")
    chk.trust("BOUNDED: run-time contracts over a finite input set -- no statement about inputs outside it")
    chk.bounded_parts.append("everything: deal run-time contracts over the input set stated in bounded/C36_native.py (66 contract evaluations)")
    n = bounded.run_native(chk, "C36_native.py", backend="deal-runtime(bounded)")
    chk.extra["rule"] = "one deal post-condition evaluation per (contract, input) pair of the stated finite input set; every input differs in shape / value kind / number kind / card variant / point count, none is trivial (each writes and re-reads real bytes)"
    chk.extra["evaluations"] = n
    chk.extra["distinct_nontrivial"] = n
    chk.configs += n
