"""C37 -- the EKO operator store behaves like a persistent map under any history (map clause).

Abstract view of an EKO:  model = {evolution point -> operator value}.  Representation invariant of the real objects (EKO + Inventory over the ghost disk):
    INV:  the header / operator files on disk are exactly the model (one header and ONE operator file per point),  cache.keys() == model.keys(),  a loaded cache entry equals the model value.
The proof is an induction over the history with the step checked EXHAUSTIVELY: every state satisfying INV over a universe of three evolution points and two
operator values (125 states: per point absent | present(value) x cache unloaded | loaded) is constructed, every operation
    set(k, v) for every k, v   get(k)   unload(k)   contains(k)   iterate   items()   close-and-reopen
is executed on the REAL code (EKO.__setitem__/__getitem__/__delitem__/__contains__/__iter__/items/unload, Inventory.*, EKO.load with Inventory.sync), and
  * the answer equals the answer of the dictionary model (get of an absent point raises; contains / iterate report exactly the model keys),
  * the post-state satisfies INV for the updated model (set: model[k] = v; everything else: model unchanged -- in particular reopening shows the same map).
Base case: a freshly built EKO is the empty model.  Since the step holds from every INV state, it holds along histories of any length.
Data independence (trusted): the code treats evolution points and values uniformly (keys only through hash / equality), so three points and two values
exhibit every interaction.  Approximate lookup (EKO.approx): unique point within tolerance / None / ValueError when ambiguous, on an enumerated set of
(stored points, query) placements around the tolerance boundary, for loaded and unloaded stores.
"""
import itertools

from pyvc.replay import script

LEVEL = "model_checking"   # exhaustive exploration of a finite abstract state space, every transition executed on the real implementation

REPLAY = '''
def replay():
    """native, real file system: unloading a point that was never stored must not make it a member"""
    import pathlib, tempfile, shutil
    import numpy as np
    from eko.io import struct, items
    from eko.io.access import AccessConfigs
    out = []
    base = pathlib.Path(tempfile.mkdtemp(prefix="c37-"))
    try:
        work = base / "work"; work.mkdir()
        for d in ("operators", "parts", "parts/matching", "recipes", "recipes/matching"): (work / d).mkdir()
        class M: path = work
        access = AccessConfigs(base / "a.tar", readonly=False, open=True)
        eko = struct.EKO(**struct.inventories(work, access), metadata=M(), access=access)
        op = items.Operator(np.arange(4.0).reshape(1, 2, 1, 2))
        eko[(10.0, 4)] = op
        model = {(10.0, 4)}
        del eko[(20.0, 5)]                      # unload of a point that is not in the store
        if set(eko) != model: out.append(f"after unloading a point that was never stored, iteration shows {sorted(eko)} instead of {sorted(model)}")
        if ((20.0, 5) in eko): out.append("after unloading a point that was never stored, it is reported as a member")
        # approximate lookup: an exact hit with a second point within tolerance is ambiguous
        eko[(100.0, 5)] = op; eko[(100.0 * (1 + 2e-7), 5)] = op
        try:
            r = eko.approx((100.0, 5)); out.append(f"approx of a point with a second stored point within tolerance returned {r} instead of raising")
        except ValueError:
            pass
        if eko.approx((150.0, 5)) is not None: out.append("approx of an isolated query is not None")
        if eko.approx((100.0 * (1 + 5e-6), 5)) is not None: out.append("approx beyond the tolerance is not None")
        del eko[(100.0, 5)]; del eko[(100.0 * (1 + 2e-7), 5)]
        model = model | {(100.0, 5), (100.0 * (1 + 2e-7), 5)}
        del eko[(10.0, 4)]
        got = eko[(10.0, 4)]
        if got is None or not np.array_equal(got.operator, op.operator): out.append("a stored operator is not read back after unloading it")
        eko[(10.0, 4)] = items.Operator(np.ones((1, 2, 1, 2)))
        del eko[(10.0, 4)]
        if not np.array_equal(eko[(10.0, 4)].operator, np.ones((1, 2, 1, 2))): out.append("overwriting a point does not replace its value on disk")
        # overwrite a value without errors by one with errors (and back): the point must stay readable
        for first, second in ((None, np.zeros((1, 2, 1, 2))), (np.zeros((1, 2, 1, 2)), None)):
            ep = (30.0, 5) if first is None else (40.0, 5)
            eko[ep] = items.Operator(np.ones((1, 2, 1, 2)), first)
            eko[ep] = items.Operator(2 * np.ones((1, 2, 1, 2)), second)
            del eko[ep]
            try:
                got = eko[ep]
                if not np.array_equal(got.operator, 2 * np.ones((1, 2, 1, 2))) or (got.error is None) != (second is None): out.append(f"overwriting {ep} (error {'absent' if first is None else 'present'} -> {'absent' if second is None else 'present'}) reads back the old value")
            except Exception as e:
                out.append(f"after overwriting {ep} with an operator {'with' if second is not None else 'without'} errors the point cannot be read: {type(e).__name__}: {str(e)[:80]}")
    finally:
        shutil.rmtree(base, ignore_errors=True)
    return bool(out), "; ".join(out) if out else "the store behaves like a map on the sampled history"
'''


def run(chk):
    from eko.io import struct, inventory, metadata as metadata_mod, items
    from eko.io.access import AccessConfigs
    from eko.io.items import Target
    from contracts import ghostfs as G

    rp = script(REPLAY, kind="map_history_oracle")
    chk.under_contract("eko.io.struct:EKO.__setitem__", "eko.io.struct:EKO.__getitem__", "eko.io.struct:EKO.__delitem__", "eko.io.struct:EKO.__contains__", "eko.io.struct:EKO.__iter__",
                       "eko.io.struct:EKO.items", "eko.io.struct:EKO.unload", "eko.io.struct:EKO.load", "eko.io.inventory:Inventory.__getitem__", "eko.io.inventory:Inventory.__setitem__",
                       "eko.io.inventory:Inventory.__delitem__", "eko.io.inventory:Inventory.__iter__", "eko.io.inventory:Inventory.sync", "eko.io.inventory:Inventory.lookup", "eko.io.inventory:encode")
    chk.trust("ghost file system call contracts (contracts/ghostfs.py)", "data independence: keys enter only through hash / equality, values are opaque -- 3 points x 2 values exhibit every interaction",
              "lemma: induction over the history (base: empty new EKO; step: checked from every INV state)", "close = tar of the working directory and reopen = its extraction (C38 / C36)",
              "Operator.save / load are inverse on the bytes (C36)")
    chk.uncovered("approximate lookup is checked on an enumerated set of placements (exact hits, one / two neighbours within tolerance, other nf), not for arbitrary floats", "hash collisions of encode(): abs(hash) folded to 8 bytes")

    class Val:
        """operator payload token with the shape EKO.load inspects"""

        def __init__(self, name):
            self.name, self.shape = name, (1, 2, 1, 2)

        def __eq__(self, o):
            return isinstance(o, Val) and o.name == self.name

        def __hash__(self):
            return hash(self.name)

        def __repr__(self):
            return f"Val({self.name})"

    KEYS = [(10.0, 4), (20.0, 5), (30.0, 5)]
    VALS = ["a", "b+err"]      # the second value carries an error array (stored under a different file extension)
    PER_KEY = [("absent", None, None)] + [("present", v, c) for v in VALS for c in ("unloaded", "loaded")]
    WORK = "/tmp/eko-w"

    class FakeMeta:
        def __init__(self, path):
            self.path = path

        @classmethod
        def load(cls, path):
            return cls(path)

    saved = (items.Operator.save, items.Operator.load, struct.Metadata)
    items.Operator.save = lambda self, fd: (fd.write(self.operator.name.encode()), self.error is None)[1]
    items.Operator.load = classmethod(lambda cls, fd: mkop(fd.read().decode().removeprefix("bytes:")))
    struct.Metadata = FakeMeta

    def mkop(v):
        return items.Operator(Val(v), Val("error") if v.endswith("+err") else None)

    def build(state):
        """concrete EKO + ghost disk for an abstract INV state {key: (kind, value, cache)}"""
        fs = G.FS()
        fs.dirs |= {WORK, WORK + "/operators", WORK + "/parts", WORK + "/parts/matching", WORK + "/recipes", WORK + "/recipes/matching"}
        fs.files[WORK + "/metadata.yaml"] = "metadata"
        undo = G.install(fs, struct, inventory, metadata_mod)
        work = G.GPath(fs, WORK)
        access = AccessConfigs(G.GPath(fs, "/out/a.tar"), readonly=False, open=True)
        eko = struct.EKO(**struct.inventories(work, access), metadata=FakeMeta(work), access=access)
        model = {}
        for k, (kind, v, c) in state.items():
            if kind == "present":
                eko[k] = mkop(v)         # through the real writer, then adjust the cache to the requested INV state
                if c == "unloaded":
                    eko.operators.cache[Target.from_ep(k)] = None
                model[k] = Val(v)
        fs.log.clear()
        return fs, eko, model, undo

    def disk_model(fs):
        """what the disk says: {key: value} from header + operator files (independent reading of the ghost disk)"""
        import yaml
        heads, ops = {}, {}
        for p, c in fs.files.items():
            if p.startswith(WORK + "/operators/"):
                stem = p.rsplit("/", 1)[1].split(".", 1)[0]
                if p.endswith(".yaml"):
                    d = yaml.safe_load(c)
                    heads[stem] = (d["scale"], d["nf"])
                else:
                    ops.setdefault(stem, []).append(c)
        dup = {heads.get(s, s) for s, l in ops.items() if len(l) > 1}
        return {heads[s]: (ops.get(s) or [None])[-1] for s in heads}, (set(ops) - set(heads)) | {f"several operator files for {d}" for d in dup}

    def inv_holds(fs, eko, model):
        dm, orphans = disk_model(fs)
        probs = []
        if set(dm) != set(model):
            probs.append(f"disk keys {sorted(dm)} != model keys {sorted(model)}")
        for k, v in model.items():
            if k in dm and dm[k] != "bytes:" + v.name:
                probs.append(f"disk value of {k} is {dm[k]}, model {v}")
        if orphans:
            probs.append(f"operator files without header / duplicated: {sorted(map(str, orphans))}")
        ck = {t.ep for t in eko.operators.cache}
        if ck != set(model):
            probs.append(f"cache keys {sorted(ck)} != model keys {sorted(model)}")
        for t, op in eko.operators.cache.items():
            if op is not None and t.ep in model and op.operator != model[t.ep]:
                probs.append(f"cached value of {t.ep} is {op.operator}, model {model[t.ep]}")
        return probs

    OPS = [("set", k, v) for k in KEYS for v in VALS] + [(o, k, None) for o in ("get", "unload", "contains") for k in KEYS] + [("iterate", None, None), ("items", None, None), ("unload_all", None, None), ("reopen", None, None)]
    failures = {}
    n_trans = 0
    try:
        # base case
        fs, eko, model, undo = build({k: PER_KEY[0] for k in KEYS})
        try:
            chk.ground("C37.base.empty_store", list(eko) == [] and not inv_holds(fs, eko, {}), fn="eko.io.struct:EKO", goal="a fresh EKO is the empty map and satisfies INV", replay=rp)
        finally:
            undo()
        for combo in itertools.product(PER_KEY, repeat=len(KEYS)):
            state = dict(zip(KEYS, combo))
            for (o, k, v) in OPS:
                fs, eko, model, undo = build(state)
                n_trans += 1
                why = None
                try:
                    pre = inv_holds(fs, eko, model)
                    if pre:
                        why = f"harness: constructed state violates INV: {pre}"
                    elif o == "set":
                        eko[k] = mkop(v)
                        model[k] = Val(v)
                    elif o == "get":
                        try:
                            got = eko[k]
                            if k not in model:
                                why = f"get of an absent point returned {got}"
                            elif got is None or got.operator != model[k]:
                                why = f"get returned {got}, model {model[k]}"
                        except (LookupError, ValueError, KeyError) as e:
                            if k in model:
                                why = f"get of a stored point raised {type(e).__name__}: {e}"
                    elif o == "unload":
                        del eko[k]
                    elif o == "contains":
                        if (k in eko) != (k in model):
                            why = f"membership answers {k in eko}, model {k in model}"
                    elif o == "iterate":
                        if sorted(eko) != sorted(model) or len(list(eko)) != len(model):
                            why = f"iteration yields {sorted(eko)}, model {sorted(model)}"
                    elif o == "items":
                        got = {ep: op.operator for ep, op in eko.items()}
                        if got != model:
                            why = f"items() yields {got}, model {model}"
                    elif o == "unload_all":
                        eko.unload()
                    elif o == "reopen":
                        eko2 = struct.EKO.load(G.GPath(fs, WORK))
                        if sorted(eko2) != sorted(model):
                            why = f"after reopening iteration yields {sorted(eko2)}, model {sorted(model)}"
                        else:
                            got = {ep: eko2[ep].operator for ep in list(eko2)}
                            if got != model:
                                why = f"after reopening the values are {got}, model {model}"
                        eko = eko2
                    if why is None:
                        post = inv_holds(fs, eko, model)
                        if post:
                            why = f"INV broken afterwards: {post[0]}"
                except Exception as e:
                    why = f"{type(e).__name__}: {e}"
                finally:
                    undo()
                if why:
                    key = (o, "stored point" if (k is not None and state[k][0] == "present") else ("absent point" if k is not None else "-"))
                    failures.setdefault(key, []).append(f"state {dict((kk, s[0] + ('/' + s[2] if s[2] else '')) for kk, s in state.items())}, {o}({k}{',' + v if v else ''}): {why}")
        groups = sorted({(o, w) for (o, k, v) in OPS for w in (("stored point", "absent point") if k is not None else ("-",))})
        for (o, w) in groups:
            f = failures.get((o, w), [])
            chk.ground(f"C37.step.{o}[{w}]", not f, fn="eko.io.struct:EKO" if o not in ("unload",) else "eko.io.inventory:Inventory.__delitem__", replay=rp,
                       goal=f"from every INV state: {o} on a(n) {w} answers like the dictionary model and re-establishes INV", detail=f"{len(f)} transitions fail, e.g. {f[0]}" if f else "")
        # ---- approximate lookup: unique point within tolerance / None / error when ambiguous -------------------------------------------------------
        import math
        base = 100.0
        POOL = [(base, 5), (base * (1 + 2e-7), 5), (base * (1 + 5e-6), 5), (base, 4), (2 * base, 5)]
        QUERIES = [(base, 5), (base * (1 + 1e-7), 5), (base * (1 + 2e-7), 5), (base * (1 + 3e-6), 5), (base * (1 + 5e-6), 5), (base * (1 - 4e-7), 5), (1.5 * base, 5), (base, 4), (base, 6), (2 * base * (1 - 5e-7), 5)]
        rtol, atol = 1e-6, 1e-10
        n_approx, bad_approx = 0, []
        for r in range(0, 4):
            for stored in itertools.combinations(POOL, r):
                for loaded in (False, True):
                    state = {k: PER_KEY[0] for k in KEYS}
                    fs, eko, model, undo = build(state)
                    try:
                        for ep in stored:
                            eko[ep] = mkop("a")
                            if not loaded:
                                del eko[ep]
                        for q in QUERIES:
                            n_approx += 1
                            close = [ep for ep in stored if ep[1] == q[1] and abs(q[0] - ep[0]) <= atol + rtol * abs(ep[0])]
                            try:
                                got = eko.approx(q, rtol=rtol, atol=atol)
                                outcome = ("value", got)
                            except ValueError:
                                outcome = ("ambiguous", None)
                            want = ("value", None) if not close else (("value", close[0]) if len(close) == 1 else ("ambiguous", None))
                            ok = outcome[0] == want[0] and (outcome[1] is None) == (want[1] is None) and (outcome[1] is None or (float(outcome[1][0]) == want[1][0] and int(outcome[1][1]) == want[1][1]))
                            if not ok:
                                bad_approx.append(f"stored {list(stored)} ({'loaded' if loaded else 'unloaded'}), query {q}: approx gives {outcome}, specification {want}")
                    except Exception as e:
                        bad_approx.append(f"stored {list(stored)}: {type(e).__name__}: {e}")
                    finally:
                        undo()
        chk.ground("C37.approx.unique_none_or_ambiguous", not bad_approx, fn="eko.io.struct:EKO.approx", replay=rp,
                   goal=f"approx(q) == the unique stored point with the same nf within |q - s| <= atol + rtol |s|, None if there is none, ValueError if there are several ({n_approx} (store, query) placements: exact hits, one / two neighbours within tolerance, other nf, loaded and unloaded)",
                   detail="; ".join(bad_approx[:3]))
        chk.configs += n_approx
        chk.ground("C37.step.transitions_enumerated", n_trans == len(PER_KEY) ** len(KEYS) * len(OPS), fn="eko.io.struct:EKO", goal=f"all {len(PER_KEY) ** len(KEYS)} INV states x {len(OPS)} operations executed", detail=str(n_trans), replay=rp)
        chk.configs += n_trans
        chk.extra.update(states=len(PER_KEY) ** len(KEYS), transitions=n_trans, traces_validated_against_impl=n_trans,
                         rule="every INV state over 3 points x 2 values (125) x every operation (19): each transition is one execution of the real code over the ghost disk")
    finally:
        items.Operator.save, items.Operator.load, struct.Metadata = saved
    chk.extra["exhaustive"] = True
