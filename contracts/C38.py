"""C38 -- failed or interrupted runs never leave a corrupt or partial archive.

Exceptional postconditions of the real EKO.close / EKO.dump / EKO.__exit__ / Builder.__exit__ / Inventory.__setitem__ / InternalPaths.bootstrap, executed
unmodified over the ghost file system of contracts/ghostfs.py (assumed POSIX call contracts; file contents are abstract tokens).  EVERY disk-changing
operation of a session is a fault point; the sessions are run once per fault point (and fault-free):
  new     EKO.create(path) -> Builder -> build() (bootstrap) -> store two operators -> leave the context
  edit    an opened, writeable EKO whose archive holds OLD -> store an operator -> leave the context
  failing any of the two with an exception raised by the user code / a computation step inside the context
ensures, for every fault point k (a 'complete' archive is a closed tar in which every stored header has exactly one complete operator file):
  new   : after the failure the archive path does not exist, or holds the complete new archive;   edit: it holds OLD completely, or the complete new one;
          never an incomplete tar, never nothing where OLD was;
  then  : running the same session again on the same path, fault-free, succeeds and leaves the complete archive (a new EKO whose archive was already
          completed when the failure struck -- a failing clean-up -- is refused with OutputExistsError, eko's documented no-overwrite rule);
  an exception inside the context leaves the archive path exactly as it was;
  fault-free: the archive is the tar of the working directory at the moment of closing, the working directory is removed, the EKO is closed.
thorough tier: pairs of fault points.
"""
from pyvc.replay import script

LEVEL = "fault_enumeration"   # every disk-changing operation of the sessions is failed once (pairs in the thorough tier)

REPLAY = '''
def replay():
    """native, real file system: make the archive writer fail while an edited EKO is closed -- the previous archive must survive"""
    import pathlib, tempfile, tarfile, shutil, io
    from eko.io import struct
    from eko.io.access import AccessConfigs
    out = []
    base = pathlib.Path(tempfile.mkdtemp(prefix="c38-"))
    try:
        for mode in ("edit", "new"):
            for fail in ("open", "add"):
                work = base / f"work-{mode}-{fail}"; work.mkdir()
                (work / "metadata.yaml").write_text("x: 1")
                archive = base / f"a-{mode}-{fail}.tar"
                if mode == "edit":
                    with tarfile.open(archive, "w") as t: t.add(work, arcname=".")
                    old = archive.read_bytes()
                class M: path = work
                eko = struct.EKO(**struct.inventories(work, AccessConfigs(archive, False, True)), metadata=M(), access=AccessConfigs(archive, False, True))
                real_open, real_add = tarfile.open, tarfile.TarFile.add
                def bad_open(*a, **k):
                    if len(a) > 1 and "w" in a[1]: raise OSError("injected: cannot open archive for writing")
                    return real_open(*a, **k)
                def bad_add(self, *a, **k): raise OSError("injected: disk full while adding")
                try:
                    if fail == "open": tarfile.open = bad_open
                    else: tarfile.TarFile.add = bad_add
                    try: eko.__exit__(None, None, None)
                    except OSError: pass
                finally:
                    tarfile.open, tarfile.TarFile.add = real_open, real_add
                if mode == "edit":
                    if not archive.exists(): out.append(f"edit session, failure in tar {fail}: the previous archive is gone")
                    elif archive.read_bytes() != old:
                        try:
                            with tarfile.open(archive) as t: names = t.getnames()
                            complete = "./metadata.yaml" in names or "metadata.yaml" in names
                        except Exception: complete = False
                        if not complete: out.append(f"edit session, failure in tar {fail}: the archive is left incomplete / corrupt")
                else:
                    if archive.exists():
                        try:
                            with tarfile.open(archive) as t: names = t.getnames()
                            complete = any(n.endswith("metadata.yaml") for n in names)
                        except Exception: complete = False
                        if not complete: out.append(f"new EKO, failure in tar {fail}: a partial archive is left at the target path")
    finally:
        shutil.rmtree(base, ignore_errors=True)
    return bool(out), "; ".join(out) if out else "the archive survives failures of the archive writer"
'''


def run(chk):
    from eko.io import struct, inventory, metadata as metadata_mod, items
    from eko.io.access import AccessConfigs
    from eko.io import exceptions
    from contracts import ghostfs as G

    rp = script(REPLAY, kind="archive_survives_oracle")
    chk.under_contract("eko.io.struct:EKO.close", "eko.io.struct:EKO.dump", "eko.io.struct:EKO.__exit__", "eko.io.struct:Builder.__exit__", "eko.io.struct:Builder.__post_init__",
                       "eko.io.struct:Builder.build", "eko.io.struct:EKO.create", "eko.io.inventory:Inventory.__setitem__", "eko.io.paths:InternalPaths.bootstrap")
    chk.trust("ghost file system: POSIX call contracts of pathlib / tarfile / shutil / tempfile / open as stated in contracts/ghostfs.py (atomic effect after the fault point; tarfile 'w' truncates at once; replace is atomic)",
              "Operator.save writes through the file object it is given (stubbed: array serialisation is C36's subject)")
    chk.uncovered("crashes of the process itself (power loss): only failures that surface as exceptions are enumerated", "the computation steps of a real solve are represented by one user-code failure point inside the context")
    pairs = chk.tier == "thorough"

    class Card:
        def __init__(self, raw, **kw):
            self.raw = raw
            self.__dict__.update(kw)

    class FakeMeta:
        def __init__(self, path):
            self.path = path

        def update(self):
            (self.path / "metadata.yaml").write_text("metadata")

    def session_new(fs, user_failure=False):
        undo = G.install(fs, struct, inventory, metadata_mod)
        saved_save = items.Operator.save
        items.Operator.save = lambda self, fd: (fs.tick("operator.save", getattr(fd, "path_", "?")), fd.write(b"operator-bytes"), self.error is None)[2]
        saved_meta = struct.Metadata
        struct.Metadata = lambda _path, origin, xgrid: type("M", (), {"path": _path, "raw": {"origin": "o", "xgrid": "x"}, "xgrid": xgrid, "origin": origin, "update": lambda self: None})()
        try:
            th, op = Card({"order": [1, 0]}), Card({"mugrid": []}, init=(1.65, 4), xgrid="xgrid")
            with struct.EKO.create(G.GPath(fs, "/out/a.tar")) as builder:
                eko = builder.load_cards(th, op).build()
                eko[(10.0, 4)] = items.Operator("operator-1")
                if user_failure:
                    raise (user_failure if isinstance(user_failure, type) else RuntimeError)("user code / computation step fails or is interrupted inside the context")
                eko[(20.0, 5)] = items.Operator("operator-2", "error-2")
            return eko
        finally:
            struct.Metadata = saved_meta
            items.Operator.save = saved_save
            undo()

    def prepare_edit(fs):
        fs.dirs |= {"/tmp/eko-edit", "/tmp/eko-edit/operators", "/tmp/eko-edit/parts", "/tmp/eko-edit/parts/matching", "/tmp/eko-edit/recipes", "/tmp/eko-edit/recipes/matching"}
        fs.files["/tmp/eko-edit/metadata.yaml"] = "metadata"
        fs.files["/out/a.tar"] = ("TAR", ("OLD",))

    def session_edit(fs, user_failure=False):
        undo = G.install(fs, struct, inventory, metadata_mod)
        saved_save = items.Operator.save
        items.Operator.save = lambda self, fd: (fs.tick("operator.save", getattr(fd, "path_", "?")), fd.write(b"operator-bytes"), self.error is None)[2]
        try:
            if "/tmp/eko-edit" not in fs.dirs:
                prepare_edit(fs)
            work = G.GPath(fs, "/tmp/eko-edit")
            access = AccessConfigs(G.GPath(fs, "/out/a.tar"), readonly=False, open=True)
            eko = struct.EKO(**struct.inventories(work, access), metadata=FakeMeta(work), access=access)
            with eko:
                eko[(30.0, 5)] = items.Operator("operator-3")
                eko.update()
                if user_failure:
                    raise (user_failure if isinstance(user_failure, type) else RuntimeError)("user code fails or is interrupted inside the context")
            return eko
        finally:
            items.Operator.save = saved_save
            undo()

    ARCH = "/out/a.tar"

    def complete(c):
        """a closed tar whose content is consistent: every stored header has exactly one operator file with complete content (OLD is the opaque previous archive)"""
        if not (isinstance(c, tuple) and c[0] == "TAR"):
            return False
        if c[1] == ("OLD",):
            return True
        files = dict(f for snap in c[1] for f in snap)
        if any(v == G.INCOMPLETE for v in files.values()):
            return False
        for d in ("/operators/", "/parts/", "/parts/matching/"):
            heads = {p[: -len(".yaml")] for p in files if p.startswith(d) and p.count("/") == d.count("/") and p.endswith(".yaml")}
            conts = [p for p in files if p.startswith(d) and p.count("/") == d.count("/") and not p.endswith(".yaml")]
            for h in heads:
                if sum(1 for p in conts if p.startswith(h + ".")) != 1:
                    return False
            if any(not any(p.startswith(h + ".") for h in heads) for p in conts):
                return False
        return True

    for name, session, old in (("new", session_new, None), ("edit", session_edit, ("TAR", ("OLD",)))):
        fn = "eko.io.struct:EKO.close"
        # fault-free run: count the fault points, check the normal postcondition
        fs = G.FS()
        if old:
            prepare_edit(fs)
        eko = session(fs)
        K = fs.count
        final = fs.files.get(ARCH)
        chk.ground(f"C38.{name}.fault_free.archive_complete", complete(final) and final != old, fn=fn, replay=rp, goal="fault-free: the archive is the complete tar of the working directory", detail=str(final)[:200])
        chk.ground(f"C38.{name}.fault_free.closed_and_cleaned", eko.access.open is False and not [d for d in fs.dirs if d.startswith("/tmp/eko-")], fn=fn, replay=rp, goal="fault-free: EKO closed, working directory removed", detail=str(sorted(fs.dirs)))
        chk.ground(f"C38.{name}.fault_points_enumerated", K >= 5, fn=fn, goal="the session has disk-changing operations (not vacuous)", detail=f"{K} fault points", replay=rp)
        schedules = [(k,) for k in range(1, K + 1)]
        bad, rerun_bad = [], []
        for (k,) in schedules:
            fs = G.FS()
            if old:
                prepare_edit(fs)
            fs.fail_at = k
            failed = None
            try:
                session(fs)
            except G.Fault as e:
                failed = str(e)
            except Exception as e:   # the fault may surface wrapped; anything else is reported below through the archive state
                failed = f"{type(e).__name__}: {e}"
            state = fs.files.get(ARCH)
            ok = (state == old or complete(state)) if failed else complete(state)
            if not ok:
                bad.append(f"{failed}: archive afterwards = {'absent' if state is None else state}")
            # a subsequent fault-free run of the same session on the same path succeeds
            fs.fail_at = None
            already_there = not old and complete(state)    # new EKO whose archive was completed before the failure (e.g. the clean-up failed): eko refuses to overwrite outputs
            try:
                session(fs)
                if not complete(fs.files.get(ARCH)):
                    rerun_bad.append(f"after '{failed}': the re-run left {fs.files.get(ARCH)}")
            except exceptions.OutputExistsError as e:
                if not already_there:
                    rerun_bad.append(f"after '{failed}': the re-run fails with {type(e).__name__}: {e}")
            except Exception as e:
                rerun_bad.append(f"after '{failed}': the re-run fails with {type(e).__name__}: {e}")
        chk.ground(f"C38.{name}.every_fault_point.archive_old_or_complete", not bad, fn=fn, replay=rp,
                   goal=("new EKO: after any single failure the archive path is absent or complete" if not old else "edited EKO: after any single failure the archive holds OLD or the complete new content") + f" ({K} fault points)", detail="; ".join(bad[:4]))
        chk.ground(f"C38.{name}.every_fault_point.rerun_succeeds", not rerun_bad, fn="eko.io.struct:Builder.__post_init__", replay=rp, goal="after any single failure a fault-free re-run on the same path succeeds", detail="; ".join(rerun_bad[:3]))
        chk.configs += K
        if pairs:
            bad2 = []
            for k1 in range(1, K + 1):
                for k2 in range(k1 + 1, K + 3):
                    fs = G.FS()
                    if old:
                        prepare_edit(fs)
                    fs.fail_at = k1
                    try:
                        session(fs)
                    except Exception:
                        fs.fail_at = k2          # a second failure, e.g. in the clean-up path or in the re-run
                        fs.count = k1
                        try:
                            session(fs)
                        except Exception:
                            pass
                    state = fs.files.get(ARCH)
                    if not (state == old or complete(state)):
                        bad2.append(f"faults #{k1},#{k2}: archive = {'absent' if state is None else state}")
            chk.ground(f"C38.{name}.fault_pairs.archive_old_or_complete", not bad2, fn=fn, replay=rp, goal="two failures (second one during clean-up or the re-run): the archive is still OLD / absent or complete", detail="; ".join(bad2[:4]))
        # exception inside the context: the archive path is left exactly as it was
        fs = G.FS()
        if old:
            prepare_edit(fs)
        before = fs.files.get(ARCH)
        try:
            session(fs, user_failure=True)
            raised = False
        except RuntimeError:
            raised = True
        chk.ground(f"C38.{name}.exception_in_context.archive_untouched", raised and fs.files.get(ARCH) == before and not [l for l in fs.log if l[1].startswith(ARCH)], fn="eko.io.struct:EKO.__exit__", replay=rp,
                   goal="an exception inside the context propagates and no operation touches the archive path", detail=str([l for l in fs.log if l[1].startswith(ARCH)]))
        # "failed or interrupted": an interruption is not an Exception subclass (KeyboardInterrupt, SystemExit, GeneratorExit)
        for exc in (KeyboardInterrupt, SystemExit, GeneratorExit):
            fs = G.FS()
            if old:
                prepare_edit(fs)
            before = fs.files.get(ARCH)
            try:
                session(fs, user_failure=exc)
                raised = False
            except exc:
                raised = True
            chk.ground(f"C38.{name}.interrupted_in_context[{exc.__name__}].archive_untouched", raised and fs.files.get(ARCH) == before and not [l for l in fs.log if l[1].startswith(ARCH)], fn="eko.io.struct:EKO.__exit__",
                       replay=rp, goal="an interruption inside the context propagates and no operation touches the archive path", detail=str([l for l in fs.log if l[1].startswith(ARCH)]))
        # an interruption arriving during any disk-changing operation of the session (instead of an I/O error)
        badi = []
        for k in range(1, K + 1):
            fs = G.FS()
            if old:
                prepare_edit(fs)
            fs.fail_at, fs.fault_class = k, G.Interrupt
            failed = None
            try:
                session(fs)
            except BaseException as e:   # noqa: BLE001
                failed = f"{type(e).__name__}: {e}"
            state = fs.files.get(ARCH)
            if not ((state == old or complete(state)) if failed else complete(state)):
                badi.append(f"{failed}: archive afterwards = {'absent' if state is None else state}")
        chk.ground(f"C38.{name}.every_fault_point.interrupted.archive_old_or_complete", not badi, fn=fn, replay=rp,
                   goal="an interruption (KeyboardInterrupt) during any disk-changing operation leaves the archive absent / OLD or complete", detail="; ".join(badi[:3]) or None)
    chk.extra["exhaustive"] = True
    chk.extra["rule"] = "one execution of the real session code per fault point (each disk-changing operation of the fault-free run fails once), each followed by a fault-free re-run; all fault points are distinct operations"
    chk.extra["evaluations"] = 2 * chk.configs
    chk.extra["distinct_nontrivial"] = chk.configs
