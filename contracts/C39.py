"""C39 -- read-only and closed EKOs never change on disk.

The real mutators of eko.io (EKO.__setitem__, load_recipes, update, xgrid setter, dump to the default archive, every Inventory.__setitem__) and EKO.close run
unmodified over the ghost file system of contracts/ghostfs.py, which logs every disk-changing operation.
requires  an EKO that is (a) open and read-only -- opened from an archive or from an already extracted folder (no archive path) --, or (b) closed (after a regular close of a read-only or of a writeable EKO)
ensures   every attempt to store an operator, a recipe or metadata raises ReadOnlyOperator resp. ClosedOperator (both OutputError) and performs NO
          disk-changing operation before raising -- in any order and any number of attempts (the attempts do not change `access`, so one attempt of each kind
          from each state covers every sequence: frame condition checked on `access` after each attempt);
          reads are served in (a) and refused in (b);
          closing a read-only EKO never touches the archive path (only the working directory is removed);
          the archive content after the whole session equals the content before.
"""
from pyvc.replay import script

LEVEL = "model_checking"   # every (access state, mutator) pair executed on the real implementation over the ghost disk; frame condition extends it to sequences

REPLAY = '''
def replay():
    """native, real file system: store attempts on a read-only and on a closed EKO must raise and leave the archive bytes unchanged"""
    import pathlib, tempfile, shutil, hashlib
    import numpy as np
    from eko.io import struct, items
    from eko.io.access import AccessConfigs, ReadOnlyOperator, ClosedOperator
    from eko.io.items import Evolution, Matching
    out = []
    base = pathlib.Path(tempfile.mkdtemp(prefix="c39-"))
    try:
        work = base / "work"; work.mkdir()
        for d in ("operators", "parts", "parts/matching", "recipes", "recipes/matching"): (work / d).mkdir()
        (work / "metadata.yaml").write_text("x: 1")
        archive = base / "a.tar"; archive.write_bytes(b"ARCHIVE-BYTES")
        class M:
            path = work
            xgrid = None
            def update(self): (work / "metadata.yaml").write_text("changed")
        def tree(): return sorted((str(p.relative_to(base)), hashlib.sha1(p.read_bytes()).hexdigest()) for p in base.rglob("*") if p.is_file())
        op = items.Operator(np.eye(2).reshape(1, 2, 1, 2))
        for state in ("readonly", "closed"):
            access = AccessConfigs(archive, readonly=(state == "readonly"), open=(state == "readonly"))
            eko = struct.EKO(**struct.inventories(work, access), metadata=M(), access=access)
            attempts = {
                "store operator": lambda: eko.__setitem__((10.0, 4), op),
                "store part": lambda: eko.parts.__setitem__(Evolution(1.0, 2.0, 4), op),
                "store matching part": lambda: eko.parts_matching.__setitem__(Matching(2.0, 4, False), op),
                "load recipes": lambda: eko.load_recipes([Evolution(1.0, 2.0, 4), Matching(2.0, 4, False)]),
                "update metadata": lambda: eko.update(),
                "set xgrid": lambda: setattr(eko, "xgrid", None),
                "dump to the default archive": lambda: eko.dump(),
            }
            before = tree()
            for name, f in attempts.items():
                try:
                    f(); out.append(f"{state} EKO: '{name}' did not raise")
                except (ReadOnlyOperator, ClosedOperator):
                    pass
                except Exception as e:
                    out.append(f"{state} EKO: '{name}' raised {type(e).__name__} instead of a read-only / closed error")
                if tree() != before:
                    out.append(f"{state} EKO: '{name}' changed files on disk"); before = tree()
    finally:
        shutil.rmtree(base, ignore_errors=True)
    return bool(out), "; ".join(out[:5]) if out else "store attempts on read-only / closed EKOs raise and leave the disk unchanged"
'''


def run(chk):
    from eko.io import struct, inventory, metadata as metadata_mod, items, exceptions
    from eko.io.access import AccessConfigs, ReadOnlyOperator, ClosedOperator
    from eko.io.items import Evolution, Matching, Target
    from contracts import ghostfs as G

    rp = script(REPLAY, kind="readonly_closed_oracle")
    chk.under_contract("eko.io.access:AccessConfigs.assert_open", "eko.io.access:AccessConfigs.assert_writeable", "eko.io.struct:EKO.__setitem__", "eko.io.struct:EKO.load_recipes",
                       "eko.io.struct:EKO.update", "eko.io.struct:EKO.xgrid", "eko.io.struct:EKO.dump", "eko.io.struct:EKO.close", "eko.io.struct:EKO.__getitem__",
                       "eko.io.inventory:Inventory.__setitem__", "eko.io.inventory:Inventory.__getitem__")
    chk.trust("ghost file system call contracts (contracts/ghostfs.py): every disk-changing operation of pathlib / tarfile / shutil / open is logged",
              "lemma: the attempts leave `access` unchanged (checked after each), hence the verdict of one attempt of each kind per state extends to every sequence of attempts")
    chk.uncovered("bytes of a real tar file (the ghost archive is a token); covered natively by the replay oracle only")

    class FakeMeta:
        def __init__(self, path):
            self.path, self.xgrid = path, "xgrid"

        def update(self):
            (self.path / "metadata.yaml").write_text("metadata-changed")

    def fresh(readonly, open_, with_archive=True):
        fs = G.FS()
        fs.dirs |= {"/tmp/eko-w", "/tmp/eko-w/operators", "/tmp/eko-w/parts", "/tmp/eko-w/parts/matching", "/tmp/eko-w/recipes", "/tmp/eko-w/recipes/matching"}
        fs.files["/tmp/eko-w/metadata.yaml"] = "metadata"
        fs.files["/out/a.tar"] = ("TAR", ("CONTENT",))
        tgt = Target(10.0, 4)
        fs.files["/tmp/eko-w/operators/" + inventory.header_name(tgt)] = "header"
        fs.files["/tmp/eko-w/operators/" + inventory.operator_name(tgt, err=False)] = "bytes:stored-operator"
        work = G.GPath(fs, "/tmp/eko-w")
        # an EKO opened from an already extracted folder has no archive path (EKO.read(folder, extract=False) / EKO.load)
        access = AccessConfigs(G.GPath(fs, "/out/a.tar") if with_archive else None, readonly=readonly, open=open_)
        eko = struct.EKO(**struct.inventories(work, access), metadata=FakeMeta(work), access=access)
        return fs, eko

    op = items.Operator("operator-token")
    ATT = {
        "store_operator": lambda eko: eko.__setitem__((20.0, 5), op),
        "overwrite_operator": lambda eko: eko.__setitem__((10.0, 4), op),
        "store_part": lambda eko: eko.parts.__setitem__(Evolution(1.0, 2.0, 4), op),
        "store_matching_part": lambda eko: eko.parts_matching.__setitem__(Matching(2.0, 4, False), op),
        "store_recipe": lambda eko: eko.recipes.__setitem__(Evolution(1.0, 2.0, 4), None),
        "store_matching_recipe": lambda eko: eko.recipes_matching.__setitem__(Matching(2.0, 4, False), None),
        "load_recipes": lambda eko: eko.load_recipes([Evolution(1.0, 2.0, 4), Matching(2.0, 4, False)]),
        # recipes the object already knows (registered before it was closed, or read / synced on a read-only one): storing them again is a store attempt too
        "store_known_recipe": lambda eko: (eko.recipes.cache.__setitem__(Evolution(1.0, 2.0, 4), None), eko.recipes.__setitem__(Evolution(1.0, 2.0, 4), None)),
        "store_known_matching_recipe": lambda eko: (eko.recipes_matching.cache.__setitem__(Matching(2.0, 4, False), None), eko.recipes_matching.__setitem__(Matching(2.0, 4, False), None)),
        "load_known_recipes": lambda eko: (eko.recipes.cache.__setitem__(Evolution(1.0, 2.0, 4), None), eko.recipes_matching.cache.__setitem__(Matching(2.0, 4, False), None),
                                           eko.load_recipes([Evolution(1.0, 2.0, 4), Matching(2.0, 4, False)])),
        "update_metadata": lambda eko: eko.update(),
        "set_xgrid": lambda eko: setattr(eko, "xgrid", "other"),
        "dump_to_default_archive": lambda eko: eko.dump(),
    }
    undo = None
    saved_save, saved_load = items.Operator.save, items.Operator.load
    items.Operator.save = lambda self, fd: (fd.write(b"operator-bytes"), self.error is None)[1]
    items.Operator.load = classmethod(lambda cls, fd: items.Operator("loaded:" + fd.read().decode()))
    try:
        for state, readonly, open_, err in (("readonly", True, True, ReadOnlyOperator), ("closed_readonly", True, False, ClosedOperator), ("closed_writeable", False, False, ClosedOperator),
                                            ("readonly_extracted_folder", True, True, ReadOnlyOperator), ("closed_extracted_folder", True, False, ClosedOperator)):
            for name, attempt in ATT.items():
                if state.endswith("extracted_folder") and name == "dump_to_default_archive":
                    continue          # no default archive to dump to
                fs, eko = fresh(readonly, open_, with_archive=not state.endswith("extracted_folder"))
                undo = G.install(fs, struct, inventory, metadata_mod)
                before = fs.clone_state()
                acc = (eko.access.path, eko.access.readonly, eko.access.open)
                try:
                    attempt(eko)
                    outcome = "returned"
                except (ReadOnlyOperator, ClosedOperator) as e:    # the statement asks for "an error": either access error is accepted in either state
                    outcome = "refused" if isinstance(e, exceptions.OutputError) else f"{type(e).__name__} is not an OutputError"
                except Exception as e:
                    outcome = f"{type(e).__name__}: {e}"
                finally:
                    undo()
                fn = "eko.io.struct:EKO" if "part" not in name and "recipe" not in name else "eko.io.inventory:Inventory.__setitem__"
                chk.ground(f"C39.{state}.{name}.refused", outcome == "refused", fn=fn, replay=rp, goal="raises ReadOnlyOperator / ClosedOperator (an OutputError)", detail=outcome)
                chk.ground(f"C39.{state}.{name}.no_disk_change", not fs.log and fs.clone_state() == before, fn=fn, replay=rp, goal="no disk-changing operation is performed before the refusal", detail=str(fs.log[:4]))
                chk.ground(f"C39.{state}.{name}.access_unchanged", (eko.access.path, eko.access.readonly, eko.access.open) == acc, fn="eko.io.access:AccessConfigs", replay=rp, goal="frame: the attempt leaves the access state as it was")
            chk.configs += 1
        # reads: served when open and read-only, refused when closed; never a disk change
        fs, eko = fresh(True, True)
        undo = G.install(fs, struct, inventory, metadata_mod)
        try:
            got = eko[(10.0, 4)]
            ok = got is not None and got.operator == "loaded:bytes:stored-operator"
        except Exception as e:
            ok, got = False, f"{type(e).__name__}: {e}"
        finally:
            undo()
        chk.ground("C39.readonly.read_is_served", bool(ok) and not fs.log, fn="eko.io.inventory:Inventory.__getitem__", replay=rp, goal="an open read-only EKO serves reads and they do not change the disk", detail=f"{got} {fs.log[:3]}")
        for state, readonly in (("closed_readonly", True), ("closed_writeable", False)):
            fs, eko = fresh(readonly, False)
            undo = G.install(fs, struct, inventory, metadata_mod)
            try:
                eko[(10.0, 4)]
                outcome = "returned"
            except (ClosedOperator, ReadOnlyOperator):
                outcome = "refused"
            except Exception as e:
                outcome = f"{type(e).__name__}: {e}"
            finally:
                undo()
            chk.ground(f"C39.{state}.read_is_refused", outcome == "refused" and not fs.log, fn="eko.io.inventory:Inventory.__getitem__", replay=rp, goal="a closed EKO refuses reads (ClosedOperator), no disk change", detail=outcome)
        # closing a read-only EKO: the archive path is never touched; afterwards it is closed and store attempts are refused without disk change
        fs, eko = fresh(True, True)
        undo = G.install(fs, struct, inventory, metadata_mod)
        arch_before = fs.files["/out/a.tar"]
        try:
            eko.close()
            closed = eko.access.open is False
            touched = [l for l in fs.log if l[1].startswith("/out/")]
            n = len(fs.log)
            try:
                eko[(20.0, 5)] = op
                after = "returned"
            except (ClosedOperator, ReadOnlyOperator):
                after = "refused"
            except Exception as e:
                after = f"{type(e).__name__}"
            later = fs.log[n:]
        finally:
            undo()
        chk.ground("C39.readonly.close_does_not_touch_the_archive", closed and not touched and fs.files.get("/out/a.tar") == arch_before, fn="eko.io.struct:EKO.close", replay=rp,
                   goal="close() of a read-only EKO performs no operation on the archive path and leaves its content as it was", detail=str(touched))
        chk.ground("C39.readonly.closed_after_close", after == "refused" and not later, fn="eko.io.struct:EKO.close", replay=rp, goal="after close(): store attempts raise ClosedOperator and change nothing", detail=f"{after} {later[:3]}")
        # a writeable EKO after a regular close: archive = what close wrote; later store attempts are refused and leave it byte-identical
        fs, eko = fresh(False, True)
        undo = G.install(fs, struct, inventory, metadata_mod)
        try:
            eko.close()
            arch_after_close = fs.files.get("/out/a.tar")
            n = len(fs.log)
            outcomes = []
            for name, attempt in ATT.items():
                try:
                    attempt(eko)
                    outcomes.append(f"{name}: returned")
                except (ClosedOperator, ReadOnlyOperator):
                    pass
                except Exception as e:
                    outcomes.append(f"{name}: {type(e).__name__}")
            later = fs.log[n:]
        finally:
            undo()
        chk.ground("C39.closed_writeable.session_of_attempts_after_close", not outcomes and not later and fs.files.get("/out/a.tar") == arch_after_close, fn="eko.io.struct:EKO.close", replay=rp,
                   goal="after a regular close every store attempt raises ClosedOperator and the archive stays exactly what close() wrote", detail=f"{outcomes[:3]} {later[:3]}")
    finally:
        items.Operator.save, items.Operator.load = saved_save, saved_load
    chk.extra["exhaustive"] = True
    chk.extra.update(states=3, transitions=3 * len(ATT) + 3 + 2 + len(ATT), traces_validated_against_impl=3 * len(ATT) + 3 + 2 + len(ATT),
                     rule="3 access states x 10 store attempts + reads + the two close scenarios; every transition is one execution of the real code over the ghost disk")
