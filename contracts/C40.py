"""C40 -- runcards and dict-like structures round-trip through their raw form.  BOUNDED stand-in (never counted as proved).

YAML and the dataclass / typing reflection used by eko.io.dictlike are outside the symbolic engine; the property is checked by `deal` run-time contracts on
the real functions (bounded/C40_native.py) over the enumerated input set stated there:
   plain(c)      c.raw is plain data and yaml.safe_load(yaml.safe_dump(c.raw)) == c.raw
   roundtrip(c)  type(c).from_dict(safe-YAML(c.raw)) has the same field values as c, arrays by value, the x-grid by nodes AND logarithmic flag
   settings(op)  runner.commons.interpolator(op) uses the declared nodes, polynomial degree and interpolation_is_log -- for the card as built, after a reload, and
                 for a card that declares the kind in its configs only
Two defect classes found and repaired by fix commits: NumPy scalars / tuples in the raw form, and the logarithmic flag (lost on reload, ignored by the interpolator).
"""
LEVEL = "exploration"


def run(chk):
    from pyvc import bounded

    chk.under_contract("eko.io.dictlike:DictLike.raw", "eko.io.dictlike:DictLike.from_dict", "eko.io.dictlike:raw_field", "eko.io.dictlike:load_field", "eko.io.dictlike:load_typing",
                       "eko.io.dictlike:load_enum", "eko.io.runcards:OperatorCard.from_dict", "eko.io.runcards:TheoryCard", "eko.interpolation:XGrid", "eko.runner.commons:interpolator")
    chk.trust("BOUNDED: run-time contracts over a finite input set -- no statement about inputs outside it")
    chk.bounded_parts.append("everything: deal run-time contracts over the input set stated in bounded/C40_native.py")
    n = bounded.run_native(chk, "C40_native.py", backend="deal-runtime(bounded)")
    chk.extra["rule"] = "one deal post-condition evaluation per (contract, structure) pair; the structures differ in enum values, orders, mass scheme, grid kind, number kinds (Python / NumPy) or class shape"
    chk.extra["evaluations"] = n
    chk.extra["distinct_nontrivial"] = n
    chk.configs += n
