"""C41 -- legacy runcards and archives upgrade to equivalent current structures.  BOUNDED stand-in (never counted as proved).

The converters are dictionary plumbing around YAML files and the dataclass reflection of eko.io.dictlike -- outside the symbolic engine.  The property is checked by
`deal` run-time contracts on the REAL converters (bounded/C41_native.py).  The post-conditions are the list of settings in the property statement itself (orders,
couplings and references, masses and scheme, matching ratios, scale ratio, grids, evolution points), phrased over the OLD keys -- not over the converter:
   runcards(old_th, old_op)  runcards.Legacy(...).new_theory / .new_operator carry order = (PTO + 1, QED), alphas / alpha_em / (Qref, nfref), (mc, mb, mt) with scheme HQ and
                             Qm* for MSbar, k*Thr, XIF, the x-grid, the evolution scales (mugrid, or the roots of Q2grid / mu2grid) with the flavour number of the default
                             flow, init = (Q0, nf0 or default), interpolation / iteration / polarized / time_like settings, ev_op_max_order, the evolution method
   archive(layout)           EKO.read of an archive whose three YAML files are laid out as 0.13 / 0.14 wrote them (data version 1; the loader tells the two apart by the
                             version string) yields cards and an x-grid with the stored settings: reference = (scale, num_flavs_ref), init = (mu0, num_flavs_init), ...
One defect found and repaired by a fix commit: a legacy operator card whose ev_op_max_order already was a (QCD, QED) pair could not be upgraded (KeyError).
NOT covered (no statement): real archives written by 0.13 / 0.14 -- none is available offline, the old layouts are inferred from the keys the converters read --
and the operators stored in them; the matching order the upgraded cards report (v1 sets [0, 0]; the old cards had no such field).
"""
LEVEL = "exploration"


def run(chk):
    from pyvc import bounded

    chk.under_contract("eko.io.runcards:Legacy.new_theory", "eko.io.runcards:Legacy.new_operator", "eko.io.runcards:flavored_mugrid", "eko.io.runcards:default_atlas", "eko.io.metadata:Metadata.load",
                       "eko.io.v1:update_metadata", "eko.io.v1:update_theory", "eko.io.v1:update_operator", "eko.io.v2:update_metadata", "eko.io.v2:update_theory", "eko.io.v2:update_operator",
                       "eko.io.struct:EKO.theory_card", "eko.io.struct:EKO.operator_card")
    chk.trust("BOUNDED: run-time contracts over a finite input set -- no statement about inputs outside it",
              "layout of the archives written by 0.13 / 0.14: inferred from the keys the converters read (no such archive is available offline)")
    chk.uncovered("real archives written by 0.13 / 0.14 and the operators inside them", "matching_order of upgraded version-1 cards (set to [0, 0] by the converter; the old cards have no such field)",
                  "em_running of upgraded flat cards (Qedref / Qref convention)")
    chk.bounded_parts.append("everything: deal run-time contracts over the input set stated in bounded/C41_native.py")
    n = bounded.run_native(chk, "C41_native.py", backend="deal-runtime(bounded)")
    chk.extra["rule"] = "one deal post-condition evaluation per legacy card pair / archive layout; the pairs differ in PTO, QED, mass scheme, nf0, kind of evolution grid, kind of ev_op_max_order, method name"
    chk.extra["evaluations"] = n
    chk.extra["distinct_nontrivial"] = n
    chk.configs += n
