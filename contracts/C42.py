"""C42 -- reshaping an operator commutes with applying it.

flavour:  with O of shape (p,x,p,x), T and I symbolic p x p matrices (I invertible), f a symbolic input and (.) the contraction ajbk,bk->aj:
              flavor_reshape(O, T, I) (.) (I f) == T (O (.) f)           three branches (target only, input only, both), errors through the
          same contraction; to_evol / to_uni_evol use the 14x14 tables on the requested sides.  The postcondition must hold on EVERY path,
          including the "close to the current basis => skip" shortcuts.
grid:     xgrid_reshape applies get_interpolation(targetgrid) built on the operator grid to the output index and the matrix of the
          dispatcher built on the *input* grid, evaluated at the operator grid, to the input index (einsum wiring proved with symbolic
          matrices standing for the get_interpolation contract of C34); with C34's polynomial reproduction the statement follows for
          exactly representable inputs/outputs (lemma).  xgrid_check: the skip must only be taken for an identical grid.
"""
from fractions import Fraction as Q

import numpy as np

from pyvc import terms as T
from pyvc import vnp
from pyvc.replay import script
from contracts.common import symmat

REPLAY = '''
def replay():
    from eko.io import manipulate
    from eko.io.items import Operator
    from eko import interpolation, basis_rotation as br
    rng = np.random.default_rng(14)
    out = []
    p, x = 14, 4
    O = rng.normal(size=(p, x, p, x)); E = np.abs(rng.normal(size=(p, x, p, x)))
    f = rng.normal(size=(p, x))
    app = lambda op, v: np.einsum("ajbk,bk->aj", op, v)
    mats = [rng.normal(size=(p, p)) + 3 * np.eye(p), br.rotate_flavor_to_evolution.astype(float), br.rotate_flavor_to_unified_evolution.astype(float), np.eye(p) + 4e-6 * rng.normal(size=(p, p))]
    for Tm in mats + [None]:
        for Im in mats + [None]:
            if Tm is None and Im is None: continue
            r = manipulate.flavor_reshape(Operator(O.copy(), E.copy()), Tm, Im)
            lhs = app(r.operator, f if Im is None else Im @ f)
            rhs = app(O, f) if Tm is None else Tm @ app(O, f)
            if not np.allclose(lhs, rhs, rtol=1e-9, atol=1e-9): out.append(f"flavour reshape does not commute with application (max dev {np.abs(lhs-rhs).max():.2e}; nearly-identity rotation: {Tm is mats[3] or Im is mats[3]})")
    xs = np.array([1e-9, 1e-8, 1e-6, 1e-4, 1e-2, 0.1, 0.5, 1.0])
    xg = interpolation.XGrid(xs)
    Ox = rng.normal(size=(2, 8, 2, 8))
    tg = xs.copy(); tg[0] = 3e-9; tg[1] = 2e-8
    r = manipulate.xgrid_reshape(Operator(Ox, None), xg, 2, targetgrid=interpolation.XGrid(tg))
    # outputs exactly representable: operator whose output is a polynomial of degree <= 2 in ln x for every input
    c = rng.normal(size=(2, 3, 2, 8)); Opoly = np.einsum("adbk,jd->ajbk", c, np.vander(np.log(xs), 3, increasing=True))
    r = manipulate.xgrid_reshape(Operator(Opoly, None), xg, 2, targetgrid=interpolation.XGrid(tg))
    want = np.einsum("adbk,jd->ajbk", c, np.vander(np.log(tg), 3, increasing=True))
    if not np.allclose(r.operator, want, rtol=1e-7): out.append(f"xgrid_reshape to a grid differing only below x=1e-7: evolved values at the new nodes off by {np.abs(r.operator-want).max():.2e}")
    return bool(out), "; ".join(sorted(set(out))[:5]) if out else "native reshaping commutes with applying"
'''


def run(chk):
    from eko.io import manipulate
    from eko.io.items import Operator
    from eko import basis_rotation as br

    rp = script(REPLAY, kind="reshape_oracle")
    fnf = "eko.io.manipulate:flavor_reshape"
    chk.under_contract(fnf, "eko.io.manipulate:to_evol", "eko.io.manipulate:to_uni_evol", "eko.io.manipulate:xgrid_reshape", "eko.io.manipulate:xgrid_compute_rotation",
                       "eko.io.manipulate:rotation", "eko.io.manipulate:xgrid_check")
    chk.trust("np.linalg.inv 2x2 / 3x3 = adjugate formula", "get_interpolation contract (C34): polynomial reproduction -- used as a lemma for the grid statement", "einsum shape-uniformity")
    chk.uncovered("numerical closeness for inputs/outputs that are not representable on the grids")
    app = lambda op, v: np.einsum("ajbk,bk->aj", op, v)
    for p, x in ((2, 2), (3, 1)):
        O, E = symmat("O", p * x).reshape(p, x, p, x), symmat("E", p * x).reshape(p, x, p, x)
        Tm, Im = symmat("T", p), symmat("I", p)
        f = symmat("f", p, x)
        for nm, tp, ip in (("target_only", Tm, None), ("input_only", None, Im), ("both", Tm, Im)):
            tag = f"C42.flavor[p={p},x={x},{nm}]"
            paths = chk.run_paths(tag, lambda: manipulate.flavor_reshape(Operator(O.copy(), E.copy()), None if tp is None else tp.copy(), None if ip is None else ip.copy()), [], fn=fnf, replay=rp)
            for pt, pc, r in paths:
                hyp = list(pc)
                for which, ten, src in (("operator", r.operator, O), ("error", r.error, E)):
                    lhs = app(ten, f if ip is None else ip @ f)
                    rhs = app(src, f) if tp is None else tp @ app(src, f)
                    from pyvc import poly as P
                    eqs = _equalities(hyp)       # variable == constant facts of the path condition (a shortcut for an exact identity matrix)
                    for idx in np.ndindex(lhs.shape):
                        nm_ = f"{pt}.{which}[{','.join(map(str, idx))}]"
                        if eqs and P.prove_zero(T.subst(T.lift(lhs[idx]) - T.lift(rhs[idx]), eqs))[0]:
                            chk.eq(nm_, T.subst(T.lift(lhs[idx]), eqs), T.subst(T.lift(rhs[idx]), eqs), fn=fnf, replay=rp, goal="reshape(O,T,I) (.) (I f) == T (O (.) f) after substituting the equalities of the path condition")
                        elif P.prove_zero(T.lift(lhs[idx]) - T.lift(rhs[idx]))[0]:
                            chk.eq(nm_, lhs[idx], rhs[idx], fn=fnf, replay=rp, goal="reshape(O,T,I) (.) (I f) == T (O (.) f)")
                        else:
                            # not an identity: it must at least follow from the path condition (a 'close to the current basis' shortcut was taken)
                            det = Im[0, 0] * Im[1, 1] - Im[0, 1] * Im[1, 0] if p == 2 else vnp.linalg.det(Im)
                            chk.smt(nm_, hyp + [T.cmp("!=", T.lift(det), T.ZERO)], T.cmp("==", T.lift(lhs[idx]), T.lift(rhs[idx])), fn=fnf, replay=rp,
                                    goal="reshape(O,T,I) (.) (I f) == T (O (.) f) on a path that skips a rotation: must follow from the path condition", timeout_ms=8000)
            chk.configs += 1
        # errors absent
        r = [v for _, _, v in chk.run_paths(f"C42.flavor[p={p},x={x}].no_error", lambda: manipulate.flavor_reshape(Operator(O.copy(), None), Tm.copy(), Im.copy()), [T.cmp("!=", Tm[0, 1], T.ZERO)], fn=fnf, replay=rp)]
        chk.ground(f"C42.flavor[p={p},x={x}].no_error", all(v.error is None for v in r), fn=fnf, goal="no error tensor in, none out", replay=rp)
    try:
        manipulate.flavor_reshape(Operator(symmat("O", 4).reshape(2, 2, 2, 2), None), None, None)
        ok = False
    except ValueError:
        ok = True
    chk.ground("C42.flavor.requires_a_rotation", ok, fn=fnf, goal="ValueError without any rotation")
    # to_evol / to_uni_evol: which table on which side
    calls = []
    saved = manipulate.flavor_reshape
    manipulate.flavor_reshape = lambda elem, targetpids=None, inputpids=None: calls.append((targetpids, inputpids)) or elem
    try:
        for fnm, f_, table in (("to_evol", manipulate.to_evol, br.rotate_flavor_to_evolution), ("to_uni_evol", manipulate.to_uni_evol, br.rotate_flavor_to_unified_evolution)):
            for source in (True, False):
                for target in (True, False):
                    calls.clear()
                    f_("elem", source=source, target=target)
                    tp, ip = calls[0]
                    ok = ((tp is table) if target else tp is None) and ((ip is table) if source else ip is None)
                    chk.ground(f"C42.{fnm}[source={source},target={target}]", ok, fn=f"eko.io.manipulate:{fnm}", goal="the evolution table is applied exactly on the requested sides", replay=rp)
    finally:
        manipulate.flavor_reshape = saved

    # ---- grid reshaping: wiring with symbolic interpolation matrices --------------------------------------------------------------------------
    fng = "eko.io.manipulate:xgrid_reshape"
    p, x = 2, 2
    O, E = symmat("O", p * x).reshape(p, x, p, x), symmat("E", p * x).reshape(p, x, p, x)

    class G:
        def __init__(self, name, pts):
            self.name, self.raw = name, np.array(pts, dtype=object)
        def __len__(self):
            return len(self.raw)
        def __eq__(self, other):          # as XGrid: equal iff the same nodes
            return isinstance(other, G) and len(self) == len(other) and all(T.lift(a).n == T.lift(b).n for a, b in zip(self.raw, other.raw))
        def __hash__(self):
            return hash(tuple(T.lift(a).n for a in self.raw))

    built = []

    class FakeDisp:
        def __init__(self, xgrid, deg, mode_N):
            self.grid, self.deg, self.mode_N = xgrid, deg, mode_N
        def get_interpolation(self, pts):
            M = symmat(f"M{len(built)}_", len(pts), len(self.grid))
            built.append((self.grid, self.deg, self.mode_N, pts, M))
            return M

    old = G("old", [T.var("x0"), T.var("x1")])
    tgt = G("target", [T.var("t0"), T.var("t1"), T.var("t2")])
    inp = G("input", [T.var("i0"), T.var("i1"), T.var("i2")])
    saved = manipulate.interpolation.InterpolatorDispatcher
    manipulate.interpolation.InterpolatorDispatcher = FakeDisp
    try:
        same_t, same_i = G("current grid again (target)", list(old.raw)), G("current grid again (input)", list(old.raw))
        for nm, tg, ig in (("target_only", tgt, None), ("input_only", None, inp), ("both", tgt, inp),
                           ("target_is_current_input_new", same_t, inp), ("target_new_input_is_current", tgt, same_i), ("both_are_current", same_t, same_i),
                           ("both_the_same_new_grid", tgt, tgt), ("both_equal_new_grids", tgt, G("target again (input)", list(tgt.raw)))):
            built.clear()
            tag = f"C42.xgrid[{nm}]"
            try:
                r = manipulate.xgrid_reshape(Operator(O.copy(), E.copy()), old, 3, targetgrid=tg, inputgrid=ig)
            except Exception as e:
                chk.raised(f"{tag}.no_exception", e, fn=fng, replay=rp)
                continue
            want_o, want_e = O, E
            ok_build = True
            for (grid, deg, mode_N, pts, M) in built:
                if grid is old:        # target rotation: dispatcher on the operator grid, evaluated at the target points
                    ok_build = ok_build and tg is not None and pts is tg.raw and deg == 3 and mode_N is False
                    want_o = np.einsum("ij,ajbk->aibk", M, want_o)
                    want_e = np.einsum("ij,ajbk->aibk", M, want_e)
                elif grid is ig:       # input rotation: dispatcher on the input grid, evaluated at the operator grid
                    ok_build = ok_build and pts is old.raw and deg == 3 and mode_N is False
                    want_o = np.einsum("ajbk,kl->ajbl", want_o, M)
                    want_e = np.einsum("ajbk,kl->ajbl", want_e, M)
                else:
                    ok_build = False
            chk.ground(f"{tag}.dispatchers", ok_build and len(built) == (tg is not None and tg is not same_t) + (ig is not None and ig is not same_i), fn=fng, replay=rp,
                       goal="target side: basis on the operator grid evaluated at the target grid; input side: basis on the input grid evaluated at the operator grid; x-space mode, given degree")
            chk.eq_block(f"{tag}.operator", r.operator, want_o, fn=fng, replay=rp, goal="interpolation matrices contracted with the output resp. input grid index")
            chk.eq_block(f"{tag}.error", r.error, want_e, fn=fng, replay=rp, goal="errors through the same contraction")
    finally:
        manipulate.interpolation.InterpolatorDispatcher = saved
    try:
        manipulate.xgrid_reshape(Operator(O, None), old, 3)
        ok = False
    except ValueError:
        ok = True
    chk.ground("C42.xgrid.requires_a_grid", ok, fn=fng, goal="ValueError without any grid")
    # xgrid_check: the skip is only allowed for an identical grid
    new2 = G("new", [T.var("n0"), T.var("n1")])
    for pt, pc, same in chk.run_paths("C42.xgrid_check", lambda: bool(manipulate.xgrid_check(new2, old)), [], fn="eko.io.manipulate:xgrid_check", replay=rp):
        if same:
            chk.smt(f"{pt}.skip_only_if_identical", list(pc), T.band(T.cmp("==", new2.raw[0], old.raw[0]), T.cmp("==", new2.raw[1], old.raw[1])), fn="eko.io.manipulate:xgrid_check", replay=rp,
                    goal="the re-interpolation is skipped only when the new grid equals the current one")
    chk.extra["exhaustive"] = True


def _equalities(pc):
    """{var name: constant} for the conjuncts of the form var == const in a path condition"""
    out = {}
    stack = [b.n for b in pc if isinstance(b, T.Sym)]
    while stack:
        n = stack.pop()
        t = T.node(n)
        if t[0] == "and":
            stack.extend([t[1], t[2]])
        elif t[0] == "==":
            a, b = T.node(t[1]), T.node(t[2])
            if a[0] == "v" and b[0] == "c":
                out[a[1]] = b[1]
            elif b[0] == "v" and a[0] == "c":
                out[b[1]] = a[1]
    return out
