"""C43 -- applying an EKO to a PDF is the operator contraction.

lhapdf_like.xfxQ2(pid, x, Q2) is an uninterpreted function, hasFlavor an enumerated predicate (missing flavours contribute 0); the EKO is
a ghost map ep -> (O, E) with an x-grid of 2 symbolic points (14 flavours fixed by the tables):
   pdfs[ep][pid_a][j] == sum_{b,k} O[a,j,b,k] xf(pid_b, x_k, mu0^2)/x_k ,  errors likewise with E (absent when E is None);
   rotate_to_evolution_basis  =>  result == R (that), labelled with the evolution pids in the row order of R (QCD / unified by order[1] > 0);
   targetgrid                 =>  result == X (that) on the x index, X = get_interpolation(targetgrid) (modular: contract of C34).
"""
from fractions import Fraction as Q

import numpy as np

from pyvc import terms as T
from pyvc import vnp
from pyvc.replay import script
from contracts.common import symmat
from contracts.C31 import PIDS

REPLAY = '''
def replay():
    from ekobox import apply
    from eko import basis_rotation as br, interpolation
    from eko.io.items import Operator
    rng = np.random.default_rng(29)
    out = []
    class C: pass
    xg = interpolation.XGrid([0.05, 0.2, 0.6, 1.0])
    class Ghost(dict):
        pass
    for qed in (False, True):
        eko = Ghost(); eko.xgrid = xg; eko.mu20 = 2.7
        eko.theory_card = C(); eko.theory_card.order = (2, 1 if qed else 0)
        eko.operator_card = C(); eko.operator_card.configs = C(); eko.operator_card.configs.interpolation_polynomial_degree = 2
        eko[(10.0, 4)] = Operator(rng.normal(size=(14, 4, 14, 4)), np.abs(rng.normal(size=(14, 4, 14, 4))))
        eko[(50.0, 5)] = Operator(rng.normal(size=(14, 4, 14, 4)), None)
        missing = {-6, 6, 22}
        class PDF:
            def hasFlavor(self, pid): return pid not in missing
            def xfxQ2(self, pid, x, Q2): return (abs(pid) + 1.3) * x ** 0.4 * (1 - x / 1.1) ** 2 * np.log(1 + Q2)
        pdf = PDF()
        inp = np.array([[0 if p in missing else pdf.xfxQ2(p, x, eko.mu20) / x for x in xg.raw] for p in br.flavor_basis_pids])
        for rot in (False, True):
            for tg in (None, [0.1, 0.3, 0.9]):
                pdfs, errs = apply.apply_pdf(eko, pdf, tg, rot)
                R = np.eye(14) if not rot else (br.rotate_flavor_to_unified_evolution if qed else br.rotate_flavor_to_evolution)
                labels = br.flavor_basis_pids if not rot else (br.unified_evol_basis_pids if qed else br.evol_basis_pids)
                X = np.eye(4) if tg is None else interpolation.InterpolatorDispatcher(xg, 2, mode_N=False).get_interpolation(tg)
                for ep, op in eko.items():
                    want = X @ (R @ np.einsum("ajbk,bk->aj", op.operator, inp)).T
                    got = np.array([pdfs[ep][l] for l in labels]).T
                    if not np.allclose(got, want, rtol=1e-10, atol=1e-12): out.append(f"qed={qed} rot={rot} tg={tg} ep={ep}: applied PDF differs from the contraction")
                    if (op.error is None) != (ep not in errs): out.append(f"ep={ep}: error presence")
    return bool(out), "; ".join(sorted(set(out))[:5]) if out else "native apply_pdf equals the operator contraction"
'''


def run(chk):
    from ekobox import apply
    from eko import basis_rotation as br, interpolation
    from eko.io.items import Operator

    rp = script(REPLAY, kind="apply_oracle")
    fn = "ekobox.apply:apply_pdf"
    chk.under_contract(fn, "ekobox.apply:apply_pdf_flavor", "ekobox.apply:apply_grids", "ekobox.apply:rotate_result")
    chk.trust("InterpolatorDispatcher.get_interpolation contract (C34) -- used modularly: the returned matrix X is symbolic", "EKO as a map (C37)", "np.einsum shape-uniformity (2 grid points)")
    NX = 2

    class C:
        pass

    class XG:
        """ghost of interpolation.XGrid: the nodes and the log flag (also what the code gets when it builds a new XGrid itself)"""
        def __init__(self, pts, log=True):
            self.raw = np.array(pts, dtype=object)
            self.log = log
        def __len__(self):
            return len(self.raw)

    class Ghost(dict):
        pass

    x = [T.var("x0"), T.var("x1")]
    mu20 = T.var("mu20")
    Xmat = symmat("X", 3, NX)        # re-interpolation matrix to 3 target points (contract of get_interpolation)

    class FakeDisp:
        def __init__(self, xgrid=None, polynomial_degree=None, mode_N=None):
            FakeDisp.args = (xgrid, polynomial_degree, mode_N)
        def get_interpolation(self, tg):
            FakeDisp.tg = tg
            return Xmat

    for qed in (False, True):
        for missing in (set(), {22, 6, -6}, {22, 5, -5, 6, -6, 4}):
            eko = Ghost()
            eko.xgrid, eko.mu20 = XG(x, log=not qed), mu20          # a logarithmic grid in the QCD scenarios, a linear one in the QED scenarios
            eko.theory_card = C()
            eko.theory_card.order = (2, 1 if qed else 0)
            eko.operator_card = C()
            eko.operator_card.configs = C()
            eko.operator_card.configs.interpolation_polynomial_degree = 3
            O1, E1, O2 = (symmat(n, 14 * NX).reshape(14, NX, 14, NX) for n in ("O", "E", "P"))
            eko[(T.var("q1"), 4)] = Operator(O1, E1)
            eko[(T.var("q2"), 5)] = Operator(O2, None)

            class PDF:
                def hasFlavor(self, pid):
                    return pid not in missing
                def xfxQ2(self, pid, xx, Q2):
                    return T.app("xf", pid, xx, Q2)

            inp = vnp.zeros((14, NX))
            for a, pid in enumerate(PIDS):
                if pid in missing:
                    continue
                for k in range(NX):
                    inp[a, k] = T.app("xf", pid, x[k], mu20) / x[k]
            for rot in (False, True):
                for tg in (None, "target"):
                    tag = f"C43[qed={qed},missing={len(missing)},rotate={rot},target={tg is not None}]"
                    saved = apply.interpolation.InterpolatorDispatcher
                    saved_xg = apply.interpolation.XGrid
                    apply.interpolation.InterpolatorDispatcher = FakeDisp
                    apply.interpolation.XGrid = XG
                    try:
                        pdfs, errs = apply.apply_pdf(eko, PDF(), None if tg is None else [Q(1, 10), Q(1, 2), Q(9, 10)], rot)
                    except Exception as e:
                        chk.raised(f"{tag}.no_exception", e, fn=fn, replay=rp)
                        continue
                    finally:
                        apply.interpolation.InterpolatorDispatcher = saved
                        apply.interpolation.XGrid = saved_xg
                    R = vnp.eye(14) if not rot else vnp.array(br.rotate_flavor_to_unified_evolution if qed else br.rotate_flavor_to_evolution)
                    labels = br.flavor_basis_pids if not rot else (br.unified_evol_basis_pids if qed else br.evol_basis_pids)
                    for ep, op in eko.items():
                        base = np.einsum("ajbk,bk->aj", op.operator, inp)
                        want = R @ base
                        if tg is not None:
                            want = want @ Xmat.T
                        chk.ground(f"{tag}[{ep[0]}].labels", list(pdfs[ep].keys()) == list(labels), fn=fn, goal="labels = flavour pids, or the evolution pids in the row order of the rotation", replay=rp)
                        got = np.array([pdfs[ep][l] for l in labels], dtype=object)
                        chk.eq_block(f"{tag}[{ep[0]}].value", got, want, fn=fn, replay=rp, goal="pdfs[ep][pid_a][j] == sum O[a,j,b,k] xf(pid_b,x_k,mu0^2)/x_k (rotated / re-interpolated as requested)")
                        if op.error is None:
                            chk.ground(f"{tag}[{ep[0]}].no_error", ep not in errs, fn=fn, goal="no error entry when the operator has none", replay=rp)
                        else:
                            wante = R @ np.einsum("ajbk,bk->aj", op.error, inp)
                            if tg is not None:
                                wante = wante @ Xmat.T
                            if ep not in errs:
                                chk.fail(f"{tag}[{ep[0]}].error", "error missing", fn=fn, replay=rp)
                            else:
                                chk.eq_block(f"{tag}[{ep[0]}].error", np.array([errs[ep][l] for l in labels], dtype=object), wante, fn=fn, replay=rp, goal="errors: the same contraction with E")
                    if tg is not None:
                        g_ = FakeDisp.args[0]
                        same_grid = g_ is eko.xgrid or (hasattr(g_, "raw") and hasattr(g_, "log") and len(g_.raw) == NX and all(T.lift(a).n == T.lift(b).n for a, b in zip(g_.raw, x)) and bool(g_.log) == bool(eko.xgrid.log))
                        chk.ground(f"{tag}.interpolator_built_on_eko_grid", bool(same_grid) and FakeDisp.args[1] == 3 and FakeDisp.args[2] is False, fn=fn, replay=rp,
                                   goal="re-interpolation uses the EKO's grid (its nodes AND its logarithmic / linear flag) and polynomial degree in x-space mode",
                                   detail=f"grid handed to the dispatcher: nodes {getattr(g_, 'raw', g_)}, log = {getattr(g_, 'log', '?')}; the EKO's grid has log = {eko.xgrid.log}")
                    chk.configs += 1
    # apply_grids rejects wrong shapes
    try:
        apply.apply_grids(eko, vnp.zeros((1, 13, NX)))
        ok = False
    except ValueError:
        ok = True
    chk.ground("C43.apply_grids.rejects_wrong_shape", ok, fn="ekobox.apply:apply_grids", goal="ValueError for input grids of the wrong shape")
    chk.extra["exhaustive"] = True
