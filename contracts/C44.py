"""C44 -- products of EKOs compose in evolution order.

For every target q of eko_fin that is not already in eko_ini, with `ini` the operator of eko_ini at the matched point (mu1) and `fin` the
operator of eko_fin at q (both fully symbolic (2,2,2,2) tensors, hence non-commuting):
    result[q].operator == dot4(fin, ini)                       ("apply the first EKO, then the second": later step to the left)
    result[q].error    == dot4(|fin|, |ini_err|) + dot4(|fin_err|, |ini|)   when both errors exist, else None
the same content for path=None (in place) and for a new archive; ValueError when no stored point matches the initial point of eko_fin.
EKO objects are replaced by ghost maps (C37 contract); EKO.approx by its contract (the unique stored point within tolerance).
"""
from fractions import Fraction as Q

import numpy as np

from pyvc import terms as T
from pyvc import vnp
from pyvc.replay import script
from contracts.common import symmat

REPLAY = '''
def replay():
    """native: synthetic EKOs on disk, random non-commuting operators; product applied to a random input must equal first-then-second"""
    import pathlib, tempfile
    from eko import EKO
    from eko.io.items import Operator
    from ekobox import cards, utils
    from eko import interpolation
    rng = np.random.default_rng(33)
    out = []
    with tempfile.TemporaryDirectory() as d:
        d = pathlib.Path(d)
        th = cards.example.theory(); th.order = (1, 0)
        def mk(path, init, grid):
            op = cards.example.operator(); op.init = init; op.mugrid = grid; op.xgrid = interpolation.XGrid([0.1, 0.5, 1.0])
            with EKO.create(path) as b:
                e = b.load_cards(th, op).build()
                for mu, nf in grid:
                    e[(mu**2, nf)] = Operator(rng.normal(size=(14, 3, 14, 3)), np.abs(rng.normal(size=(14, 3, 14, 3))))
        mk(d / "ini.tar", (2.0, 4), [(10.0, 5)])
        mk(d / "fin.tar", (10.0, 5), [(20.0, 5), (30.0, 5)])
        with EKO.edit(d / "ini.tar") as ini, EKO.read(d / "fin.tar") as fin:
            first = ini[(100.0, 5)]
            A, EA = first.operator.copy(), first.error.copy()
            utils.ekos_product(ini, fin, path=d / "res.tar")
            with EKO.read(d / "res.tar") as res:
                f = rng.normal(size=(14, 3))
                for q in [(400.0, 5), (900.0, 5)]:
                    B, EB = fin[q].operator, fin[q].error
                    want = np.einsum("ajbk,bk->aj", B, np.einsum("ajbk,bk->aj", A, f))
                    got = np.einsum("ajbk,bk->aj", res[q].operator, f)
                    if not np.allclose(got, want, rtol=1e-10): out.append(f"target {q}: product applied to f differs from second(first(f)) by {np.abs(got-want).max():.2e}")
                    werr = np.einsum("ajbk,bkcl->ajcl", np.abs(B), np.abs(EA)) + np.einsum("ajbk,bkcl->ajcl", np.abs(EB), np.abs(A))
                    if not np.allclose(res[q].error, werr, rtol=1e-10): out.append(f"target {q}: error is not |later|.|earlier error| + |later error|.|earlier|")
    return bool(out), "; ".join(out) if out else "native ekos_product composes in evolution order with the solver's error rule"
'''


RTOL_GIVEN, ATOL_GIVEN = 3e-5, 7e-9      # distinct from the defaults and from each other


def run(chk):
    from ekobox import utils
    from eko.io.items import Operator
    from eko.runner.operators import _dot4

    rp = script(REPLAY, kind="eko_product_oracle")
    fn = "ekobox.utils:ekos_product"
    chk.under_contract(fn)
    chk.trust("EKO as a map (C37): __getitem__/__setitem__/__contains__/items; EKO.approx contract (C37): the unique stored point within tolerance or None",
              "_dot4 is the tensor contraction (C02)", "np.einsum shape-uniformity")
    sh = (2, 2, 2, 2)

    class Card:
        pass

    class Ghost(dict):
        """ghost EKO: evolution point -> Operator"""
        def __init__(self, init, match):
            super().__init__()
            self.operator_card = Card()
            self.operator_card.init = init
            self._match = match
            self.closed = False
            self.copied_to = None
        def approx(self, ep, rtol=1e-6, atol=1e-10):          # the signature of EKO.approx (positional order included)
            self.approx_arg = ep
            self.approx_tol = (rtol, atol)
            return self._match
        def deepcopy(self, path):
            self.copied_to = path
            Ghost.copies[path] = Ghost(self.operator_card.init, self._match)
            Ghost.copies[path].update(self)
        def close(self):
            self.closed = True
        # the read-only views of the real EKO a caller may legitimately use
        @property
        def evolgrid(self):
            return list(self)
        @property
        def mu2grid(self):
            return [ep[0] for ep in self]

    Ghost.copies = {}
    mu1 = T.var("mu1")
    for with_err_ini in (True, False):
        for with_err_fin in (True, False):
            for path in (None, "new.tar"):
                tag = f"C44[err_ini={with_err_ini},err_fin={with_err_fin},path={'new' if path else 'inplace'}]"
                A, EA = symmat("A", 4).reshape(sh), symmat("EA", 4).reshape(sh)
                ini = Ghost((T.var("mu0"), 4), (mu1 * mu1, 5))
                ini[(mu1 * mu1, 5)] = Operator(A.copy(), EA.copy() if with_err_ini else None)
                fin = Ghost((mu1, 5), None)
                targets = {}
                KEY_MATCH = (mu1 * mu1, 5)
                # the last target has the scale of the matched point but another number of flavours (a threshold): it is a different evolution point
                for i, q in enumerate(((T.var("q1"), 5), (T.var("q2"), 5), KEY_MATCH, (mu1 * mu1, 6))):
                    B, EB = symmat(f"B{i}_", 4).reshape(sh), symmat(f"EB{i}_", 4).reshape(sh)
                    fin[q] = Operator(B, EB if with_err_fin else None)
                    targets[q] = (B, EB)
                saved = utils.EKO
                utils.EKO = type("E", (), {"edit": staticmethod(lambda p: Ghost.copies[p])})
                try:
                    utils.ekos_product(ini, fin, rtol=RTOL_GIVEN, atol=ATOL_GIVEN, path=path)
                except Exception as e:
                    chk.raised(f"{tag}.no_exception", e, fn=fn, replay=rp)
                    continue
                finally:
                    utils.EKO = saved
                res = ini if path is None else Ghost.copies[path]
                chk.ground(f"{tag}.tolerances_forwarded", getattr(ini, "approx_tol", None) == (RTOL_GIVEN, ATOL_GIVEN), fn=fn, replay=rp, detail=f"approx received (rtol, atol) = {getattr(ini, 'approx_tol', None)}",
                           goal="the junction is looked up with the relative and the absolute tolerance the caller gave, each in its own role")
                chk.eq(f"{tag}.matched_on_init_of_second", ini.approx_arg[0], mu1 * mu1, fn=fn, goal="the stored point is looked up at (mu1^2, nf1) = the initial point of the second EKO", replay=rp)
                chk.ground(f"{tag}.matched_nf", ini.approx_arg[1] == 5, fn=fn, goal="... with the initial nf of the second EKO", replay=rp)
                for q, (B, EB) in targets.items():
                    if q is KEY_MATCH:
                        chk.ground(f"{tag}.existing_point_untouched", res[q].operator is not None and all(T.lift(x).n == T.lift(y).n for x, y in zip(res[q].operator.reshape(-1), A.reshape(-1))), fn=fn,
                                   goal="a target already present in the first EKO is not overwritten", replay=rp)
                        continue
                    if q not in res:
                        chk.fail(f"{tag}.target[{q[0]},nf={q[1]}].present", "target missing from the result", fn=fn, replay=rp)
                        continue
                    chk.eq_block(f"{tag}.target[{q[0]},nf={q[1]}].operator", res[q].operator, _dot4(B, A), fn=fn, replay=rp,
                                 goal="result == dot4(op_fin[q], op_ini[match])  (first EKO applied first, later step to the left)")
                    if with_err_ini and with_err_fin:
                        if res[q].error is None:
                            chk.fail(f"{tag}.target[{q[0]},nf={q[1]}].error", "error is None although both errors exist", fn=fn, replay=rp)
                        else:
                            chk.eq_block(f"{tag}.target[{q[0]},nf={q[1]}].error", res[q].error, _dot4(vnp.abs(B), vnp.abs(EA)) + _dot4(vnp.abs(EB), vnp.abs(A)), fn=fn, replay=rp,
                                         goal="error == |later| . |earlier error| + |later error| . |earlier|  (the solver's joining rule)")
                    else:
                        chk.ground(f"{tag}.target[{q[0]},nf={q[1]}].error_none", res[q].error is None, fn=fn, goal="error is None unless both errors exist", replay=rp)
                if path is not None:
                    chk.ground(f"{tag}.first_eko_unchanged", len(ini.keys()) == 1 and ini.copied_to == path and res.closed, fn=fn,
                               goal="with a path the first EKO is left as it was, the copy receives the products and is closed", replay=rp)
                chk.configs += 1
    # no match -> ValueError
    ini = Ghost((T.var("mu0"), 4), None)
    fin = Ghost((mu1, 5), None)
    try:
        utils.ekos_product(ini, fin)
        ok = False
    except ValueError:
        ok = True
    chk.ground("C44.no_match_raises", ok, fn=fn, goal="ValueError when no stored point matches the initial point of the second EKO", replay=rp)
    chk.extra["exhaustive"] = True
