"""C45 -- LHAPDF export of evolved PDFs is self-consistent.  BOUNDED stand-in (never counted as proved).

The export path is file writing, YAML and string formatting around a full (tiny) solve -- outside the symbolic engine.  The property is checked by `deal` run-time
contracts on the REAL helper (ekobox.evol_pdf.evolve_pdfs), writers and readers (bounded/C45_native.py) over one tiny LO card pair with three evolution points in two
flavour patches, a toy PDF with the lhapdf-like interface, and a stub for lhapdf.paths():
   written(variant)  data blocks == x * apply_pdf(eko, member, target grid) at every written (x, Q) node to the printed precision; block grids and flavours as documented;
                     info XMin / XMax / QMin / QMax bound exactly the written grids, Flavors and NumMembers match the data; variants: no target grid (2 members),
                     target grid given as list, as XGrid
   reread(variant)   load_blocks_from_file returns the dumped blocks to the printed precision
   alphas(config)    AlphaS_Qs are the evolution scales (sorted per flavour number) and AlphaS_Vals == 4 pi a_s(Q^2, nf) of the couplings object the runner builds for the same
                     cards; configs: pole masses, MSbar masses given away from m(m), exponentiated scale variation with xif = 2
Four defects found and repaired by three fix commits: an explicit target grid could not be used at all (list: AttributeError, XGrid: TypeError) and XMin / XMax would
have described the operator grid; QMin / QMax were the first / last evolution point of an unsorted card; alpha_s of the info file was computed with thresholds at the
mass values (wrong for MSbar masses and for the exponentiated scale variation).
"""
LEVEL = "exploration"


def run(chk):
    from pyvc import bounded

    chk.under_contract("ekobox.evol_pdf:evolve_pdfs", "ekobox.evol_pdf:collect_blocks", "ekobox.info_file:build", "ekobox.info_file:build_alphas", "ekobox.genpdf.export:dump_set",
                       "ekobox.genpdf.export:dump_blocks", "ekobox.genpdf.export:dump_info", "ekobox.genpdf.load:load_blocks_from_file", "ekobox.genpdf:generate_block", "ekobox.utils:regroup_evolgrid")
    chk.trust("BOUNDED: run-time contracts over a finite input set -- no statement about inputs outside it",
              "apply_pdf is the operator contraction (C43)", "a stub module stands in for lhapdf (paths() only); the toy PDF implements xfxQ2 / hasFlavor")
    chk.uncovered("installation into the LHAPDF data directory", "card pairs other than the tiny one", "the rounding of QMin / QMax to four decimals")
    chk.bounded_parts.append("everything: deal run-time contracts over the input set stated in bounded/C45_native.py")
    n = bounded.run_native(chk, "C45_native.py", backend="deal-runtime(bounded)")
    chk.extra["rule"] = "one deal post-condition evaluation per (contract, variant); each `written` evaluation compares every written number of the set (5 x 3 x 14 values per member)"
    chk.extra["evaluations"] = n
    chk.extra["distinct_nontrivial"] = n
    chk.configs += n
