"""C46 -- PDF flavour projection is an exact orthogonal projection.

project(blocks, reprs) with symbolic block data d (flavour x points) and rows e_i of reprs:
   new == sum_i e_i (e_i . d) / (e_i . e_i)                                       (definition, every repr set)
 and for pairwise orthogonal reprs: idempotent; e_j . new == e_j . d; u . new == 0 for every u orthogonal to all e_i; complete orthogonal
 sets (all 14 PID rows, all 14 evolution rows) give new == d.  PID subsets and evolution-label subsets: enumerated subset structures
 over the concrete tables; custom combinations: 2-3 symbolic vectors made orthogonal by parametrisation (Gram-Schmidt form),
 dimension-bounded.  Blocks with missing pids contribute zeros; the input blocks are not modified.
"""
from fractions import Fraction as Q
import itertools

import numpy as np

from pyvc import terms as T
from pyvc import vnp
from pyvc.replay import script
from contracts.common import symmat

REPLAY = '''
def replay():
    from ekobox.genpdf import flavors
    from eko import basis_rotation as br
    rng = np.random.default_rng(41)
    out = []
    pids = list(br.flavor_basis_pids)
    for trial in range(20):
        present = sorted(rng.choice(pids, size=rng.integers(3, 15), replace=False).tolist())
        data = rng.normal(size=(5, len(present)))
        blocks = [dict(Q2grid=np.array([1.0]), xgrid=np.linspace(0.1, 1, 5), pids=np.array(present), data=data.copy())]
        kind = trial % 3
        if kind == 0:
            reprs = flavors.pid_to_flavor(sorted(rng.choice(pids, size=rng.integers(1, 14), replace=False).tolist()))
        elif kind == 1:
            reprs = flavors.evol_to_flavor(list(rng.choice(br.evol_basis, size=rng.integers(1, 14), replace=False)))
        else:
            q, _ = np.linalg.qr(rng.normal(size=(14, 3))); reprs = q.T * np.array([[2.0], [0.5], [3.0]])
        full = np.zeros((14, 5))
        for p, col in zip(present, data.T): full[pids.index(p)] = col
        new = flavors.project(blocks, reprs)[0]["data"].T
        if not np.allclose(blocks[0]["data"], data): out.append("input blocks modified")
        want = sum(np.outer(e, e) @ full / (e @ e) for e in reprs)
        if not np.allclose(new, want, atol=1e-12): out.append(f"trial {trial}: projection differs from sum e e^T d/(e.e)")
        again = flavors.project([dict(pids=np.array(pids), data=new.T.copy())], reprs)[0]["data"].T
        if not np.allclose(again, new, atol=1e-12): out.append(f"trial {trial}: not idempotent")
    for reprs in (flavors.pid_to_flavor(pids), flavors.evol_to_flavor(list(br.evol_basis))):
        data = rng.normal(size=(5, 14))
        new = flavors.project([dict(pids=np.array(pids), data=data.copy())], reprs)[0]["data"]
        if not np.allclose(new, data, atol=1e-12): out.append("complete orthogonal set does not reproduce the data")
    return bool(out), "; ".join(sorted(set(out))[:5]) if out else "native projection is the orthogonal projection"
'''

NPT = 2


def run(chk):
    from ekobox.genpdf import flavors
    from eko import basis_rotation as br

    rp = script(REPLAY, kind="projection_oracle")
    fn = "ekobox.genpdf.flavors:project"
    chk.under_contract(fn, "ekobox.genpdf.flavors:pid_to_flavor", "ekobox.genpdf.flavors:evol_to_flavor", "ekobox.genpdf.flavors:is_evolution_labels", "ekobox.genpdf.flavors:is_pid_labels")
    chk.trust("orthogonality of the rotation table rows (C31, ground)", "copy.deepcopy copies the block data (executed by CPython)")
    chk.bounded_parts.append("custom combinations: 2-3 symbolic vectors in dimension 14 with 4 non-zero components (dimension-bounded, values unbounded); point count 2")
    pids = list(br.flavor_basis_pids)

    def block(present):
        data = symmat("d", NPT, len(present))
        return dict(pids=np.array(present), data=data), data

    def full_of(present, data):
        full = vnp.zeros((14, NPT))
        for p, col in zip(present, data.T):
            full[pids.index(p)] = col
        return full

    def run_proj(tag, present, reprs, orthogonal, complete=False):
        blk, data = block(present)
        before = data.copy()
        try:
            res = flavors.project([blk], reprs)
        except Exception as e:
            chk.raised(f"{tag}.no_exception", e, fn=fn, replay=rp)
            return
        new = res[0]["data"].T
        full = full_of(present, before)
        chk.ground(f"{tag}.input_unmodified", all(T.lift(a).n == T.lift(b).n for a, b in zip(blk["data"].reshape(-1), before.reshape(-1))) and res[0] is not blk, fn=fn, goal="input blocks are not modified", replay=rp)
        chk.ground(f"{tag}.pids_full", list(res[0]["pids"]) == pids, fn=fn, goal="result is labelled with the full flavour basis", replay=rp)
        want = vnp.zeros((14, NPT))
        for e in reprs:
            ee = sum((x * x for x in e), Q(0))
            want = want + np.outer(e, e @ full) / ee
        chk.eq_block(f"{tag}.definition", new, want, fn=fn, goal="new == sum_i e_i (e_i . d)/(e_i . e_i)", replay=rp)
        if orthogonal:
            for j, e in enumerate(reprs):
                chk.eq_block(f"{tag}.keeps_component[{j}]", e @ new, e @ full, fn=fn, goal="e_j . new == e_j . d (components along the selection are kept)", replay=rp)
            again = flavors.project([dict(pids=np.array(pids), data=new.T.copy())], reprs)[0]["data"].T
            chk.eq_block(f"{tag}.idempotent", again, new, fn=fn, goal="project(project(d)) == project(d)", replay=rp)
        if complete:
            chk.eq_block(f"{tag}.complete_set_is_identity", new, full, fn=fn, goal="complete orthogonal set: new == d", replay=rp)

    # PID subsets: all pids, single pids, a few subsets, with complete and incomplete present sets
    all_rows = flavors.pid_to_flavor(pids)
    run_proj("C46.pid[all]", pids, all_rows, True, complete=True)
    for sub in ([21], [22, 21, 1, -1], [2, -2, 4], list(range(1, 7))):
        for present in (pids, [21, 1, -1, 2, -2, 3]):
            run_proj(f"C46.pid{sub}[present={len(present)}]", present, flavors.pid_to_flavor(sub), True)
    # evolution labels
    ev_all = flavors.evol_to_flavor(list(br.evol_basis))
    run_proj("C46.evol[all]", pids, ev_all, True, complete=True)
    for sub in (["S"], ["g", "V"], ["S", "g", "V", "T3", "T8"], ["V3", "T15", "T35"], ["ph", "S", "V35"]):
        for present in (pids, [21, 1, -1, 2, -2, 3, -3]):
            run_proj(f"C46.evol{sub}[present={len(present)}]", present, flavors.evol_to_flavor(sub), True)
    # several blocks in one call: every block is projected on its own data only (same shapes, fewer flavours in the later blocks, an empty block in between)
    for lab_sel, reprs_m in (("pid[21, 1, -1, 4]", flavors.pid_to_flavor([21, 1, -1, 4])), ("evol[S, g, V, T15]", flavors.evol_to_flavor(["S", "g", "V", "T15"])), ("pid[all]", all_rows)):
        presents = (pids, [21, 1, -1, 2, -2, 3], [21, 4, -4], [2, -2])
        blks, datas = [], []
        for k, present in enumerate(presents):
            data = symmat(f"m{k}_", NPT, len(present))
            blks.append(dict(pids=np.array(present), data=data))
            datas.append(data.copy())
        blks.insert(2, dict(pids=np.array([21]), data=np.zeros((0, 1), dtype=object)))
        tagm = f"C46.several_blocks.{lab_sel}"
        try:
            res = flavors.project(blks, reprs_m)
        except Exception as e:
            chk.raised(f"{tagm}.no_exception", e, fn=fn, replay=rp)
            continue
        outs = [r for i, r in enumerate(res) if i != 2]
        for k, (present, before, out) in enumerate(zip(presents, datas, outs)):
            full = full_of(present, before)
            want = vnp.zeros((14, NPT))
            for e in reprs_m:
                ee = sum((x * x for x in e), Q(0))
                want = want + np.outer(e, e @ full) / ee
            chk.eq_block(f"{tagm}.block{k}.projection_of_its_own_data", out["data"].T, want, fn=fn, replay=rp, goal="block k of project([b0, b1, ...]) == projection of b_k alone")
        chk.ground(f"{tagm}.empty_block_kept", len(res) == len(blks) and len(res[2]["data"]) == 0, fn=fn, replay=rp, goal="an empty block stays in place and empty")
    # everything orthogonal to the selection is removed: complement evolution rows
    sel = ["S", "g", "T3", "V8"]
    blk, data = block(pids)
    new = flavors.project([blk], flavors.evol_to_flavor(sel))[0]["data"].T
    for lab in br.evol_basis:
        if lab in sel:
            continue
        u = br.rotate_flavor_to_evolution[br.evol_basis.index(lab)]
        chk.eq_block(f"C46.evol.removes_orthogonal[{lab}]", u @ new, vnp.zeros(NPT), fn=fn, goal="u . new == 0 for u orthogonal to the selection", replay=rp)
    # custom orthogonal combinations (Gram-Schmidt parametrisation on 4 components)
    idx = [pids.index(p) for p in (21, 1, 2, -1)]
    a = [T.var(f"a{i}") for i in range(4)]
    b = [T.var(f"b{i}") for i in range(4)]
    cvec = [T.var(f"c{i}") for i in range(4)]

    def emb(v):
        out = vnp.zeros(14)
        for i, x in zip(idx, v):
            out[i] = x
        return out

    def dotv(x, y):
        return sum((p * q for p, q in zip(x, y)), Q(0))

    e1 = a
    e2 = [bi - dotv(b, e1) / dotv(e1, e1) * ei for bi, ei in zip(b, e1)]
    e3 = [ci - dotv(cvec, e1) / dotv(e1, e1) * x - dotv(cvec, e2) / dotv(e2, e2) * y for ci, x, y in zip(cvec, e1, e2)]
    run_proj("C46.custom[2 orthogonal]", pids, np.array([emb(e1), emb(e2)], dtype=object), True)
    if chk.tier == "thorough":
        run_proj("C46.custom[3 orthogonal]", pids, np.array([emb(e1), emb(e2), emb(e3)], dtype=object), True)
    run_proj("C46.custom[2 generic, definition only]", pids, np.array([emb(a), emb(b)], dtype=object), False)
    # label classifiers
    chk.ground("C46.is_evolution_labels", flavors.is_evolution_labels(["S", "V3"]) and not flavors.is_evolution_labels(["S", 21]) and not flavors.is_evolution_labels(["X"]), fn="ekobox.genpdf.flavors:is_evolution_labels", goal="label classification")
    chk.ground("C46.is_pid_labels", flavors.is_pid_labels([21, -1]) and not flavors.is_pid_labels(["S"]) and not flavors.is_pid_labels([7]), fn="ekobox.genpdf.flavors:is_pid_labels", goal="pid classification")
