"""C47 -- solving is reproducible.  BOUNDED stand-in (never counted as proved).

The statement is about whole processes (hash seeds) and the bytes of an archive: outside the symbolic engine, which treats floats as reals.  It is checked by `deal`
run-time contracts around the REAL solver run in fresh Python processes (bounded/C47_native.py):
   reproducible(card)  eko.solve in processes with PYTHONHASHSEED = 1, 2 and `random` writes archives with the same member names and bitwise identical members
                       (operators after decompression, recipes, cards, metadata)
   names()             the file name of an inventory item depends on the field values of its header only: the header classes (Evolution, Matching, Target) have numeric /
                       boolean fields only -- the built-in hash of numbers is not randomised -- and inventory.encode gives the same names in processes with different seeds
Input set: a tiny NLO QCD card pair with a threshold crossing and three targets (both tiers), a tiny LO card computed by two worker processes under two emulated
schedules (workers finishing in opposite orders; both tiers), a tiny LO QED (1,1) card pair (thorough tier); three processes each.
Not covered: more than two workers / other schedules, other platforms or library versions.
"""
LEVEL = "exploration"


def run(chk):
    from pyvc import bounded

    chk.under_contract("eko.runner.managed:solve", "eko.io.inventory:encode", "eko.io.inventory:header_name", "eko.io.inventory:operator_name", "eko.io.items:Evolution", "eko.io.items:Matching", "eko.io.items:Target")
    chk.trust("BOUNDED: run-time contracts over a finite input set -- no statement about inputs outside it", "CPython: hash() of int / float / bool does not depend on PYTHONHASHSEED")
    chk.uncovered("more than two worker processes, schedules other than the two emulated ones", "other platforms, BLAS / NumPy / numba versions", "card pairs other than the tiny ones")
    chk.bounded_parts.append("everything: deal run-time contracts over the input set stated in bounded/C47_native.py")
    n = bounded.run_native(chk, "C47_native.py", backend="deal-runtime(bounded)", timeout=3000, env_extra={"VERIF_TIER": chk.tier})
    chk.extra["rule"] = "one deal post-condition evaluation per card pair: three full solves in fresh processes, all archive members compared by SHA-256 of the decompressed bytes"
    chk.extra["evaluations"] = n
    chk.extra["distinct_nontrivial"] = n
    chk.configs += n
