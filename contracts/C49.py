"""C49 -- the command-line interface produces valid runcards and the library's EKO.  BOUNDED stand-in (never counted as proved).

click's option parsing, the process working directory and files on disk are outside the symbolic engine; the property is checked by `deal` run-time contracts on
the REAL click commands, driven through click.testing.CliRunner in fresh scratch directories (bounded/C49_native.py), over the input set stated there:
   example(dest)    `eko runcards example [-d dest]` succeeds for no destination, a new relative / nested / absolute destination and an existing one, writes both
                    cards there, and the files load back into cards with the same field values as the cards the command built
   handed(argv)     `eko run PATHS` (1, 2, 3 paths; new- and legacy-format cards) calls eko.solve exactly once with the cards the library loads from those files and
                    with the documented output path; 0 or more than 3 paths are usage errors without a solve.  With C36/C40 (cards round-trip) this reduces
                    "same operators as the library" to: the library is called with the same arguments
   same_eko()       end to end on one tiny LO card pair: same targets, bitwise the same operators as eko.solve on the same cards
One defect found and repaired by a fix commit: every destination that did not exist yet -- including the default ./runcards -- was refused by the option parser
(click.Path(exists=True)) although the command creates the directory itself.
"""
LEVEL = "exploration"


def run(chk):
    from pyvc import bounded

    chk.under_contract("ekobox.cli.runcards:sub_example", "ekobox.cli.library:destination", "ekobox.cli.run:subcommand", "ekobox.cards:dump", "ekobox.cards:load", "ekobox.cards:example")
    chk.trust("BOUNDED: run-time contracts over a finite input set -- no statement about inputs outside it",
              "click.testing.CliRunner invokes the command as the console entry point would (same option parsing)",
              "eko.solve is a function of (theory card, operator card, path): equal arguments give equal archives (C47 is not claimed)")
    chk.uncovered("card pairs other than the example ones (their round trip is C40)", "the console-script entry point itself (setuptools wiring)", "log output")
    chk.bounded_parts.append("everything: deal run-time contracts over the input set stated in bounded/C49_native.py")
    n = bounded.run_native(chk, "C49_native.py", backend="deal-runtime(bounded)")
    chk.extra["rule"] = "one deal post-condition evaluation per (contract, invocation); the invocations differ in destination kind, number of path arguments and card format"
    chk.extra["evaluations"] = n
    chk.extra["distinct_nontrivial"] = n
    chk.configs += n
