"""C51 -- scale-varied EKOs agree with the central EKO to the working order.

Conventions fixed by the code (Operator.mu2, Operator.quad_ker): L = ln(xi^2), the varied schemes evaluate couplings at xi^2 mu^2.
Write  flow_L(a)  for the coupling moved by L along  da/dt = beta_n(a) - u a^(n+2)  (u arbitrary: any higher-order completion).

 (1) xi = 1 (L = 0), every order / nf / QED order: gamma_variation(_qed)(gamma, L=0) == gamma, every expanded factor K(.., L=0) == 1,
     Operator.mu2 == (q2_from, q2_to), the kernel argument Lsv == 0 and quad_ker_qcd(scheme, L=0) is the unvaried kernel  [exact reproduction].
 (2) exponentiated: sum_k gamma'_k a'^(k+1) == sum_k gamma_k flow_{-L}(a')^(k+1)  mod a'^(n+1)     (orders 1-4, generic beta, scalar and 2x2 rows)
 (3) expanded: K solves the flow equation of the backward evolution over L to the order it is built,
         d_L K + beta(a') d_a' K == K gamma(a')   on the coefficients a'^1 .. a'^(n-1),   K(L=0) = 1
     (non-singlet scalars, generic 2x2 and 4x4 matrices; QED: the pure-a_s block and, for running a_em, the a_em^1 coefficient).
 (4) non-singlet kernels end to end through the real quad_ker_qcd and ns.dispatcher, every method, orders 1-4, generic beta:
         series_lambda[(K_scheme - K_central) / K_central] == O(lambda^n)      a_i = lambda alpha_i, shifted couplings = flow_L(a_i)
 (5) QED: Operator.compute_aem_list must evaluate the coupling lists on the scales Operator.mu2 (shifted as in the QCD branch).
Lemma (trusted): uniqueness of the solution of the evolution equation to the working order; with (2)/(3), C53's wiring, C08 (methods agree
with the exact solution to the working order) and C15/C16 (couplings solve the RGE) the singlet statement follows.
"""
from fractions import Fraction as Q

import numpy as np

from pyvc import terms as T
from pyvc import vnp
from pyvc.series import Series
from pyvc.replay import script
from contracts.common import symmat

REPLAY = '''
def replay():
    """native scaling test on kernel level: real Couplings, real Operator.compute_a / compute_aem_list, real quad_ker_* and anomalous dimensions"""
    import importlib
    from eko.couplings import Couplings
    from eko.quantities.couplings import CouplingsInfo, CouplingEvolutionMethod
    from eko.quantities.heavy_quarks import QuarkMassScheme
    from eko.evolution_operator import Operator
    from eko.io.types import ScaleVariationsMethod as SVM
    from eko import scale_variations as sv
    from eko.kernels import EvoMethods
    qk = importlib.import_module("eko.evolution_operator.quad_ker")
    class KB:
        def __init__(self, **kw):
            self.is_singlet = self.is_QEDsinglet = self.is_QEDvalence = False
            self.n = 2.7 + 0.3j
            self.__dict__.update(kw)
    def kernel(order, modsv, xif2, alphas, running=True):
        ci = CouplingsInfo.from_dict(dict(alphas=alphas, alphaem=0.007496, ref=(91.2, 5), em_running=running))
        ratios = np.array([1.0, 1.0, 1.0]) * (xif2 if modsv is SVM.EXPONENTIATED else 1.0)
        c = Couplings(ci, order, CouplingEvolutionMethod.EXACT, [2.0, 4.5**2, 173.0**2], QuarkMassScheme.POLE, ratios)
        op = object.__new__(Operator)
        op.config = dict(order=order, ModSV=modsv, xif2=xif2, ev_op_iterations=4)
        man = type("M", (), {})(); man.couplings = c
        op.managers, op.nf, op.q2_from, op.q2_to, op.is_threshold, op.order = man, 5, 30.0**2, 80.0**2, False, order
        op.alphaem_running = running
        op.a = op.compute_a()
        as_list, a_half = op.compute_aem_list()
        mode, L = sv.sv_mode(modsv), np.log(xif2)
        if order[1] == 0:
            r = [qk.quad_ker_qcd(KB(), order, 10101, 0, EvoMethods.ITERATE_EXACT, as_list[-1], as_list[0], 5, L, 4, (3, 0), mode, False, False, False, (0,) * 7, False)]
            r += [qk.quad_ker_qcd(KB(is_singlet=True), order, m0, m1, EvoMethods.ITERATE_EXACT, as_list[-1], as_list[0], 5, L, 4, (3, 0), mode, False, False, False, (0,) * 7, False) for m0 in (100, 21) for m1 in (100, 21)]
        else:
            args = (EvoMethods.ITERATE_EXACT, as_list, op.q2_from, op.q2_to, a_half, running, 5, L, 4, (3, 0), mode, False, (0,) * 7, False)
            r = [qk.quad_ker_qed(KB(), order, 10102, 0, *args), qk.quad_ker_qed(KB(is_QEDvalence=True), order, 10200, 10200, *args)]
        return np.array(r)
    out = []
    for order in %(orders)s:
        for modsv in (SVM.EXPANDED, SVM.EXPONENTIATED):
            same = np.max(np.abs(kernel(order, modsv, 1.0, 0.118) - kernel(order, None, 1.0, 0.118)))
            if same != 0.0: out.append(f"order {order} {modsv.value}: xi = 1 differs from the unvaried kernel by {same:.2e}")
            d = []
            for lam in (1 / 8, 1 / 64):
                c0, c1 = kernel(order, None, 1.0, 0.118 * lam), kernel(order, modsv, 4.0, 0.118 * lam)
                d.append(np.max(np.abs(c1 - c0)) / np.max(np.abs(c0)))
            slope = np.log2(d[0] / d[1]) / 3
            # differences at the level of the numerical accuracy of the coupling solver (Radau, rtol 1e-6) carry no information on the slope
            if d[0] > 2e-6 and slope < order[0] - 0.4: out.append(f"order {order} {modsv.value} xi^2=4: relative difference to the central kernel {d[0]:.2e} -> {d[1]:.2e} for a_s/8 -> a_s/64, i.e. ~ a_s^{slope:.2f}, not a_s^{order[0]}")
    return bool(out), "; ".join(out[:4]) if out else "scale-varied kernels approach the central ones at least like a_s^n"
'''


def run(chk):
    import importlib
    from eko import beta, scale_variations as sv
    from eko.scale_variations import expanded as sve, exponentiated as svx
    from eko.kernels import non_singlet as ns, EvoMethods
    from eko.kernels import as4_evolution_integrals as e4
    from eko.evolution_operator import Operator
    from eko.io.types import ScaleVariationsMethod as SVM
    qk = importlib.import_module("eko.evolution_operator.quad_ker")

    rp = script(REPLAY % dict(orders="((1, 0), (2, 0), (3, 0), (4, 0))"), kind="sv_scaling_oracle_qcd")
    rpq = script(REPLAY % dict(orders="((2, 1), (3, 1))"), kind="sv_scaling_oracle_qed")
    chk.under_contract("eko.scale_variations.exponentiated:gamma_variation", "eko.scale_variations.exponentiated:gamma_variation_qed",
                       "eko.scale_variations.expanded:non_singlet_variation", "eko.scale_variations.expanded:singlet_variation",
                       "eko.scale_variations.expanded:non_singlet_variation_qed", "eko.scale_variations.expanded:singlet_variation_qed",
                       "eko.scale_variations.expanded:valence_variation_qed", "eko.evolution_operator:Operator.mu2", "eko.evolution_operator:Operator.quad_ker",
                       "eko.evolution_operator:Operator.compute_aem_list", "eko.evolution_operator.quad_ker:quad_ker_qcd", "eko.kernels.non_singlet:dispatcher", "eko.runner.commons:couplings")
    chk.trust("lemma: uniqueness of the solution of dE/dt = -gamma(a(t)) E to the working order (singlet sector: statement follows from clauses (2),(3) and this lemma)",
              "C08: every solution method agrees with the exact solution to the working order; C15/C16: the couplings solve the RGE truncated at the working order (flow_L)",
              "C53: coupling scales and placement of the expanded factor", "contract of roots() (C13): Vieta parametrisation at order 4")
    chk.uncovered("singlet kernels end to end (non-commuting matrix exponentials of series): decided through the flow equations of clauses (2),(3) + lemma",
                  "QED: mixed a_s^i a_em^j terms and the fixed-a_em pure-QED evolution under scale variation (no documented specification); one threshold crossing (thorough tier of the statement)")
    Lv = T.var("Lsv")
    b = [T.var(f"beta{k}") for k in range(4)]
    u = T.var("u_higher_order")
    g = np.array([T.var(f"g{k}") for k in range(4)], dtype=object)
    G2 = np.empty((4, 2, 2), dtype=object)
    for k in range(4):
        G2[k] = symmat(f"G{k}_", 2)

    saved_beta = (beta.beta_qcd, beta.beta_qcd_as2, beta.beta_qed)
    cur = {"b": b}
    beta.beta_qcd = lambda k, nf: cur["b"][k[0] - 2]
    beta.beta_qcd_as2 = lambda nf: cur["b"][0]
    bq = T.var("beta0qed")
    beta.beta_qed = lambda k, nf, nl: bq
    try:
        _run(chk, locals())
    finally:
        beta.beta_qcd, beta.beta_qcd_as2, beta.beta_qed = saved_beta
    chk.extra["exhaustive"] = True


def _run(chk, E):
    beta, sv, sve, svx, ns, EvoMethods, e4, Operator, SVM, qk = (E[k] for k in ("beta", "sv", "sve", "svx", "ns", "EvoMethods", "e4", "Operator", "SVM", "qk"))
    rp, rpq, Lv, b, u, g, G2, cur, bq = (E[k] for k in ("rp", "rpq", "Lv", "b", "u", "g", "G2", "cur", "bq"))

    def qed_gammas(order, d):
        A = np.empty((order[0] + 1, order[1] + 1) + ((d, d) if d else ()), dtype=object)
        for i in range(order[0] + 1):
            for j in range(order[1] + 1):
                A[i, j] = symmat(f"Gq{d}_{i}{j}_", d) if d else T.var(f"gq{i}{j}")
        return A

    # ---- (1) xi = 1 -------------------------------------------------------------------------------------------------------------------------
    ax, aex = T.var("a_s"), T.var("a_em")
    for n in (1, 2, 3, 4):
        o = (n, 0)
        chk.eq_array(f"C51.xi1.gamma_variation[order={n}]", svx.gamma_variation(g[:n].copy(), o, 4, Q(0)), g[:n], fn="eko.scale_variations.exponentiated:gamma_variation", goal="L = 0: gamma' == gamma", replay=rp)
        chk.eq_array(f"C51.xi1.gamma_variation[order={n},2x2]", svx.gamma_variation(G2[:n].copy(), o, 4, Q(0)), G2[:n], fn="eko.scale_variations.exponentiated:gamma_variation", goal="L = 0: gamma' == gamma", replay=rp)
        chk.eq(f"C51.xi1.non_singlet_variation[order={n}]", sve.non_singlet_variation(g[:n].copy(), ax, o, 4, Q(0)), 1, fn="eko.scale_variations.expanded:non_singlet_variation", goal="L = 0: K == 1", replay=rp)
        chk.eq_array(f"C51.xi1.singlet_variation[order={n}]", sve.singlet_variation(G2[:n].copy(), ax, o, 4, Q(0), 2), vnp.np_shim.eye(2), fn="eko.scale_variations.expanded:singlet_variation", goal="L = 0: K == identity", replay=rp)
    for o in ((1, 1), (2, 1), (1, 2), (3, 2), (4, 2)):
        for running in (True, False):
            t = f"[order={o},running={running}]"
            for d, fnm, f in ((0, "non_singlet_variation_qed", sve.non_singlet_variation_qed), (4, "singlet_variation_qed", sve.singlet_variation_qed), (2, "valence_variation_qed", sve.valence_variation_qed)):
                A = qed_gammas(o, d)
                chk.eq_array(f"C51.xi1.gamma_variation_qed{t}[dim={d}]", svx.gamma_variation_qed(A.copy(), o, 4, 3, Q(0), running), A, fn="eko.scale_variations.exponentiated:gamma_variation_qed", goal="L = 0: gamma' == gamma", replay=rpq)
                K = f(A.copy(), ax, aex, running, o, 4, Q(0))
                if d:
                    chk.eq_array(f"C51.xi1.{fnm}{t}", K, vnp.np_shim.eye(d), fn=f"eko.scale_variations.expanded:{fnm}", goal="L = 0: K == identity", replay=rpq)
                else:
                    chk.eq(f"C51.xi1.{fnm}{t}", K, 1, fn=f"eko.scale_variations.expanded:{fnm}", goal="L = 0: K == 1", replay=rpq)
    q0, q1 = T.var("q2_from"), T.var("q2_to")
    for modsv in (None, SVM.EXPONENTIATED, SVM.EXPANDED):
        for thr in (False, True):
            op = object.__new__(Operator)
            op.config = dict(ModSV=modsv, xif2=1.0 if False else Q(1), order=(2, 0), ev_op_iterations=2, ev_op_max_order=(2, 0), n3lo_ad_variation=(0,) * 7, polarized=False, time_like=False, use_fhmruvv=False, method="truncated")
            man = type("M", (), {})()
            man.interpolator = type("I", (), {"log": True})()
            op.managers, op.q2_from, op.q2_to, op.is_threshold, op.order, op.nf = man, q0, q1, thr, (2, 0), 4
            op.as_list, op.a_half_list, op.alphaem_running = [T.var("as0"), T.var("as1")], np.zeros((2, 2)), False
            t = f"[{modsv.value if modsv else None},thr={thr}]"
            chk.eq_array(f"C51.xi1.mu2{t}", np.array(list(op.mu2), dtype=object), np.array([q0, q1], dtype=object), fn="eko.evolution_operator:Operator.mu2", goal="xi = 1: couplings at the unshifted scales", replay=rp)
            kw = op.quad_ker((100, 100), 0, None).keywords
            chk.eq(f"C51.xi1.Lsv{t}", kw["Lsv"], 0, fn="eko.evolution_operator:Operator.quad_ker", goal="xi = 1: Lsv == ln(1) == 0", replay=rp)
            chk.ground(f"C51.xi1.kernel_arguments{t}", kw["sv_mode"] == sv.sv_mode(modsv) and kw["is_threshold"] is thr and kw["as_list"] is op.as_list, fn="eko.evolution_operator:Operator.quad_ker",
                       goal="the kernel receives the scheme, the threshold flag and the coupling list of the operator", replay=rp)
    # the logarithm handed to the kernels is ln(xi^2) for the ratio of the coupling scales of Operator.mu2
    xif2s = T.var("xif2")
    for modsv in (SVM.EXPONENTIATED, SVM.EXPANDED):
        op = object.__new__(Operator)
        op.config = dict(ModSV=modsv, xif2=xif2s, order=(2, 0), ev_op_iterations=2, ev_op_max_order=(2, 0), n3lo_ad_variation=(0,) * 7, polarized=False, time_like=False, use_fhmruvv=False, method="truncated")
        man = type("M", (), {})()
        man.interpolator = type("I", (), {"log": True})()
        op.managers, op.q2_from, op.q2_to, op.is_threshold, op.order, op.nf = man, q0, q1, False, (2, 0), 4
        op.as_list, op.a_half_list, op.alphaem_running = [T.var("as0"), T.var("as1")], np.zeros((2, 2)), False
        kw = op.quad_ker((100, 100), 0, None).keywords
        chk.eq(f"C51.Lsv_is_log_of_scale_ratio[{modsv.value}]", kw["Lsv"], vnp.np_shim.log(op.mu2[1] / q1), fn="eko.evolution_operator:Operator.quad_ker", replay=rp,
               goal="Lsv == ln(final coupling scale / q2_to) == ln(xi^2)", assumptions=[xif2s > 0, q1 > 0, q0 > 0])
    # the coupling range of one operator, xi != 1.  Exponentiated: the kernel solves d f / d ln mu^2 = -gamma'(a(xi^2 mu^2), L) f, so over [q2_from, q2_to] the coupling
    # runs from a(xi^2 q2_from) to a(xi^2 q2_to) on EVERY stretch of the path, also those that end on a matching scale (else the product over a threshold crossing is off
    # by O(a_s L), a leading-order effect).  Expanded: the path is evolved at xi = 1 and the factor K(a(xi^2 mu^2), L) closes it, so only the stretch that reaches the
    # target ends at the shifted scale.
    for modsv in (SVM.EXPONENTIATED, SVM.EXPANDED):
        for thr in (False, True):
            op = object.__new__(Operator)
            op.config = dict(ModSV=modsv, xif2=xif2s, order=(2, 0), ev_op_iterations=2, ev_op_max_order=(2, 0), n3lo_ad_variation=(0,) * 7, polarized=False, time_like=False, use_fhmruvv=False, method="truncated")
            op.q2_from, op.q2_to, op.is_threshold, op.order, op.nf = q0, q1, thr, (2, 0), 4
            want = (xif2s * q0, xif2s * q1) if modsv is SVM.EXPONENTIATED else (q0, q1 if thr else xif2s * q1)
            chk.eq_array(f"C51.coupling_range[{modsv.value},thr={thr}]", np.array(list(op.mu2), dtype=object), np.array(list(want), dtype=object), fn="eko.evolution_operator:Operator.mu2", replay=rp,
                         goal="exponentiated: couplings from a(xi^2 q2_from) to a(xi^2 q2_to) on every stretch; expanded: from a(q2_from) to a(q2_to), the stretch that reaches the target ends at a(xi^2 q2_to)")
    # commons.couplings: with the exponentiated scheme the couplings are asked at xi^2 mu^2 for the patch of mu^2, so the matching ratios scale by xi^2
    from eko.runner import commons
    from eko.io.types import ScaleVariationsMethod as _SVM
    seen = {}

    def fake_couplings(**kw):
        seen.update(kw)
        return "couplings"

    saved_c = (commons.Couplings, commons.runcards.masses, commons.couplings_mod_ev)
    commons.Couplings, commons.runcards.masses, commons.couplings_mod_ev = fake_couplings, (lambda th, m: ["m2c", "m2b", "m2t"]), (lambda m: "cmethod")
    try:
        kth = [T.var("kc"), T.var("kb"), T.var("kt")]
        xif = T.var("xif")
        for modsv in (None, _SVM.EXPONENTIATED, _SVM.EXPANDED):
            th, oc = type("T", (), {})(), type("O", (), {})()
            th.heavy = type("H", (), {})()
            th.heavy.matching_ratios, th.heavy.masses_scheme, th.couplings, th.order, th.xif = np.array(kth, dtype=object), "scheme", "cinfo", (2, 0), xif
            oc.configs = type("C", (), {})()
            oc.configs.evolution_method, oc.configs.scvar_method = "m", modsv
            seen.clear()
            commons.couplings(th, oc)
            want = np.array([k ** 2 * (xif ** 2 if modsv is _SVM.EXPONENTIATED else 1) for k in kth], dtype=object)
            chk.eq_array(f"C51.couplings_thresholds[{modsv.value if modsv else None}]", np.array(list(seen.get("thresholds_ratios", [0, 0, 0])), dtype=object), want, fn="eko.runner.commons:couplings", replay=rp,
                         goal="thresholds_ratios == matching_ratios^2 * (xi^2 iff exponentiated)")
            chk.ground(f"C51.couplings_arguments[{modsv.value if modsv else None}]", seen.get("couplings") == "cinfo" and seen.get("order") == (2, 0) and seen.get("masses") == ["m2c", "m2b", "m2t"] and seen.get("hqm_scheme") == "scheme" and seen.get("method") == "cmethod",
                       fn="eko.runner.commons:couplings", goal="reference couplings, order, masses, scheme and method forwarded", detail=str(seen), replay=rp)
    finally:
        commons.Couplings, commons.runcards.masses, commons.couplings_mod_ev = saved_c
    # kernel with L = 0 equals the unvaried kernel (real dispatchers, stubbed anomalous dimensions)
    saved = (qk.ad_us.gamma_ns, qk.ad_us.gamma_singlet)
    a0, a1 = T.var("a0"), T.var("a1")

    class KB:
        def __init__(self, **kw):
            self.is_singlet = self.is_QEDsinglet = self.is_QEDvalence = False
            self.n = T.var("N")
            self.__dict__.update(kw)

    qk.ad_us.gamma_ns = lambda o, mode, n, nf, var, fh: g[: o[0]].copy()
    try:
        e4_saved = e4.roots
        e4.roots = lambda bl: [T.app(f"cubic_root_{i}", *bl) for i in (1, 2, 3)]
        for n in (1, 2, 3, 4):
            for m in (EvoMethods.ITERATE_EXACT, EvoMethods.ITERATE_EXPANDED, EvoMethods.TRUNCATED, EvoMethods.ORDERED_TRUNCATED):
                cen = qk.quad_ker_qcd(KB(), (n, 0), 10101, 0, m, a1, a0, 4, Q(0), 2, (2, 0), sv.Modes.unvaried, False, False, False, (0,) * 7, False)
                for mode in (sv.Modes.exponentiated, sv.Modes.expanded):
                    got = qk.quad_ker_qcd(KB(), (n, 0), 10101, 0, m, a1, a0, 4, Q(0), 2, (2, 0), mode, False, False, False, (0,) * 7, False)
                    chk.eq(f"C51.xi1.kernel[order={n},{m.name},{mode.name}]", got, cen, fn="eko.evolution_operator.quad_ker:quad_ker_qcd", goal="xi = 1: the scale-varied kernel is the unvaried kernel", replay=rp,
                           assumptions=[a0 > 0, a1 > 0], ranges={"a0": (0.01, 0.05), "a1": (0.01, 0.05), "*": (0.3, 2.0)})
    finally:
        e4.roots = e4_saved
        qk.ad_us.gamma_ns, qk.ad_us.gamma_singlet = saved

    # ---- spec: the coupling flow -----------------------------------------------------------------------------------------------------------
    def beta_fn(x, n, betas):
        r = 0
        for k in range(n):
            r = r - betas[k] * x ** (k + 2)
        return r - u * x ** (n + 2)

    def flow(x, alpha, L, n, betas, terms):
        """coupling moved by L along da/dt = beta_n(a) - u a^(n+2); x = lam*alpha a Series in lam (Lie series, exact to the series precision)"""
        bx = beta_fn(x, n, betas)
        total, term = x, x
        for j in range(1, terms + 1):
            term = bx * term.deriv() / alpha * L / j
            total = total + term
        return total

    # ---- (2) exponentiated --------------------------------------------------------------------------------------------------------------------
    P = 8
    xs = Series.indet("x", P)
    for n in (1, 2, 3, 4):
        a_of = flow(xs, 1, -Lv, n, b, P)  # coupling at mu^2 in terms of the one at xi^2 mu^2
        for tag, gam in (("scalar", g), ("2x2", G2)):
            gv = svx.gamma_variation(gam[:n].copy(), (n, 0), 4, Lv)
            for k in range(n):
                want = 0
                for j in range(n):
                    want = want + gam[j] * (a_of ** (j + 1)).coeff(k + 1)
                if tag == "scalar":
                    chk.eq(f"C51.exponentiated.flow[order={n}].a^{k+1}", gv[k], want, fn="eko.scale_variations.exponentiated:gamma_variation", replay=rp,
                           goal=f"[a'^{k+1}]: gamma'_{k} == coefficient of sum_j gamma_j a(a')^(j+1), a = flow_(-L)(a')")
                else:
                    chk.eq_array(f"C51.exponentiated.flow[order={n},2x2].a^{k+1}", gv[k], want, fn="eko.scale_variations.exponentiated:gamma_variation", replay=rp,
                                 goal=f"[a'^{k+1}]: gamma'_{k} == coefficient of sum_j gamma_j a(a')^(j+1)")
        chk.configs += 1
    # QED: pure-QCD block delegated, running a_em: gamma'[0,2] from the a_em flow
    xe = Series.indet("xe", 5)
    for o in ((1, 1), (2, 1), (2, 2), (3, 2), (4, 2)):
        for running in (True, False):
            A = qed_gammas(o, 0)
            got = svx.gamma_variation_qed(A.copy(), o, 4, 3, Lv, running)
            want = A.copy()
            want[1:, 0] = svx.gamma_variation(A[1:, 0].copy(), o, 4, Lv)
            if running and o[1] >= 2:
                ae_of = flow(xe, 1, -Lv, 1, [bq], 5)
                want[0, 2] = A[0, 1] * (ae_of ** 1).coeff(2) + A[0, 2] * (ae_of ** 2).coeff(2)
            chk.eq_array(f"C51.exponentiated.qed[order={o},running={running}]", got, want, fn="eko.scale_variations.exponentiated:gamma_variation_qed", replay=rpq,
                         goal="pure-QCD column through gamma_variation; a_em^2 entry follows the a_em flow iff a_em runs; other entries untouched")

    # ---- (3) expanded: flow equation of K ----------------------------------------------------------------------------------------------------------
    xv, xev = T.var("x_as"), T.var("x_aem")

    def taylor(e, var, j):
        for _ in range(j):
            e = T.diff(e, var)
        e = T.subst(e, {var: T.lift(Q(0))})
        f = 1
        for i in range(2, j + 1):
            f *= i
        return e / f

    def residual(K, gam_of, n, extra=None):
        """d_L K + beta(a') d_a' K - K gamma(a')  (entrywise), K an object array or scalar of Sym"""
        Kx = np.array(K, dtype=object)
        bx = 0
        for k in range(n):
            bx = bx - b[k] * xv ** (k + 2)
        bx = bx - u * xv ** (n + 2)
        d = np.vectorize(lambda e: T.diff(T.lift(e), Lv) + bx * T.diff(T.lift(e), xv) + (extra(e) if extra else 0), otypes=[object])(Kx)
        return d - (Kx @ gam_of if Kx.ndim == 2 else Kx * gam_of)

    for n in (1, 2, 3, 4):
        gam_s = sum(g[k] * xv ** (k + 1) for k in range(n))
        K = sve.non_singlet_variation(g[:n].copy(), xv, (n, 0), 4, Lv)
        R = residual(K, gam_s, n)
        for j in range(1, n):
            chk.eq(f"C51.expanded.flow_equation.ns[order={n}].a^{j}", taylor(R[()] if isinstance(R, np.ndarray) else R, xv, j), 0, fn="eko.scale_variations.expanded:non_singlet_variation", replay=rp,
                   goal=f"[a'^{j}] (d_L K + beta d_a' K - K gamma) == 0")
        for dim in (2, 4):
            Gd = np.empty((4, dim, dim), dtype=object)
            for k in range(4):
                Gd[k] = symmat(f"H{dim}_{k}_", dim)
            gam_m = sum(Gd[k] * xv ** (k + 1) for k in range(n))
            Km = sve.singlet_variation(Gd[:n].copy(), xv, (n, 0), 4, Lv, dim)
            Rm = residual(Km, gam_m, n)
            for j in range(1, n):
                chk.eq_array(f"C51.expanded.flow_equation.singlet[order={n},dim={dim}].a^{j}", np.vectorize(lambda e: taylor(T.lift(e), xv, j), otypes=[object])(Rm), vnp.zeros((dim, dim)),
                             fn="eko.scale_variations.expanded:singlet_variation", replay=rp, goal=f"[a'^{j}] (d_L K + beta d_a' K - K gamma) == 0 (generic non-commuting matrices)")
        chk.configs += 1
    # QED factors: pure-a_s block is the QCD factor; running a_em adds the a_em^1 coefficient of the a_em flow equation
    for o in ((1, 1), (2, 1), (2, 2), (3, 2), (4, 2)):
        for running in (True, False):
            for d, fnm, f in ((0, "non_singlet_variation_qed", sve.non_singlet_variation_qed), (4, "singlet_variation_qed", sve.singlet_variation_qed), (2, "valence_variation_qed", sve.valence_variation_qed)):
                A = qed_gammas(o, d)
                K = f(A.copy(), xv, xev, running, o, 4, Lv)
                base = sve.singlet_variation(A[1:, 0].copy(), xv, o, 4, Lv, d) if d else sve.non_singlet_variation(A[1:, 0].copy(), xv, o, 4, Lv)
                add = (xev * Lv * A[0, 1]) if (running and o[1] >= 2) else 0
                t = f"C51.expanded.qed.{fnm}[order={o},running={running}]"
                if d:
                    chk.eq_array(t, K, base + add, fn=f"eko.scale_variations.expanded:{fnm}", replay=rpq, goal="K_qed == K_qcd(pure a_s block) + a_em L gamma^(0,1) iff a_em runs and the QED order >= 2")
                else:
                    chk.eq(t, K, base + add, fn=f"eko.scale_variations.expanded:{fnm}", replay=rpq, goal="K_qed == K_qcd(pure a_s block) + a_em L gamma^(0,1) iff a_em runs and the QED order >= 2")

    # ---- (4) NS kernels end to end ------------------------------------------------------------------------------------------------------------------
    def tasks():
        for n in (1, 2, 3, 4):
            for m in (EvoMethods.ITERATE_EXACT, EvoMethods.ITERATE_EXPANDED, EvoMethods.TRUNCATED, EvoMethods.ORDERED_TRUNCATED):
                if n == 1 and m is not EvoMethods.ITERATE_EXACT:
                    continue
                yield (n, m)

    def worker(chk, task):
        n, m = task
        prec = n + 4
        lam = Series.indet("lam", prec)
        al0, al1 = T.var("alpha0"), T.var("alpha1")
        if n < 4:
            betas = list(b)
            RANGES = {"alpha0": (0.5, 1.5), "alpha1": (0.5, 1.5), "Lsv": (-1.4, 1.4), "*": (0.3, 2.0)}
        else:
            r = [T.var("r1"), T.var("r2"), T.var("r3")]
            prod = r[0] * r[1] * r[2]
            betas = [b[0], -(r[0] * r[1] + r[0] * r[2] + r[1] * r[2]) / prod * b[0], (r[0] + r[1] + r[2]) / prod * b[0], -1 / prod * b[0]]
            RANGES = {"alpha0": (0.5, 1.5), "alpha1": (0.5, 1.5), "Lsv": (-1.4, 1.4), "r1": (-0.5, -0.2), "r2": (-1.5, -0.8), "r3": (2.0, 3.0), "*": (0.3, 2.0)}
        cur["b"] = betas
        A0, A1 = lam * al0, lam * al1
        A0s, A1s = flow(A0, al0, Lv, n, betas, prec), flow(A1, al1, Lv, n, betas, prec)
        saved = (qk.ad_us.gamma_ns, e4.roots)
        qk.ad_us.gamma_ns = lambda o, mode, nn, nf, var, fh: g[: o[0]].copy()
        if n == 4:
            e4.roots = lambda bl: list(r)
        try:
            def ker(mode, x1, x0):
                return qk.quad_ker_qcd(KB(), (n, 0), 10101, 0, m, x1, x0, 4, Lv, 2, (2, 0), mode, False, False, False, (0,) * 7, False)
            cen = ker(sv.Modes.unvaried, A1, A0)
            for mode, x1, x0 in ((sv.Modes.expanded, A1s, A0), (sv.Modes.exponentiated, A1s, A0s)):
                rel = (ker(mode, x1, x0) - cen) / cen
                for k in range(n):
                    chk.eq(f"C51.ns_kernel[order={n},{m.name},{mode.name}].lambda^{k}", rel.coeff(k), 0, fn="eko.evolution_operator.quad_ker:quad_ker_qcd", ranges=RANGES, replay=rp,
                           goal=f"[lambda^{k}] (K_{mode.name} - K_central)/K_central == 0   (k < n = {n}; couplings a_i = lambda alpha_i, shifted ones by the RGE flow over L)",
                           assumptions=[al0 > 0, al1 > 0])
        finally:
            qk.ad_us.gamma_ns, e4.roots = saved
            cur["b"] = b

    chk.parallel(list(tasks()), worker)

    # ---- (5) QED coupling lists on the shifted scales -------------------------------------------------------------------------------------------------
    class FakeCouplings:
        def a_s(self, scale_to, nf_to):
            return T.app("a_s", T.lift(scale_to), T.lift(nf_to))

        def a(self, scale_to, nf_to):
            return (T.app("a_s", T.lift(scale_to), T.lift(nf_to)), T.app("a_em", T.lift(scale_to), T.lift(nf_to)))

    xif2 = T.var("xif2")
    for modsv in (None, SVM.EXPONENTIATED, SVM.EXPANDED):
        for thr in (False, True):
            for qed in (0, 1, 2):
                for iters in (1, 3):
                    op = object.__new__(Operator)
                    op.config = dict(ModSV=modsv, xif2=xif2, order=(2, qed), ev_op_iterations=iters)
                    man = type("M", (), {})()
                    man.couplings = FakeCouplings()
                    op.managers, op.q2_from, op.q2_to, op.is_threshold, op.order, op.nf = man, q0, q1, thr, (2, qed), 4
                    op.a = op.compute_a()
                    as_list, a_half = op.compute_aem_list()
                    m0, m1 = op.mu2
                    t = f"C51.coupling_lists[{modsv.value if modsv else None},thr={thr},qed_order={qed},iterations={iters}]"
                    fnn = "eko.evolution_operator:Operator.compute_aem_list"
                    rpx = rpq if qed else rp
                    hyp = [q0 > 0, q1 > 0, xif2 > 0]
                    chk.eq(f"{t}.first", as_list[0], T.app("a_s", T.lift(m0), T.lift(4)), fn=fnn, goal="as_list[0] == a_s(initial coupling scale of Operator.mu2)", replay=rpx, assumptions=hyp)
                    chk.eq(f"{t}.last", as_list[-1], T.app("a_s", T.lift(m1), T.lift(4)), fn=fnn, goal="as_list[-1] == a_s(final coupling scale of Operator.mu2)", replay=rpx, assumptions=hyp)
                    chk.ground(f"{t}.length", len(as_list) == (2 if qed == 0 else iters + 1) and np.shape(a_half) == (iters, 2), fn=fnn, goal="one coupling per step boundary, one (a_s, a_em) pair per step", replay=rpx)
                    chk.configs += 1
