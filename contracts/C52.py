"""C52 -- heavy flavours that are never active are transported unchanged.

 (a) ad_to_evol_map(members, nf) with arbitrary symbolic members: for every heavy quark h with pid > nf (and its antiquark)
         T[h,:,b,:] == delta_hb 1   and   T[a,:,h,:] == delta_ah 1 ;
     split_ad_to_evol_map(members, nf) (crossing to nf+1): the same for every pid > nf+1.  All solution methods / orders at once, because
     the member matrices are arbitrary.  Error tensors: zero in those rows and columns.
 (b) closure (on the real _dot4): if two (14,n,14,n) tensors have unit row and column at h, so has their product.
 (c) with C19 (a path that never activates h only contains parts with nf < h and matchings below h) and C02 (the final operator is the
     ordered _dot4 product of those parts) the statement follows for every path -- lemma by induction over the path.
"""
from fractions import Fraction as Q

import numpy as np

from pyvc import terms as T
from pyvc import vnp
from pyvc.replay import script
from contracts.common import symmat
from contracts.C31 import PIDS
from contracts.C32 import members_physical, N

REPLAY = '''
def replay():
    from eko.evolution_operator.physical import PhysicalOperator
    from eko.evolution_operator.matching_condition import MatchingCondition
    from eko.member import OpMember
    from eko import basis_rotation as br
    from eko.runner.operators import _dot4
    rng = np.random.default_rng(21)
    n = 3
    out = []
    def mem(): return OpMember(rng.normal(size=(n, n)), np.abs(rng.normal(size=(n, n))))
    def unit(Tn, hidx, what):
        for b in range(14):
            if not np.allclose(Tn[hidx, :, b, :], np.eye(n) if b == hidx else 0, atol=1e-12): out.append(f"{what}: row of pid {br.flavor_basis_pids[hidx]} not a unit vector")
            if not np.allclose(Tn[b, :, hidx, :], np.eye(n) if b == hidx else 0, atol=1e-12): out.append(f"{what}: column of pid {br.flavor_basis_pids[hidx]} not a unit vector")
    for qed in (False, True):
        labels = br.full_unified_labels if qed else br.full_labels
        for nf in (3, 4, 5):
            Tv, _ = PhysicalOperator.ad_to_evol_map({l: mem() for l in labels}, nf, 1.0, qed).to_flavor_basis_tensor(qed)
            for h in range(nf + 1, 7):
                for pid in (h, -h): unit(Tv, br.flavor_basis_pids.index(pid), f"physical nf={nf} qed={qed}")
        for nf in (3, 4):
            labs = [(100, 100), (100, 21), (21, 100), (21, 21), (200, 200), (90, 100), (90, 21), (90, 90), (100, 90), (21, 90), (91, 91)]
            Tv, _ = MatchingCondition.split_ad_to_evol_map({l: mem() for l in labs}, nf, 1.0, qed).to_flavor_basis_tensor(qed)
            for h in range(nf + 2, 7):
                for pid in (h, -h): unit(Tv, br.flavor_basis_pids.index(pid), f"matching nf={nf} qed={qed}")
    return bool(out), "; ".join(sorted(set(out))[:6]) if out else "inactive heavy flavours are unit rows/columns natively"
'''


def run(chk):
    from eko.evolution_operator.physical import PhysicalOperator
    from eko.evolution_operator.matching_condition import MatchingCondition
    from eko.member import OpMember
    from eko.runner.operators import _dot4

    rp = script(REPLAY, kind="inactive_heavy_oracle")
    chk.under_contract("eko.evolution_operator.physical:PhysicalOperator.ad_to_evol_map", "eko.evolution_operator.matching_condition:MatchingCondition.split_ad_to_evol_map",
                       "eko.member:OperatorBase.to_flavor_basis_tensor", "eko.runner.operators:_dot4")
    chk.trust("C19 (a path never activating h contains only parts with nf < h / matchings below h) and C02 (final operator = ordered product of the parts): the path-level statement follows by induction from (a) and (b)",
              "grid-size uniformity of the construction (2x2 symbolic members)")
    chk.extra["exhaustive"] = True
    I, Z = vnp.eye(N), vnp.zeros((N, N))

    def unit_rows_cols(tag, Tv, Te, heavy, fn):
        for h in heavy:
            for pid in (h, -h):
                hi = PIDS.index(pid)
                for b in range(14):
                    want = I if b == hi else Z
                    chk.eq_block(f"{tag}.row[{pid}][{PIDS[b]}]", Tv[hi, :, b, :], want, fn=fn, goal="T[h,:,b,:] == delta_hb 1 (h receives nothing from any other flavour)", replay=rp)
                    chk.eq_block(f"{tag}.col[{pid}][{PIDS[b]}]", Tv[b, :, hi, :], want, fn=fn, goal="T[a,:,h,:] == delta_ah 1 (h feeds nothing into other flavours)", replay=rp)
                    chk.eq_block(f"{tag}.err_row[{pid}][{PIDS[b]}]", Te[hi, :, b, :], Z, fn=fn, goal="no error on the inactive rows", replay=rp)

    for qed in (False, True):
        q = "qed" if qed else "qcd"
        for nf in (3, 4, 5, 6):
            spec, ops = members_physical(nf, qed)
            om = {l: OpMember(v.copy(), e.copy()) for l, (v, e) in ops.items()}
            fn = "eko.evolution_operator.physical:PhysicalOperator.ad_to_evol_map"
            for pt, pc, res in chk.run_paths(f"C52.physical[{q},nf={nf}]", lambda: PhysicalOperator.ad_to_evol_map(om, nf, T.var("q2"), qed).to_flavor_basis_tensor(qed), [], fn=fn, replay=rp):
                unit_rows_cols(pt, res[0], res[1], range(nf + 1, 7), fn)
            chk.configs += 1
        for nf in (3, 4, 5):
            labs = [(100, 100), (100, 21), (21, 100), (21, 21), (200, 200), (90, 100), (90, 21), (90, 90), (100, 90), (21, 90), (91, 91)]
            om = {l: OpMember(symmat(f"mv{i}_", N), symmat(f"me{i}_", N)) for i, l in enumerate(labs)}
            fn = "eko.evolution_operator.matching_condition:MatchingCondition.split_ad_to_evol_map"
            for pt, pc, res in chk.run_paths(f"C52.matching[{q},nf={nf}->{nf+1}]", lambda: MatchingCondition.split_ad_to_evol_map(om, nf, T.var("q2"), qed).to_flavor_basis_tensor(qed), [], fn=fn, replay=rp):
                unit_rows_cols(pt, res[0], res[1], range(nf + 2, 7), fn)
            chk.configs += 1

    # (b) closure under the real contraction, n = 1, all 14 flavours, h = t (index of pid 6) and tbar
    for h in (6, -6, 5):
        hi = PIDS.index(h)
        A = symmat("A", 14).reshape(14, 1, 14, 1)
        B = symmat("B", 14).reshape(14, 1, 14, 1)
        for X in (A, B):
            X[hi, 0, :, 0] = Q(0)
            X[:, 0, hi, 0] = Q(0)
            X[hi, 0, hi, 0] = Q(1)
        C = _dot4(A, B)
        for b in range(14):
            chk.eq(f"C52.closure[h={h}].row[{PIDS[b]}]", C[hi, 0, b, 0], 1 if b == hi else 0, fn="eko.runner.operators:_dot4", goal="unit row at h is preserved by the product", replay=rp)
            chk.eq(f"C52.closure[h={h}].col[{PIDS[b]}]", C[b, 0, hi, 0], 1 if b == hi else 0, fn="eko.runner.operators:_dot4", goal="unit column at h is preserved by the product", replay=rp)

    # (c) the parts a path consists of: a path between nf0 and nff flavours activates the quarks up to max(nf0, nff) and no others.  On the real recipe list
    #     (recipes._elements over Atlas.matched_path, symbolic scales and walls, all 16 pairs): every evolution has nf <= max(nf0, nff) -- it is built by
    #     ad_to_evol_map(.., nf), clause (a) -- and every matching is the one of a heavy quark hq <= max(nf0, nff): parts.match builds it with
    #     split_ad_to_evol_map(.., nf = hq - 1), which leaves the quarks above hq alone (clause (a)) and activates hq.
    from eko.runner import recipes
    from eko.io.items import Evolution, Matching
    from eko.matchings import Atlas
    from eko.quantities.heavy_quarks import MatchingScales
    c_, b_, t_, mu0, muf = (T.var(x) for x in ("c", "b", "t", "mu0", "muf"))
    base = [mu0 > 0, muf > 0, c_ > 0, c_ <= b_, b_ <= t_]
    fnr = "eko.runner.recipes:_elements"
    chk.under_contract(fnr, "eko.matchings:Atlas.matched_path")
    for nf0 in (3, 4, 5, 6):
        for nff in (3, 4, 5, 6):
            atlas = Atlas(MatchingScales([c_, b_, t_]), (mu0, nf0))
            top = max(nf0, nff)
            for pt, _pc, recs in chk.run_paths(f"C52.parts_of_the_path[{nf0}->{nff}]", lambda: recipes._elements((muf, nff), atlas), base, fn=fnr, replay=rp):
                bad = [repr(r) for r in recs if (isinstance(r, Evolution) and not (3 <= r.nf <= top)) or (isinstance(r, Matching) and not (4 <= r.hq <= top)) or not isinstance(r, (Evolution, Matching))]
                chk.ground(f"{pt}.no_part_activates_a_heavier_quark", not bad, fn=fnr, replay=rp, detail="; ".join(bad[:3]),
                           goal=f"every evolution of the path has nf <= {top} and every matching is that of a heavy quark <= {top}: the quarks above stay inactive in every part")
            chk.configs += 1
