"""C53 -- EKOs are continuous in the target scale within a flavour-number patch (boundary-case logic).

Specification (pointwise-continuous): for a fixed final nf the kernel of the LAST segment of the path to (mu^2, nf) is
    K_spec(mu^2) = SV_factor(a(xi^2 mu^2), L) x E(couplings per scheme),
a composition of functions continuous in mu^2 on the closed patch; segments that are followed by a matching carry no SV factor and the
unshifted final coupling.  The boundary-case logic of the code must hand exactly this configuration to the kernels for EVERY target in
the patch -- interior, equal to the lower or the upper matching scale (with the lower resp. upper nf), equal to the initial scale:
  (a) recipes._elements: a segment is flagged `cliff` iff it is followed by a matching; in particular the last segment never is;
  (b) parts.evolve hands is_threshold = recipe.cliff and the recipe's segment to the Operator;
  (c) Operator.mu2: final coupling scale = xi^2 mu^2 for (expanded and not is_threshold) or exponentiated, initial scale shifted only for
      exponentiated;
  (d) quad_ker_qcd / quad_ker_qed apply the expanded SV factor iff (expanded and not is_threshold), evaluated at the final coupling;
  (e) Operator.compute takes the unity shortcut at q2_from == q2_to iff the kernel of (c),(d) at equal scales is the identity
      (otherwise continuity at the initial scale / at a zero-length last segment would be lost).
The quantitative O(epsilon) bound is not claimed.
"""
from fractions import Fraction as Q

import numpy as np

from pyvc import terms as T
from pyvc import vnp
from pyvc.replay import script
from contracts.common import symmat

REPLAY = '''
def replay():
    """native: the recipe of the last segment must not change character when the target sits exactly on a matching scale"""
    from eko.runner.recipes import _elements
    from eko.matchings import Atlas
    from eko.quantities.heavy_quarks import MatchingScales
    from eko.io.items import Evolution
    out = []
    walls = [10.0, 20.0, 30.0]
    for origin in ((5.0, 3), (15.0, 4), (50.0, 6)):
        atlas = Atlas(MatchingScales(walls), origin)
        for nf in (3, 4, 5, 6):
            lo = 0.0 if nf == 3 else walls[nf - 4]; hi = walls[nf - 3] if nf < 6 else 1e4
            for target in (lo, hi, origin[0]) + ((0.5 * (lo + hi),) if lo > 0 else ()):
                if target <= 0 or target >= 1e4: continue
                recs = _elements((target, nf), atlas)
                near = _elements((target * (1 + 1e-6) if target < hi else target * (1 - 1e-6), nf), atlas)
                last, lastn = recs[-1], near[-1]
                for k, r in enumerate(recs[:-1]):
                    if isinstance(r, Evolution) and not r.cliff:
                        out.append(f"origin {origin}, target ({target}, {nf}): segment {k} is followed by a matching but is not flagged as a threshold segment")
                if not (isinstance(last, Evolution) and last.target == target and last.nf == nf):
                    out.append(f"origin {origin}, target ({target}, {nf}): the recipe list does not end with the segment reaching the target (last: {last})")
                if isinstance(last, Evolution) and isinstance(lastn, Evolution) and last.cliff != lastn.cliff:
                    out.append(f"origin {origin}, target ({target}, {nf}): last segment flagged cliff={last.cliff} exactly on the matching scale but cliff={lastn.cliff} a relative 1e-6 inside the patch")
    # wiring of parts.evolve
    from eko.runner import parts
    seen = {}
    class FakeOp:
        def __init__(self, config, managers, segment, is_threshold=False):
            seen["thr"] = is_threshold
            self.op_members, self.nf, self.q2_to = {}, segment.nf, segment.target
        def compute(self): pass
    class X: pass
    eko_ = X(); eko_.theory_card = X(); eko_.operator_card = X(); eko_.theory_card.order = (2, 0)
    saved = (parts.evop.Operator, parts._evolve_configs, parts._managers, parts.physical.PhysicalOperator.ad_to_evol_map)
    parts.evop.Operator, parts._evolve_configs, parts._managers = FakeOp, (lambda e: {}), (lambda e: None)
    class FakeMap:
        def to_flavor_basis_tensor(self, qed): return (0, 0)
    parts.physical.PhysicalOperator.ad_to_evol_map = classmethod(lambda cls, *a, **k: FakeMap())
    try:
        for cliff in (True, False):
            parts.evolve(eko_, Evolution(5.0, 10.0, 4, cliff))
            if seen.get("thr") is not cliff:
                out.append(f"parts.evolve hands is_threshold={seen.get('thr')} for a recipe with cliff={cliff}")
    finally:
        parts.evop.Operator, parts._evolve_configs, parts._managers, parts.physical.PhysicalOperator.ad_to_evol_map = saved
    return bool(out), "; ".join(out[:4]) if out else "segments are threshold operators iff followed by a matching; evolve forwards the flag"
'''

REPLAY_KER = '''
def replay():
    """native: SV factor placement of quad_ker_qcd and the unity shortcut of Operator.compute, with stubbed anomalous dimensions"""
    import importlib
    import numpy as np
    qk = importlib.import_module("eko.evolution_operator.quad_ker")
    from eko import scale_variations as sv
    from eko.scale_variations import expanded as sve, exponentiated as svx
    from eko.kernels import EvoMethods, non_singlet as ns, singlet as s
    from eko.evolution_operator import Operator
    from eko.io.types import ScaleVariationsMethod as SVM
    rng = np.random.default_rng(5)
    g = rng.normal(size=4) + 1j * rng.normal(size=4)
    G = rng.normal(size=(4, 2, 2)) + 1j * rng.normal(size=(4, 2, 2))
    class KB:
        def __init__(self, singlet): self.is_singlet, self.n = singlet, 2.3 + 0.4j
    sg, sG = qk.ad_us.gamma_ns, qk.ad_us.gamma_singlet
    out = []
    try:
        for order in (1, 2, 3, 4):
            qk.ad_us.gamma_ns = lambda o, mode, n, nf, var, fh: g[: o[0]].copy()
            qk.ad_us.gamma_singlet = lambda o, n, nf, var, fh: G[: o[0]].copy()
            for mode in (sv.Modes.unvaried, sv.Modes.exponentiated, sv.Modes.expanded):
                for thr in (False, True):
                    a1, a0, L = 0.021, 0.034, 0.7
                    o = (order, 0)
                    gam = svx.gamma_variation(g[:order].copy(), o, 4, L) if mode is sv.Modes.exponentiated else g[:order].copy()
                    want = ns.dispatcher(o, EvoMethods.TRUNCATED, gam, a1, a0, 4)
                    if mode is sv.Modes.expanded and not thr:
                        want = sve.non_singlet_variation(gam, a1, o, 4, L) * want
                    got = qk.quad_ker_qcd(KB(False), o, 10101, 0, EvoMethods.TRUNCATED, a1, a0, 4, L, 2, (2, 0), mode, thr, False, False, (0,) * 7, False)
                    if not np.isclose(got, want, rtol=1e-10):
                        out.append(f"ns kernel order {order} {mode.name} threshold={thr}: {got} != {want}")
                    gamS = svx.gamma_variation(G[:order].copy(), o, 4, L) if mode is sv.Modes.exponentiated else G[:order].copy()
                    wantS = s.dispatcher(o, EvoMethods.TRUNCATED, gamS, a1, a0, 4, 2, (2, 0))
                    if mode is sv.Modes.expanded and not thr:
                        wantS = sve.singlet_variation(gamS, a1, o, 4, L, 2) @ wantS
                    gotS = qk.quad_ker_qcd(KB(True), o, 100, 21, EvoMethods.TRUNCATED, a1, a0, 4, L, 2, (2, 0), mode, thr, False, False, (0,) * 7, False)
                    if not np.isclose(gotS, wantS[0, 1], rtol=1e-10):
                        out.append(f"singlet kernel order {order} {mode.name} threshold={thr}: {gotS} != {wantS[0, 1]}")
    finally:
        qk.ad_us.gamma_ns, qk.ad_us.gamma_singlet = sg, sG
    for modsv, mode in ((None, sv.Modes.unvaried), (SVM.EXPONENTIATED, sv.Modes.exponentiated), (SVM.EXPANDED, sv.Modes.expanded)):
        for thr in (False, True):
            for xif2 in (1.0, 4.0, 0.25):
                op = object.__new__(Operator)
                op.config = dict(order=(2, 0), ModSV=modsv, xif2=xif2, debug_skip_singlet=False, debug_skip_non_singlet=False, method="truncated", use_fhmruvv=False, polarized=False, time_like=False)
                man = type("M", (), {})(); man.interpolator = type("I", (), {})(); man.interpolator.xgrid = type("G", (), {"size": 2})()
                op.managers, op.nf, op.q2_from, op.q2_to, op.is_threshold, op.op_members, op.order = man, 4, 20.25, 20.25, thr, {}, (2, 0)
                op.a = ((0.02, 0.0), (0.02, 0.0))
                hit = []
                op.integrate = lambda: hit.append(1)
                op.compute()
                m0, m1 = op.mu2
                identity = np.isclose(m0, m1) and not (mode is sv.Modes.expanded and not thr and xif2 != 1.0)
                if bool(hit) == bool(identity):
                    out.append(f"zero-length segment {mode.name} threshold={thr} xif2={xif2}: integrate called={bool(hit)} but kernel identity={bool(identity)}")
                want1 = 20.25 * (xif2 if (mode is sv.Modes.exponentiated or (mode is sv.Modes.expanded and not thr)) else 1.0)
                want0 = 20.25 * (xif2 if mode is sv.Modes.exponentiated else 1.0)
                if not (np.isclose(m0, want0) and np.isclose(m1, want1)):
                    out.append(f"mu2 {mode.name} threshold={thr} xif2={xif2}: {(m0, m1)} != {(want0, want1)}")
    return bool(out), "; ".join(out[:4]) if out else "SV factor placement, coupling scales and unity shortcut agree with the specification"
'''


def run(chk):
    from eko.runner import recipes, parts
    from eko.matchings import Atlas, Segment
    from eko.quantities.heavy_quarks import MatchingScales
    from eko.io.items import Evolution, Matching
    from eko.evolution_operator import Operator, quad_ker as qk
    from eko.io.types import ScaleVariationsMethod as SVM
    from eko import scale_variations as sv
    from eko.kernels import EvoMethods

    rp = script(REPLAY, kind="cliff_flag_oracle")
    rpk = script(REPLAY_KER, kind="sv_factor_oracle")
    chk.under_contract("eko.runner.recipes:_elements", "eko.runner.parts:evolve", "eko.evolution_operator:Operator.mu2", "eko.evolution_operator:Operator.compute",
                       "eko.evolution_operator.quad_ker:quad_ker_qcd", "eko.evolution_operator.quad_ker:quad_ker_qed")
    chk.trust("kernels equal 1 at equal couplings (C10), couplings continuous inside a patch (C15/C16), Atlas.matched_path contract (C19)",
              "lemma: a composition of continuous functions is continuous; the specification K_spec is such a composition on the closed patch")
    chk.uncovered("the quantitative O(epsilon) bound")

    # ---- (a) cliff flag <=> followed by a matching --------------------------------------------------------------------------------------
    c, b, t, mu0, muf = (T.var(x) for x in ("c", "b", "t", "mu0", "muf"))
    walls = [c, b, t]
    base = [mu0 > 0, muf > 0, c > 0, c < b, b < t]
    for nf0 in (3, 4, 5, 6):
        for nff in (3, 4, 5, 6):
            atlas = Atlas(MatchingScales(list(walls)), (mu0, nf0))
            # target placements of the statement: interior (free), on the lower / upper boundary of the target patch, on the initial scale
            lo = None if nff == 3 else walls[nff - 4]
            hi = None if nff == 6 else walls[nff - 3]
            places = [("free", muf, [])]
            if lo is not None:
                places.append(("on_lower_wall", lo, []))
            if hi is not None:
                places.append(("on_upper_wall", hi, []))
            places.append(("on_initial_scale", mu0, []))
            for pname, target, extra in places:
                tag = f"C53.cliff[{nf0}->{nff},{pname}]"
                for pt, pc, recs in chk.run_paths(tag, lambda: recipes._elements((target, nff), atlas), base + extra, fn="eko.runner.recipes:_elements", replay=rp):
                    hyp = base + extra + list(pc)
                    last = recs[-1] if recs else None
                    ok_last = isinstance(last, Evolution) and last.nf == nff and (last.target is target or T.lift(last.target).n == T.lift(target).n)
                    chk.ground(f"{pt}.ends_with_the_target_segment", bool(ok_last), fn="eko.runner.recipes:_elements", replay=rp,
                               goal="the recipe list ends with the evolution segment that reaches the requested (scale, nf) -- also when that segment has zero length: it is the carrier of the scale-variation factor",
                               detail=f"last recipe: {last}")
                    for k, r in enumerate(recs):
                        if not isinstance(r, Evolution):
                            continue
                        followed = k + 1 < len(recs) and isinstance(recs[k + 1], Matching)
                        cl = r.cliff
                        if isinstance(cl, T.Sym) and cl.op not in ("true", "false"):
                            chk.smt(f"{pt}.segment{k}.cliff_iff_followed_by_matching", hyp, cl if followed else T.bnot(cl), fn="eko.runner.recipes:_elements", replay=rp,
                                    goal="cliff <=> the segment is followed by a matching (the last segment of a path is never a threshold segment)")
                        else:
                            val = bool(cl)
                            chk.ground(f"{pt}.segment{k}.cliff_iff_followed_by_matching", val == followed, fn="eko.runner.recipes:_elements", replay=rp,
                                       goal="cliff <=> the segment is followed by a matching (the last segment of a path is never a threshold segment)",
                                       detail=f"segment {r} is {'followed' if followed else 'not followed'} by a matching but cliff={val}")
                chk.configs += 1

    # ---- (a') the flag is part of the identity of a part ----------------------------------------------------------------------------------------
    # One operator card may ask for a target ON a matching scale (lower nf: the stretch mu0 -> wall is the LAST one, no cliff) and for a target beyond it (the same
    # stretch is FOLLOWED by the matching, cliff).  They are different operators whenever the schemes of (c), (d) distinguish them, so they must be different
    # recipes: unequal as keys, and both kept by the deduplication of recipes._create, in whichever order the targets are listed.
    from eko.io.items import Evolution as _Ev
    from eko.matchings import Atlas as _Atlas
    from eko.quantities.heavy_quarks import MatchingScales as _MS
    fnc = "eko.runner.recipes:_create"
    chk.under_contract(fnc, "eko.io.items:Evolution")
    a_, b_ = _Ev(5.0, 10.0, 3, cliff=False), _Ev(5.0, 10.0, 3, cliff=True)
    chk.ground("C53.cliff_is_part_of_the_recipe_identity", a_ != b_ and len({a_: 1, b_: 2}) == 2, fn="eko.io.items:Evolution", replay=rp,
               goal="two evolution recipes that differ in the cliff flag only are different keys (comparison and dictionary lookup)")
    for nf0, wall, beyond in ((3, 10.0, 15.0), (4, 20.0, 25.0), (5, 30.0, 50.0)):
        atl = _Atlas(_MS([10.0, 20.0, 30.0]), (5.0 if nf0 == 3 else wall - 5.0, nf0))
        for lab, grid in (("on_wall_then_beyond", [(wall, nf0), (beyond, nf0 + 1)]), ("beyond_then_on_wall", [(beyond, nf0 + 1), (wall, nf0)])):
            got = recipes._create(grid, atl)
            flags = sorted(r.cliff for r in got if isinstance(r, _Ev) and r.nf == nf0 and r.target == wall)
            chk.ground(f"C53.both_variants_of_the_stretch_kept[nf={nf0},{lab}]", flags == [False, True], fn=fnc, replay=rp, detail=f"cliff flags of the stretch ending on the matching scale: {flags}",
                       goal="the stretch that ends on the matching scale is computed once as the last stretch of the target on the wall and once as the stretch followed by the matching")
    # ---- (b) parts.evolve wiring ----------------------------------------------------------------------------------------------------------
    seen = {}

    class FakeOp:
        def __init__(self, config, managers, segment, is_threshold=False):
            seen.update(config=config, segment=segment, is_threshold=is_threshold)
            self.op_members, self.nf, self.q2_to = {}, segment.nf, segment.target
        def compute(self):
            seen["computed"] = True

    class X:
        pass

    eko = X()
    eko.theory_card, eko.operator_card = X(), X()
    eko.theory_card.order = (2, 0)
    saved = (parts.evop.Operator, parts._evolve_configs, parts._managers, parts.physical.PhysicalOperator.ad_to_evol_map)
    parts.evop.Operator = FakeOp
    parts._evolve_configs = lambda e: {"cfg": 1}
    parts._managers = lambda e: "managers"

    class FakeMap:
        def to_flavor_basis_tensor(self, qed):
            return ("res", "err")

    parts.physical.PhysicalOperator.ad_to_evol_map = classmethod(lambda cls, *a, **k: FakeMap())
    try:
        for cliff in (True, False):
            rec = Evolution(mu0, muf, 4, cliff)
            seen.clear()
            parts.evolve(eko, rec)
            ok = seen.get("is_threshold") is cliff and isinstance(seen.get("segment"), Segment) and seen["segment"].origin is mu0 and seen["segment"].target is muf and seen["segment"].nf == 4 and seen.get("computed")
            chk.ground(f"C53.evolve_wiring[cliff={cliff}]", bool(ok), fn="eko.runner.parts:evolve", goal="Operator receives the recipe's segment and is_threshold = recipe.cliff", detail=str(seen), replay=rp)
    finally:
        parts.evop.Operator, parts._evolve_configs, parts._managers, parts.physical.PhysicalOperator.ad_to_evol_map = saved

    # ---- (c) Operator.mu2 ---------------------------------------------------------------------------------------------------------------------
    q0, q1, xif2 = T.var("q2_from"), T.var("q2_to"), T.var("xif2")
    for mod in (None, SVM.EXPONENTIATED, SVM.EXPANDED):
        for thr in (False, True):
            op = object.__new__(Operator)
            op.config = dict(ModSV=mod, xif2=xif2)
            op.q2_from, op.q2_to, op.is_threshold = q0, q1, thr
            m0, m1 = op.mu2
            want0 = q0 * xif2 if mod is SVM.EXPONENTIATED else q0
            want1 = q1 * xif2 if (mod is SVM.EXPONENTIATED or (mod is SVM.EXPANDED and not thr)) else q1
            chk.eq(f"C53.mu2[{mod.value if mod else None},thr={thr}].initial", m0, want0, fn="eko.evolution_operator:Operator.mu2", goal="initial coupling scale: xi^2 q2_from only for exponentiated", replay=rpk)
            chk.eq(f"C53.mu2[{mod.value if mod else None},thr={thr}].final", m1, want1, fn="eko.evolution_operator:Operator.mu2", goal="final coupling scale: xi^2 q2_to for exponentiated, or expanded on a non-threshold segment", replay=rpk)

    # ---- (d) SV factor placement: ker == [K(gamma, a_final, L) x] E(...)  with the evolution kernels E replaced by their contracts (opaque) ------
    import importlib
    qk = importlib.import_module("eko.evolution_operator.quad_ker")
    from eko.scale_variations import expanded as sve, exponentiated as svx
    a0, a1, Lsv = T.var("as0"), T.var("as1"), T.var("Lsv")
    g = np.array([T.var(f"g{k}") for k in range(4)], dtype=object)
    G = np.empty((4, 2, 2), dtype=object)
    for k in range(4):
        G[k] = symmat(f"G{k}_", 2)
    E_ns = T.var("E_ns")
    E_s = symmat("E_s", 2)

    class KB:
        def __init__(self, **kw):
            self.is_singlet = self.is_QEDsinglet = self.is_QEDvalence = False
            self.n = T.var("N")
            self.__dict__.update(kw)

    seen_d = {}
    saved_d = (qk.ad_us.gamma_ns, qk.ad_us.gamma_singlet, qk.ns.dispatcher, qk.s.dispatcher)

    def fake_ns(order, method, gamma, as1, as0, nf):
        seen_d["ns"] = (gamma, as1, as0)
        return E_ns

    def fake_s(order, method, gamma, as1, as0, nf, it, mo):
        seen_d["s"] = (gamma, as1, as0)
        return E_s.copy()

    qk.ns.dispatcher, qk.s.dispatcher = fake_ns, fake_s
    try:
        for order in (1, 2, 3, 4):
            qk.ad_us.gamma_ns = lambda o, mode, n, nf, var, fh: g[: o[0]].copy()
            qk.ad_us.gamma_singlet = lambda o, n, nf, var, fh: G[: o[0]].copy()
            for mode in (sv.Modes.unvaried, sv.Modes.exponentiated, sv.Modes.expanded):
                for thr in (False, True):
                    tag = f"C53.kernel[order={order},{mode.name},thr={thr}]"
                    factor = mode is sv.Modes.expanded and not thr
                    k_ns = qk.quad_ker_qcd(KB(), (order, 0), 10101, 0, EvoMethods.TRUNCATED, a1, a0, 4, Lsv, 2, (2, 0), mode, thr, False, False, (0,) * 7, False)
                    gam = svx.gamma_variation(g[:order].copy(), (order, 0), 4, Lsv) if mode is sv.Modes.exponentiated else g[:order].copy()
                    want = (sve.non_singlet_variation(gam, a1, (order, 0), 4, Lsv) if factor else 1) * E_ns
                    chk.eq(f"{tag}.ns.factor_placement", k_ns, want, fn="eko.evolution_operator.quad_ker:quad_ker_qcd", replay=rpk,
                           goal="kernel = K(gamma, a_final, L) * E on a non-threshold expanded segment, E otherwise")
                    chk.eq_array(f"{tag}.ns.kernel_arguments", np.array(list(seen_d["ns"][0]) + [seen_d["ns"][1], seen_d["ns"][2]], dtype=object), np.array(list(gam) + [a1, a0], dtype=object),
                                 fn="eko.evolution_operator.quad_ker:quad_ker_qcd", replay=rpk, goal="E receives gamma (shifted only for exponentiated), a_final, a_initial")
                    GS = G[:order].copy()
                    gamS = svx.gamma_variation(GS.copy(), (order, 0), 4, Lsv) if mode is sv.Modes.exponentiated else GS
                    wantS = (sve.singlet_variation(gamS, a1, (order, 0), 4, Lsv, 2) @ E_s) if factor else E_s
                    for m0, m1, ij in ((100, 100, (0, 0)), (100, 21, (0, 1)), (21, 100, (1, 0)), (21, 21, (1, 1))):
                        k_s = qk.quad_ker_qcd(KB(is_singlet=True), (order, 0), m0, m1, EvoMethods.TRUNCATED, a1, a0, 4, Lsv, 2, (2, 0), mode, thr, False, False, (0,) * 7, False)
                        chk.eq(f"{tag}.singlet[{m0},{m1}].factor_placement", k_s, wantS[ij], fn="eko.evolution_operator.quad_ker:quad_ker_qcd", replay=rpk,
                               goal="singlet kernel = K(gamma, a_final, L) @ E on a non-threshold expanded segment, E otherwise")
                    chk.configs += 1
    finally:
        qk.ad_us.gamma_ns, qk.ad_us.gamma_singlet, qk.ns.dispatcher, qk.s.dispatcher = saved_d

    # QED kernels: same placement, factor evaluated at the last a_s and the last half-step a_em
    saved_q = (qk.ad_us.gamma_singlet_qed, qk.ad_us.gamma_valence_qed, qk.ad_us.gamma_ns_qed, qk.qed_s.dispatcher, qk.qed_v.dispatcher, qk.qed_ns.dispatcher)
    E4, E2, E1 = symmat("Eq_s", 4), symmat("Eq_v", 2), T.var("Eq_ns")
    as_list = np.array([T.var("as_0"), T.var("as_1"), T.var("as_2")], dtype=object)
    a_half = np.array([[T.var("ah0s"), T.var("ah0e")], [T.var("ah1s"), T.var("ah1e")]], dtype=object)
    qk.qed_s.dispatcher = lambda *a: E4.copy()
    qk.qed_v.dispatcher = lambda *a: E2.copy()
    qk.qed_ns.dispatcher = lambda *a: E1
    try:
        for order in ((1, 1), (2, 1), (3, 2)):
            G4 = np.empty((order[0] + 1, order[1] + 1, 4, 4), dtype=object)
            G2 = np.empty((order[0] + 1, order[1] + 1, 2, 2), dtype=object)
            G1 = np.empty((order[0] + 1, order[1] + 1), dtype=object)
            for i in range(order[0] + 1):
                for j in range(order[1] + 1):
                    G4[i, j], G2[i, j], G1[i, j] = symmat(f"Gs{i}{j}_", 4), symmat(f"Gv{i}{j}_", 2), T.var(f"gq{i}{j}")
            qk.ad_us.gamma_singlet_qed = lambda *a: G4.copy()
            qk.ad_us.gamma_valence_qed = lambda *a: G2.copy()
            qk.ad_us.gamma_ns_qed = lambda *a: G1.copy()
            for mode in (sv.Modes.unvaried, sv.Modes.exponentiated, sv.Modes.expanded):
                for thr in (False, True):
                    for running in (True, False):
                        tag = f"C53.kernel_qed[order={order},{mode.name},thr={thr},running={running}]"
                        factor = mode is sv.Modes.expanded and not thr
                        common = (order, None, None, EvoMethods.TRUNCATED, as_list, Q(2), Q(10), a_half, running, 4, Lsv, 2, (2, 0), mode, thr, (0,) * 7, False)

                        def call(kb, m0, m1):
                            a = list(common)
                            a[1], a[2] = m0, m1
                            return qk.quad_ker_qed(kb, *a)

                        def gvar(gm):
                            return svx.gamma_variation_qed(gm.copy(), order, 4, 3, Lsv, running) if mode is sv.Modes.exponentiated else gm

                        wS = (sve.singlet_variation_qed(gvar(G4), as_list[-1], a_half[-1][1], running, order, 4, Lsv) @ E4) if factor else E4
                        for m0, m1 in ((21, 21), (22, 100), (100, 101), (101, 22)):
                            chk.eq(f"{tag}.singlet[{m0},{m1}]", call(KB(is_QEDsinglet=True), m0, m1), qk.select_QEDsinglet_element(wS, m0, m1), fn="eko.evolution_operator.quad_ker:quad_ker_qed", replay=rpk,
                                   goal="QED singlet kernel = K(gamma, a_s final, a_em last step, L) @ E on a non-threshold expanded segment, E otherwise")
                        wV = (sve.valence_variation_qed(gvar(G2), as_list[-1], a_half[-1][1], running, order, 4, Lsv) @ E2) if factor else E2
                        for m0, m1 in ((10200, 10200), (10200, 10204), (10204, 10200), (10204, 10204)):
                            chk.eq(f"{tag}.valence[{m0},{m1}]", call(KB(is_QEDvalence=True), m0, m1), qk.select_QEDvalence_element(wV, m0, m1), fn="eko.evolution_operator.quad_ker:quad_ker_qed", replay=rpk,
                                   goal="QED valence kernel = K @ E on a non-threshold expanded segment, E otherwise")
                        wN = (sve.non_singlet_variation_qed(gvar(G1), as_list[-1], a_half[-1][1], running, order, 4, Lsv) * E1) if factor else E1
                        chk.eq(f"{tag}.ns", call(KB(), 10102, 0), wN, fn="eko.evolution_operator.quad_ker:quad_ker_qed", replay=rpk,
                               goal="QED non-singlet kernel = K * E on a non-threshold expanded segment, E otherwise")
                        chk.configs += 1
    finally:
        qk.ad_us.gamma_singlet_qed, qk.ad_us.gamma_valence_qed, qk.ad_us.gamma_ns_qed, qk.qed_s.dispatcher, qk.qed_v.dispatcher, qk.qed_ns.dispatcher = saved_q

    # ---- (e) the unity shortcut of Operator.compute agrees with (c),(d): taken iff the kernel at equal scales is the identity ------------------
    for mode, modsv in ((sv.Modes.unvaried, None), (sv.Modes.exponentiated, SVM.EXPONENTIATED), (sv.Modes.expanded, SVM.EXPANDED)):
        for thr in (False, True):
            for qed in (0, 1):
                for xi_case, xv in (("xif2=1", Q(1)), ("xif2_symbolic", T.var("xif2"))):
                    tag = f"C53.shortcut[{mode.name},thr={thr},qed={qed},{xi_case}]"
                    opx = object.__new__(Operator)
                    opx.config = dict(order=(2, qed), ModSV=modsv, xif2=xv, debug_skip_singlet=False, debug_skip_non_singlet=False, method="truncated", use_fhmruvv=False, polarized=False, time_like=False)
                    man = type("M", (), {})()
                    man.interpolator = type("I", (), {})()
                    man.interpolator.xgrid = type("G", (), {"size": 2})()
                    opx.managers, opx.nf, opx.q2_from, opx.q2_to, opx.is_threshold, opx.op_members, opx.order = man, 4, q0, q0, thr, {}, (2, qed)
                    opx.a = ((a1, T.ZERO), (a1, T.ZERO))
                    hit = {}
                    opx.integrate = lambda hit=hit: hit.__setitem__("integrate", True)

                    def go(opx=opx, hit=hit):
                        hit["integrate"] = False
                        opx.compute()
                        return hit["integrate"]

                    hyp0 = [q0 > 0] + ([xv > 0] if isinstance(xv, T.Sym) else [])
                    nontrivial = mode is sv.Modes.expanded and not thr
                    for pt, pc, integrated in chk.run_paths(tag, go, hyp0, fn="eko.evolution_operator:Operator.compute", replay=rpk):
                        if not nontrivial or not isinstance(xv, T.Sym):
                            chk.ground(f"{pt}.consistent", not integrated, fn="eko.evolution_operator:Operator.compute", replay=rpk,
                                       goal="zero-length segment whose kernel is the identity: unity shortcut", detail="the identity operator is integrated numerically (harmless but then not exactly 1)" if integrated else "")
                        else:
                            close = vnp.np_shim.isclose(xv, Q(1))
                            chk.smt(f"{pt}.consistent", hyp0 + list(pc), close if not integrated else T.bnot(close), fn="eko.evolution_operator:Operator.compute", replay=rpk,
                                    goal="expanded scheme, zero-length non-threshold segment: apply K (integrate) unless xif2 == 1")
                    chk.configs += 1
    chk.extra["exhaustive"] = True
