"""C55 -- settings that do not apply to a configuration do not change its EKO.

Frame conditions (non-interference).  A setting that does not apply is replaced by a *tainted* object: every use of it -- arithmetic, comparison,
truth value, indexing, iteration, conversion to an index, being handed to one of the numerical kernels -- raises.  The real dispatch code is executed
on symbolic inputs along every feasible path; reaching the end without touching the taint proves that the result is the same function of the
remaining arguments whatever the setting is (bitwise: the value is never read).
  (a) singlet.dispatcher: ev_op_iterations for order 1 and for the truncated / ordered-truncated / decompose-* methods; ev_op_max_order for order 1 and for
      every method but perturbative-*;  non-singlet sector of quad_ker_qcd: both, every method;  QED dispatchers: ev_op_max_order.
  (b) N3LO variation tuple and parametrisation switch below N3LO: gamma_ns / gamma_singlet / gamma_*_qed (orders < 4) and quad_ker_qcd;
      the polarised and time-like branches never receive them.
  (c) pure QCD (order[1] == 0): quad_ker_ad never reads a_half, alphaem_running, mu2_from, mu2_to; Operator.compute_aem_list yields the same coupling list
      for every iteration count; Couplings.compute / the expanded coupling functions give the same a_s with the running flag on and off
      (two code paths: equality of the symbolic results, exact arithmetic -- not 'never read').
  (d) matching: without a downward matching (is_backward False) OperatorMatrixElement never reads config['backward_inversion'] and build_ome gets FORWARD;
      parts.match hands recipe.inverse as is_backward.
"""
from fractions import Fraction as Q

import numpy as np

from pyvc import terms as T
from pyvc import vnp
from pyvc.replay import script
from contracts.common import symmat

REPLAY = '''
def replay():
    """native, bitwise: pairs of calls that differ only in one setting that does not apply"""
    import importlib
    from eko.kernels import singlet as s, non_singlet as ns, EvoMethods
    import ekore.anomalous_dimensions.unpolarized.space_like as ad
    from eko.couplings import Couplings
    from eko.quantities.couplings import CouplingsInfo, CouplingEvolutionMethod
    from eko.quantities.heavy_quarks import QuarkMassScheme
    from eko.evolution_operator import Operator
    qk = importlib.import_module("eko.evolution_operator.quad_ker")
    rng = np.random.default_rng(55)
    out = []
    def same(a, b): return np.array_equal(np.asarray(a), np.asarray(b))
    for order in (1, 2, 3, 4):
        G = (rng.normal(size=(order, 2, 2)) + 1j * rng.normal(size=(order, 2, 2))) * (3.0 ** np.arange(order))[:, None, None]
        for m in EvoMethods:
            iterates = order > 1 and m in (EvoMethods.ITERATE_EXACT, EvoMethods.ITERATE_EXPANDED, EvoMethods.PERTURBATIVE_EXACT, EvoMethods.PERTURBATIVE_EXPANDED)
            perturbative = order > 1 and m in (EvoMethods.PERTURBATIVE_EXACT, EvoMethods.PERTURBATIVE_EXPANDED)
            base = s.dispatcher((order, 0), m, G.copy(), 0.02, 0.035, 4, 2, (3, 0))
            if not iterates and not same(base, s.dispatcher((order, 0), m, G.copy(), 0.02, 0.035, 4, 9, (3, 0))): out.append(f"singlet {m.name} order {order}: result depends on ev_op_iterations")
            if not perturbative and not same(base, s.dispatcher((order, 0), m, G.copy(), 0.02, 0.035, 4, 2, (7, 0))): out.append(f"singlet {m.name} order {order}: result depends on ev_op_max_order")
    N = 2.3 + 0.7j
    for nf in (3, 4, 5):
        for order in (1, 2, 3):
            for mode in (10101, 10201, 10200):
                if not same(ad.gamma_ns((order, 0), mode, N, nf, (0,) * 7, True), ad.gamma_ns((order, 0), mode, N, nf, (1, 2, 1, 2, 1, 2, 1), False)): out.append(f"gamma_ns order {order} mode {mode}: depends on the N3LO settings")
            if not same(ad.gamma_singlet((order, 0), N, nf, (0,) * 7, True), ad.gamma_singlet((order, 0), N, nf, (1, 2, 1, 2, 1, 2, 1), False)): out.append(f"gamma_singlet order {order}: depends on the N3LO settings")
            if not same(ad.gamma_singlet_qed((order, 1), N, nf, (0,) * 7, True), ad.gamma_singlet_qed((order, 1), N, nf, (1, 2, 1, 2, 1, 2, 1), False)): out.append(f"gamma_singlet_qed order {order}: depends on the N3LO settings")
    for method in (CouplingEvolutionMethod.EXACT, CouplingEvolutionMethod.EXPANDED):
        for order in ((1, 0), (2, 0), (3, 0), (4, 0)):
            vals = []
            for running in (True, False):
                ci = CouplingsInfo.from_dict(dict(alphas=0.118, alphaem=0.007496, ref=(91.2, 5), em_running=running))
                c = Couplings(ci, order, method, [2.0, 4.5**2, 173.0**2], QuarkMassScheme.POLE, [1.0, 1.0, 1.0])
                vals.append([c.a(q2, nf)[0] for q2, nf in ((10.0, 4), (50.0, 5), (1e4, 5), (3.0, 3))])
            if not same(vals[0], vals[1]): out.append(f"couplings {method.value} order {order}: a_s depends on the em_running flag")
    from eko.evolution_operator import operator_matrix_element as om
    from eko.io.types import InversionMethod
    man = type("M", (), {})(); man.couplings = type("C", (), {"alphaem_running": False})()
    for nf in (3, 4, 5):
        ms = {om.OperatorMatrixElement(dict(order=(2, 0), matching_order=(2, 0), backward_inversion=bw, ModSV=None, xif2=1.0), man, nf, 20.0, False, 0.0, False).backward_method for bw in (InversionMethod.EXACT, InversionMethod.EXPANDED, None)}
        if len(ms) != 1: out.append(f"forward matching at nf={nf}: matching method depends on the inversion setting: {sorted(m.name for m in ms)}")
    return bool(out), "; ".join(out[:5]) if out else "settings that do not apply leave the native results bitwise unchanged"
'''


class SettingRead(Exception):
    pass


class Tainted:
    """a setting that must not influence the result: any use raises"""

    def __init__(self, name):
        object.__setattr__(self, "_name", name)

    def _bad(self, *a, **k):
        raise SettingRead(f"the setting '{self._name}' is read although it does not apply to this configuration")

    __add__ = __radd__ = __sub__ = __rsub__ = __mul__ = __rmul__ = __truediv__ = __rtruediv__ = __floordiv__ = __rfloordiv__ = __mod__ = __pow__ = __rpow__ = _bad
    __neg__ = __pos__ = __abs__ = __matmul__ = __rmatmul__ = _bad
    __eq__ = __ne__ = __lt__ = __le__ = __gt__ = __ge__ = _bad
    __bool__ = __len__ = __iter__ = __getitem__ = __contains__ = __call__ = __index__ = __int__ = __float__ = __complex__ = __hash__ = _bad

    def __getattr__(self, k):
        if k.startswith("__") and k.endswith("__"):
            raise AttributeError(k)
        self._bad()

    def __repr__(self):
        return f"<tainted {self._name}>"


def tainted_in(args):
    return [a._name for a in args if isinstance(a, Tainted)] + [x._name for a in args if isinstance(a, (tuple, list)) for x in a if isinstance(x, Tainted)]


def flat(args):
    """scalar leaves of an argument list (for opaque callee results that depend on everything they are handed)"""
    out = []
    for a in args:
        if isinstance(a, Tainted):
            raise SettingRead(f"the setting '{a._name}' is handed to a numerical kernel although it does not apply to this configuration")
        if isinstance(a, bool) or a is None or isinstance(a, str):
            out.append(T.lift(Q(int(bool(a)))) if isinstance(a, bool) else T.lift(Q(0)))
        elif isinstance(a, (T.Sym, int, Q)):
            out.append(T.lift(a))
        elif isinstance(a, (tuple, list, np.ndarray)):
            out.extend(flat(list(np.asarray(a, dtype=object).ravel()) if isinstance(a, np.ndarray) else list(a)))
        elif hasattr(a, "value") and isinstance(getattr(a, "value"), int):
            out.append(T.lift(Q(int(a.value))))
    return out


def opaque(name, args, dim=0):
    """callee contract: the result is a function of the arguments (and of nothing else)"""
    leaves = flat(args)
    if not dim:
        return T.app(name, *leaves)
    M = np.empty((dim, dim), dtype=object)
    for i in range(dim):
        for j in range(dim):
            M[i, j] = T.app(f"{name}_{i}{j}", *leaves)
    return M


def independent(chk, name, fn, call, tainted, alternatives, rp, goal, assumptions=()):
    """frame obligation: call(**settings) does not depend on the settings.  First attempt: tainted settings (never read => bitwise independent).
    If the code does read one, fall back to the relational statement: the symbolic results for the alternative values coincide (over the reals)."""
    def attempt():
        try:
            return ("ok", call(**tainted))
        except SettingRead as e:
            return ("read", str(e))
    paths = chk.run_paths(name, attempt, list(assumptions), fn=fn, replay=rp, goal=goal)
    if all(v[0] == "ok" for (_, _, v) in paths):
        for pt, pc, v in paths:
            chk.ground(f"{pt}.independent_of_the_setting", True, fn=fn, goal=goal + "  [setting never read: bitwise]", replay=rp)
        return
    why = next(v[1] for (_, _, v) in paths if v[0] == "read")
    chk.extra.setdefault("settings_read_but_checked_relationally", []).append(f"{name}: {why}")
    ref = None
    n_bad = sum(1 for o in chk.obls if o["verdict"] != "discharged")
    for k, alt in enumerate(alternatives):
        res = chk.run_paths(f"{name}.alternative{k}", lambda alt=alt: call(**alt), list(assumptions), fn=fn, replay=rp, goal=goal)
        vals = [np.array(v, dtype=object) for (_, _, v) in res]
        if ref is None:
            ref = vals
            continue
        if len(vals) != len(ref):
            chk.fail(f"{name}.same_paths[{k}]", f"the path structure depends on the setting ({why})", fn=fn, goal=goal, replay=rp)
            continue
        for i, (x, y) in enumerate(zip(vals, ref)):
            if x.shape != y.shape:
                chk.fail(f"{name}.same_result[{k}].path{i}", f"result shapes differ with the setting ({why})", fn=fn, goal=goal, replay=rp)
            else:
                chk.eq_array(f"{name}.same_result[{k}].path{i}", x, y, fn=fn, goal=goal + "  [setting read: results for different values coincide over the reals]", replay=rp, assumptions=list(assumptions))
    # the summary obligation carries the same name whether the setting is never read or read without effect (a harmless read must not change the obligation set)
    chk.ground(f"{name}.independent_of_the_setting", sum(1 for o in chk.obls if o["verdict"] != "discharged") == n_bad, fn=fn, replay=rp,
               goal=goal + "  [setting read: the results for different values coincide over the reals, see the same_result obligations]", detail=why)


def run(chk):
    import importlib
    from eko.kernels import singlet as s, non_singlet as ns, singlet_qed, valence_qed, non_singlet_qed, EvoMethods
    from eko import scale_variations as sv
    from eko.evolution_operator import Operator, operator_matrix_element as ome_mod
    from eko import couplings as cpl
    from eko.io.types import InversionMethod
    qk = importlib.import_module("eko.evolution_operator.quad_ker")
    ad = importlib.import_module("ekore.anomalous_dimensions.unpolarized.space_like")
    from ekore.anomalous_dimensions.unpolarized.space_like import as1, as2, as3, as4, as1aem1
    from ekore.harmonics import cache as hc

    rp = script(REPLAY, kind="irrelevant_setting_oracle")
    chk.under_contract("eko.kernels.singlet:dispatcher", "eko.kernels.singlet_qed:dispatcher", "eko.kernels.valence_qed:dispatcher",
                       "eko.evolution_operator.quad_ker:quad_ker_ad", "eko.evolution_operator.quad_ker:quad_ker_qcd",
                       "ekore.anomalous_dimensions.unpolarized.space_like:gamma_ns", "ekore.anomalous_dimensions.unpolarized.space_like:gamma_singlet",
                       "ekore.anomalous_dimensions.unpolarized.space_like:gamma_ns_qed", "ekore.anomalous_dimensions.unpolarized.space_like:gamma_singlet_qed",
                       "ekore.anomalous_dimensions.unpolarized.space_like:gamma_valence_qed", "eko.evolution_operator:Operator.compute_aem_list",
                       "eko.couplings:Couplings.compute_exact_alphaem_running", "eko.couplings:Couplings.compute_exact_fixed_alphaem", "eko.couplings:couplings_expanded_alphaem_running",
                       "eko.couplings:couplings_expanded_fixed_alphaem", "eko.couplings:Couplings.a", "eko.evolution_operator.operator_matrix_element:OperatorMatrixElement.__init__",
                       "eko.evolution_operator.quad_ker:build_ome", "eko.runner.parts:match")
    chk.trust("numerical kernels below the dispatchers are functions of exactly the arguments they receive (opaque results; a tainted argument handed to one of them counts as a read)",
              "settings that are read but provably without effect, and the couplings clause (two code paths), are equalities over the reals (A1), not bit patterns")
    chk.uncovered("end-to-end archive comparison (solves); settings consumed by the runner outside the anchored functions (n_integration_cores, debug flags) are not part of the statement")

    a0, a1 = T.var("a0"), T.var("a1")
    G = np.empty((4, 2, 2), dtype=object)
    for k in range(4):
        G[k] = symmat(f"G{k}_", 2)
    g = np.array([T.var(f"g{k}") for k in range(4)], dtype=object)
    ITER, MAXO = Tainted("ev_op_iterations"), Tainted("ev_op_max_order")

    # ---- (a) dispatchers -------------------------------------------------------------------------------------------------------------------
    KERNELS = ("lo_exact", "eko_iterate", "eko_perturbative", "eko_truncated", "nlo_decompose_exact", "nnlo_decompose_exact", "n3lo_decompose_exact",
               "nlo_decompose_expanded", "nnlo_decompose_expanded", "n3lo_decompose_expanded")
    saved = {k: getattr(s, k) for k in KERNELS}
    for k in KERNELS:
        setattr(s, k, (lambda name: (lambda *args: opaque(f"K_{name}", args, 2)))(k))
    try:
        for order in (1, 2, 3, 4):
            for m in EvoMethods:
                iterates = order > 1 and m in (EvoMethods.ITERATE_EXACT, EvoMethods.ITERATE_EXPANDED, EvoMethods.PERTURBATIVE_EXACT, EvoMethods.PERTURBATIVE_EXPANDED)
                perturbative = order > 1 and m in (EvoMethods.PERTURBATIVE_EXACT, EvoMethods.PERTURBATIVE_EXPANDED)
                if iterates and perturbative:
                    continue
                taint, alts = {}, [{}, {}]
                if not iterates:
                    taint["it"], alts[0]["it"], alts[1]["it"] = ITER, 2, 7
                if not perturbative:
                    taint["mo"], alts[0]["mo"], alts[1]["mo"] = MAXO, (2, 0), (5, 0)
                independent(chk, f"C55.singlet_dispatcher[order={order},{m.name}]", "eko.kernels.singlet:dispatcher",
                            lambda it=3, mo=(3, 0): s.dispatcher((order, 0), m, G[:order].copy(), a1, a0, 4, it, mo), taint, alts, rp,
                            goal=f"result independent of {' and '.join(sorted(('ev_op_iterations' if k == 'it' else 'ev_op_max_order') for k in taint))}", assumptions=[a0 > 0, a1 > 0])
                chk.configs += 1
    finally:
        for k, f in saved.items():
            setattr(s, k, f)
    # QED dispatchers: the expansion order never applies
    for mod, nm, dim in ((singlet_qed, "singlet_qed", 4), (valence_qed, "valence_qed", 2)):
        sv_it = mod.eko_iterate
        mod.eko_iterate = lambda *args, dim=dim: opaque("Kq_iterate", args, dim)
        try:
            independent(chk, f"C55.{nm}_dispatcher", f"eko.kernels.{nm}:dispatcher", lambda mo=(3, 0): mod.dispatcher((2, 1), EvoMethods.ITERATE_EXACT, G[:2].copy(), [a0, a1], [a0, a1], 4, 3, mo),
                        {"mo": MAXO}, [{"mo": (2, 0)}, {"mo": (5, 0)}], rp, goal="result independent of ev_op_max_order")
        finally:
            mod.eko_iterate = sv_it

    class KB:
        def __init__(self, **kw):
            self.is_singlet = self.is_QEDsinglet = self.is_QEDvalence = False
            self.n = T.var("N")
            self.__dict__.update(kw)

    VAR, FH = Tainted("n3lo_ad_variation"), Tainted("use_fhmruvv")
    N3ALT = [dict(var=(0,) * 7, fh=True), dict(var=(1, 2, 1, 2, 1, 2, 1), fh=False)]
    LEAVES = {
        as1: ("gamma_ns", "gamma_qg", "gamma_gq", "gamma_gg"),
        as2: ("gamma_nsm", "gamma_nsp", "gamma_ps", "gamma_qg", "gamma_gq", "gamma_gg"),
        as3: ("gamma_nsm", "gamma_nsp", "gamma_nsv", "gamma_ps", "gamma_qg", "gamma_gq", "gamma_gg"),
        as4: ("gamma_nsm", "gamma_nsp", "gamma_nsv", "gamma_ps", "gamma_qg", "gamma_gq", "gamma_gg"),
        as4.fhmruvv: ("gamma_nsm", "gamma_nsp", "gamma_nsv", "gamma_ps", "gamma_qg", "gamma_gq", "gamma_gg"),
        as1aem1: ("gamma_phq", "gamma_qph", "gamma_gph", "gamma_phg", "gamma_qg", "gamma_gq", "gamma_phph", "gamma_gg", "gamma_nsp", "gamma_nsm"),
    }
    saved_l = []

    def leaf(tag):
        def f(*args, **kw):
            allargs = [a for a in list(args) + [kw[k] for k in sorted(kw)] if not (isinstance(a, np.ndarray) and a.dtype != object)]   # the harmonics cache array is dropped
            return opaque(tag, allargs)
        return f

    for mod, names in LEAVES.items():
        short = mod.__name__.split("space_like.")[-1]
        for nm in names:
            saved_l.append((mod, nm, getattr(mod, nm)))
            setattr(mod, nm, leaf(f"{short}.{nm}"))
    saved_l.append((hc, "get", hc.get))
    hc.get = lambda key, cache, n, *a: T.app(f"S_{key}", T.lift(n))
    N = T.var("N")
    try:
        # ---- (b) N3LO settings below N3LO ----------------------------------------------------------------------------------------------------
        base = "ekore.anomalous_dimensions.unpolarized.space_like:"
        gl = "result independent of n3lo_ad_variation and use_fhmruvv below N3LO"
        for order in (1, 2, 3):
            for nf in (3, 4, 5, 6):
                for mode in (10101, 10201, 10200):
                    independent(chk, f"C55.n3lo_settings.gamma_ns[order={order},nf={nf},mode={mode}]", base + "gamma_ns", lambda var=(0,) * 7, fh=True: ad.gamma_ns((order, 0), mode, N, nf, var, fh), dict(var=VAR, fh=FH), N3ALT, rp, gl)
                independent(chk, f"C55.n3lo_settings.gamma_singlet[order={order},nf={nf}]", base + "gamma_singlet", lambda var=(0,) * 7, fh=True: ad.gamma_singlet((order, 0), N, nf, var, fh), dict(var=VAR, fh=FH), N3ALT, rp, gl)
                for qo in (1, 2):
                    independent(chk, f"C55.n3lo_settings.gamma_singlet_qed[order={(order, qo)},nf={nf}]", base + "gamma_singlet_qed", lambda var=(0,) * 7, fh=True: ad.gamma_singlet_qed((order, qo), N, nf, var, fh), dict(var=VAR, fh=FH), N3ALT, rp, gl)
                    independent(chk, f"C55.n3lo_settings.gamma_valence_qed[order={(order, qo)},nf={nf}]", base + "gamma_valence_qed", lambda var=(0,) * 7, fh=True: ad.gamma_valence_qed((order, qo), N, nf, var, fh), dict(var=VAR, fh=FH), N3ALT, rp, gl)
                    for mode in (10102, 10103, 10202, 10203):
                        independent(chk, f"C55.n3lo_settings.gamma_ns_qed[order={(order, qo)},nf={nf},mode={mode}]", base + "gamma_ns_qed", lambda var=(0,) * 7, fh=True: ad.gamma_ns_qed((order, qo), mode, N, nf, var, fh), dict(var=VAR, fh=FH), N3ALT, rp, gl)
                chk.configs += 1
        # quad_ker_qcd: non-singlet sector -- iteration count and expansion order never apply; N3LO settings below N3LO and in the polarised / time-like branches
        sd = (qk.ns.dispatcher, qk.s.dispatcher, qk.ad_ps.gamma_ns, qk.ad_ps.gamma_singlet, qk.ad_ut.gamma_ns, qk.ad_ut.gamma_singlet)
        qk.ns.dispatcher = lambda *args: opaque("E_ns", args)
        qk.s.dispatcher = lambda *args: opaque("E_s", args, 2)
        qk.ad_ps.gamma_ns = lambda o, mode, n, nf: g[: o[0]].copy()
        qk.ad_ps.gamma_singlet = lambda o, n, nf: G[: o[0]].copy()
        qk.ad_ut.gamma_ns = lambda o, mode, n, nf: g[: o[0]].copy()
        qk.ad_ut.gamma_singlet = lambda o, n, nf: G[: o[0]].copy()
        try:
            for order in (1, 2, 3, 4):
                for m in (EvoMethods.ITERATE_EXACT, EvoMethods.TRUNCATED, EvoMethods.PERTURBATIVE_EXACT, EvoMethods.DECOMPOSE_EXPANDED):
                    for mode in (sv.Modes.unvaried, sv.Modes.exponentiated, sv.Modes.expanded):
                        for pol, tl in ((False, False), (True, False), (False, True)):
                            n3 = order == 4 and not pol and not tl
                            for sector, kb, m0, m1 in (("ns", KB(), 10101, 0), ("singlet", KB(is_singlet=True), 100, 21)):
                                taint, alts = {}, [{}, {}]
                                if sector == "ns":
                                    taint.update(it=ITER, mo=MAXO)
                                    alts[0].update(it=2, mo=(2, 0))
                                    alts[1].update(it=7, mo=(5, 0))
                                if not n3:
                                    taint.update(var=VAR, fh=FH)
                                    alts[0].update(N3ALT[0])
                                    alts[1].update(N3ALT[1])
                                if not taint:
                                    continue
                                independent(chk, f"C55.quad_ker_qcd[order={order},{m.name},{mode.name},pol={pol},tl={tl}].{sector}", "eko.evolution_operator.quad_ker:quad_ker_qcd",
                                            lambda it=3, mo=(3, 0), var=(0,) * 7, fh=True: qk.quad_ker_qcd(kb, (order, 0), m0, m1, m, a1, a0, 4, T.var("Lsv"), it, mo, mode, False, pol, tl, var, fh),
                                            taint, alts, rp, goal="result independent of " + ", ".join(sorted({"it": "ev_op_iterations", "mo": "ev_op_max_order", "var": "n3lo_ad_variation", "fh": "use_fhmruvv"}[k] for k in taint)))
                            chk.configs += 1
        finally:
            qk.ns.dispatcher, qk.s.dispatcher, qk.ad_ps.gamma_ns, qk.ad_ps.gamma_singlet, qk.ad_ut.gamma_ns, qk.ad_ut.gamma_singlet = sd
    finally:
        for mod, nm, f in saved_l:
            setattr(mod, nm, f)

    # ---- (c) pure QCD --------------------------------------------------------------------------------------------------------------------------
    sq = (qk.QuadKerBase, qk.quad_ker_qcd, qk.quad_ker_qed)

    class FakeBase:
        def __init__(self, u, is_log, logx, mode0):
            self.n = T.var("N")

        def integrand(self, areas):
            return T.var("integrand")

    qk.QuadKerBase = FakeBase
    qk.quad_ker_qcd = lambda kb, *args: opaque("ker_qcd", args)
    qk.quad_ker_qed = lambda kb, *args: opaque("ker_qed", args)
    try:
        AH, RUN, MF, MT = Tainted("a_half"), Tainted("alphaem_running"), Tainted("mu2_from"), Tainted("mu2_to")
        amid = T.var("amid")
        for order in (1, 2, 3, 4):
            independent(chk, f"C55.quad_ker_ad[order=({order}, 0)]", "eko.evolution_operator.quad_ker:quad_ker_ad",
                        lambda ah=None, run=False, mf=Q(1), mt=Q(2), mid=amid: qk.quad_ker_ad(T.var("u"), (order, 0), 100, 21, EvoMethods.TRUNCATED, True, T.var("logx"), None, [a0, mid, a1], mf, mt, ah, run, 4, T.var("Lsv"), 3, (3, 0),
                                                                                     sv.Modes.unvaried, False, (0,) * 7, False, False, True),
                        dict(ah=AH, run=RUN, mf=MF, mt=MT, mid=Tainted("intermediate entries of as_list")),
                        [dict(ah=np.zeros((1, 2)), run=False, mf=Q(1), mt=Q(2), mid=amid), dict(ah=np.zeros((5, 2)), run=True, mf=Q(3), mt=Q(7), mid=T.var("amid2"))], rp,
                        goal="pure QCD: result independent of a_half, alphaem_running, mu2_from, mu2_to and of the interior of the coupling list")
    finally:
        qk.QuadKerBase, qk.quad_ker_qcd, qk.quad_ker_qed = sq

    # coupling list for pure QCD does not depend on the iteration count
    class FakeCouplings:
        def a(self, scale_to, nf_to):
            return (T.app("a_s", T.lift(scale_to), T.lift(nf_to)), T.app("a_em", T.lift(scale_to), T.lift(nf_to)))

    lists = []
    for iters in (1, 4, 9):
        op = object.__new__(Operator)
        op.config = dict(ModSV=None, xif2=Q(1), order=(2, 0), ev_op_iterations=iters)
        man = type("M", (), {})()
        man.couplings = FakeCouplings()
        op.managers, op.q2_from, op.q2_to, op.is_threshold, op.order, op.nf = man, T.var("q0"), T.var("q1"), False, (2, 0), 4
        op.a = op.compute_a()
        lists.append(op.compute_aem_list()[0])
    for k in (1, 2):
        chk.ground(f"C55.coupling_list_pure_qcd[iterations {(1, 4, 9)[k]} vs 1].length", len(lists[k]) == len(lists[0]) == 2, fn="eko.evolution_operator:Operator.compute_aem_list", replay=rp, goal="pure QCD: two couplings whatever the iteration count")
        chk.eq_array(f"C55.coupling_list_pure_qcd[iterations {(1, 4, 9)[k]} vs 1]", np.array(list(lists[k])[:2], dtype=object), np.array(list(lists[0])[:2], dtype=object), fn="eko.evolution_operator:Operator.compute_aem_list", replay=rp,
                     goal="pure QCD: as_list == [a_s(initial), a_s(final)] whatever the iteration count")

    # couplings: running flag without QED (two code paths: equality over the reals)
    ar = np.array([T.var("as_ref"), T.var("aem_ref")], dtype=object)
    sf, st = T.var("scale_from"), T.var("scale_to")
    hyp = [sf > 0, st > 0, ar[0] > 0, ar[1] > 0]
    RG = {"scale_from": (1.0, 50.0), "scale_to": (1.0, 50.0), "as_ref": (0.01, 0.03), "aem_ref": (0.0005, 0.001)}
    for order in (1, 2, 3, 4):
        for nf in (3, 4, 5, 6):
            for nl in (2, 3):
                r1 = cpl.couplings_expanded_alphaem_running((order, 0), ar.copy(), nf, nl, sf, st, False)
                r2 = cpl.couplings_expanded_fixed_alphaem((order, 0), ar.copy(), nf, sf, st)
                chk.eq_array(f"C55.couplings.expanded[order=({order}, 0),nf={nf},nl={nl}]", np.array(list(r1), dtype=object), np.array(list(r2), dtype=object), fn="eko.couplings:couplings_expanded_alphaem_running", replay=rp,
                             goal="order[1] == 0: (a_s, a_em) with the running flag on == with the flag off", assumptions=hyp, ranges=RG)
    for order in ((1, 0), (2, 0), (3, 0), (4, 0)):
        res = []
        for running in (True, False):
            c = object.__new__(cpl.Couplings)
            c.order, c.method, c.alphaem_running, c.decoupled_running, c.cache = order, "exact", running, False, {}
            rec = []
            c.unidimensional_exact = lambda beta0, b_vec, u, a_ref, method, rtol, rec=rec: (rec.append((method, rtol)), opaque("rge_solution", [beta0, list(b_vec), u, a_ref]))[1]
            out = c.compute_exact_alphaem_running(ar.copy(), 4, 3, sf, st) if running else c.compute_exact_fixed_alphaem(ar.copy(), 4, sf, st)
            res.append((list(out), rec))
        chk.eq_array(f"C55.couplings.exact[order={order}]", np.array(res[0][0], dtype=object), np.array(res[1][0], dtype=object), fn="eko.couplings:Couplings.compute_exact_alphaem_running", replay=rp,
                     goal="order[1] == 0: both branches return the same (a_s, a_em) -- same RGE routine, same arguments", assumptions=hyp, ranges=RG)
        chk.ground(f"C55.couplings.exact[order={order}].solver_settings", res[0][1] == res[1][1], fn="eko.couplings:Couplings.compute_exact_alphaem_running", replay=rp, goal="same integration method and tolerance in both branches")

    # Couplings.a: the walk along the flavour path (incl. the split of a segment at the tau mass) must not depend on the running flag without QED
    from eko import matchings, constants
    for order in ((1, 0), (2, 0), (3, 0), (4, 0)):
        for (q2, nfto) in ((Q(5, 2), 4), (Q(5, 2), 3), (Q(40), 5), (Q(3), 4), (Q(100000), 6)):
            res = []
            for running in (True, False):
                c = object.__new__(cpl.Couplings)
                c.order, c.method, c.alphaem_running, c.decoupled_running, c.cache = order, "expanded", running, False, {}
                c.a_ref = np.array([T.var("as_ref"), T.var("aem_ref")], dtype=object)
                c.thresholds_ratios = [Q(1), Q(1), Q(1)]
                c.atlas = matchings.Atlas([Q(2), Q(81, 4), Q(30000)], (Q(8317), 5))
                c.hqm_scheme = "POLE"
                # contract of compute for order[1] == 0 (clauses above): a function of (a_ref, nf, scale_from, scale_to) -- independent of the lepton number and of the flag
                c.compute = lambda a_ref, nf, nl, sfrom, sto: np.array([opaque("compute_as", [a_ref[0], nf, sfrom, sto]), a_ref[1]], dtype=object)
                res.append(np.array(list(c.a(q2, nfto)), dtype=object))
            chk.eq_array(f"C55.couplings.path_walk[order={order},target=({q2},{nfto})]", res[0], res[1], fn="eko.couplings:Couplings.a", replay=rp,
                         goal="order[1] == 0: Couplings.a walks the same segments (no split at the tau mass) with the running flag on and off", assumptions=hyp, ranges=RG)

    # ---- (d) matching ---------------------------------------------------------------------------------------------------------------------------
    man = type("M", (), {})()
    man.couplings = type("C", (), {"alphaem_running": False})()
    independent(chk, "C55.matching.forward_ignores_inversion_method", "eko.evolution_operator.operator_matrix_element:OperatorMatrixElement.__init__",
                lambda bw=None: [Q(int(ome_mod.OperatorMatrixElement(dict(order=(2, 0), matching_order=(2, 0), backward_inversion=bw, ModSV=None, xif2=Q(1)), man, 4, T.var("q2"), False, T.var("L"), False).backward_method.value))],
                dict(bw=Tainted("backward_inversion")), [dict(bw=InversionMethod.EXACT), dict(bw=InversionMethod.EXPANDED), dict(bw=None)], rp, goal="is_backward False: the matching method does not depend on config['backward_inversion']")
    o = ome_mod.OperatorMatrixElement(dict(order=(2, 0), matching_order=(2, 0), backward_inversion=InversionMethod.EXACT, ModSV=None, xif2=Q(1)), man, 4, T.var("q2"), False, T.var("L"), False)
    chk.ground("C55.matching.forward_method", o.backward_method is qk.MatchingMethods.FORWARD, fn="eko.evolution_operator.operator_matrix_element:OperatorMatrixElement.__init__", goal="is_backward False: FORWARD", replay=rp)
    A = np.empty((3, 3, 3), dtype=object)
    for k in range(3):
        A[k] = symmat(f"A{k}_", 3)
    asv = T.var("a_s")
    for mo in (1, 2, 3):
        want = vnp.np_shim.eye(3) + sum(asv ** (k + 1) * A[k] for k in range(mo))
        chk.eq_array(f"C55.matching.build_ome_forward[order={mo}]", qk.build_ome(A.copy(), (mo, 0), asv, qk.MatchingMethods.FORWARD), want, fn="eko.evolution_operator.quad_ker:build_ome", replay=rp,
                     goal="FORWARD: 1 + sum a_s^k A_k, no inversion of any kind")
    from eko.runner import parts
    from eko.io.items import Matching
    seen_m = {}

    class FakeOME:
        def __init__(self, config, managers, nf, q2, is_backward, L, is_msbar):
            seen_m.update(is_backward=is_backward, nf=nf, q2=q2)
            self.op_members, self.nf = {}, nf

        def compute(self):
            pass

    ek = type("E", (), {})()
    ek.theory_card = type("T", (), {})()
    ek.theory_card.heavy = type("H", (), {})()
    ek.theory_card.heavy.squared_ratios, ek.theory_card.heavy.masses_scheme, ek.theory_card.order = [Q(1), Q(1), Q(1)], None, (2, 0)
    sp = (parts.ome.OperatorMatrixElement, parts._matching_configs, parts._managers, parts.matching_condition.MatchingCondition.split_ad_to_evol_map)
    parts.ome.OperatorMatrixElement, parts._matching_configs, parts._managers = FakeOME, (lambda e: {}), (lambda e: None)
    parts.matching_condition.MatchingCondition.split_ad_to_evol_map = classmethod(lambda cls, *a, **k: type("F", (), {"to_flavor_basis_tensor": lambda self, qed: (0, 0)})())
    try:
        for inv in (True, False):
            parts.match(ek, Matching(T.var("q2"), 5, inv))
            chk.ground(f"C55.matching.match_forwards_inverse[{inv}]", seen_m.get("is_backward") is inv and seen_m.get("nf") == 4, fn="eko.runner.parts:match", goal="is_backward = recipe.inverse, nf = hq - 1", detail=str(seen_m), replay=rp)
    finally:
        parts.ome.OperatorMatrixElement, parts._matching_configs, parts._managers, parts.matching_condition.MatchingCondition.split_ad_to_evol_map = sp
    chk.extra["exhaustive"] = True
