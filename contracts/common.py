"""helpers shared by the contract files"""
from fractions import Fraction as Q

import numpy as np

from pyvc import terms as T
from pyvc.series import Series


def symmat(name, n, m=None):
    m = n if m is None else m
    out = np.empty((n, m), dtype=object)
    for i in range(n):
        for j in range(m):
            out[i, j] = T.var(f"{name}{i}{j}")
    return out


def symvec(name, n):
    out = np.empty(n, dtype=object)
    for i in range(n):
        out[i] = T.var(f"{name}{i}")
    return out


def coeffs_in(expr, var, n):
    """[coefficient of var^k for k < n] of a polynomial Sym expression (by repeated differentiation at 0)."""
    out = []
    cur = T.lift(expr)
    fact = 1
    for k in range(n):
        out.append(T.subst(cur, {var: 0}) * Q(1, fact))
        cur = T.diff(cur, var)
        fact *= k + 1
    return out


def arr_coeffs_in(arr, var, n):
    arr = np.asarray(arr, dtype=object)
    outs = [np.empty(arr.shape, dtype=object) for _ in range(n)]
    for idx in np.ndindex(arr.shape):
        cs = coeffs_in(arr[idx], var, n)
        for k in range(n):
            outs[k][idx] = cs[k]
    return outs


def null_row_matrix(name, dim, tvec):
    """dim x dim symbolic matrix M with v.M = 0 for v = (1, t1, .., t_{dim-1}), imposed by parametrisation:
    row 0 := - sum_{r>=1} t_r row r  (hypothesis-free)."""
    M = symmat(name, dim)
    for j in range(dim):
        acc = T.ZERO
        for r in range(1, dim):
            acc = acc + tvec[r - 1] * M[r, j]
        M[0, j] = -acc
    return M


def fixed_row_matrix(name, dim, tvec):
    """dim x dim symbolic matrix E with v.E = v for v = (1, t...): row 0 := v - sum t_r row r."""
    E = symmat(name, dim)
    v = [T.ONE] + list(tvec)
    for j in range(dim):
        acc = T.ZERO
        for r in range(1, dim):
            acc = acc + tvec[r - 1] * E[r, j]
        E[0, j] = v[j] - acc
    return E


def vdot(tvec, M):
    """v . M for v = (1, t...)"""
    M = np.asarray(M, dtype=object)
    v = [T.ONE] + list(tvec)
    out = []
    for j in range(M.shape[1]):
        acc = T.ZERO
        for r in range(M.shape[0]):
            acc = acc + v[r] * M[r, j]
        out.append(acc)
    return out
