"""helpers shared by the contract files"""
from fractions import Fraction as Q

import numpy as np

from pyvc import terms as T
from pyvc.series import Series


def symmat(name, n, m=None):
    m = n if m is None else m
    out = np.empty((n, m), dtype=object)
    for i in range(n):
        for j in range(m):
            out[i, j] = T.var(f"{name}{i}{j}")
    return out


def symvec(name, n):
    out = np.empty(n, dtype=object)
    for i in range(n):
        out[i] = T.var(f"{name}{i}")
    return out


def coeffs_in(expr, var, n):
    """[coefficient of var^k for k < n] of a polynomial Sym expression (by repeated differentiation at 0)."""
    out = []
    cur = T.lift(expr)
    fact = 1
    for k in range(n):
        out.append(T.subst(cur, {var: 0}) * Q(1, fact))
        cur = T.diff(cur, var)
        fact *= k + 1
    return out


def arr_coeffs_in(arr, var, n):
    arr = np.asarray(arr, dtype=object)
    outs = [np.empty(arr.shape, dtype=object) for _ in range(n)]
    for idx in np.ndindex(arr.shape):
        cs = coeffs_in(arr[idx], var, n)
        for k in range(n):
            outs[k][idx] = cs[k]
    return outs


def null_row_matrix(name, dim, tvec):
    """dim x dim symbolic matrix M with v.M = 0 for v = (1, t1, .., t_{dim-1}), imposed by parametrisation:
    row 0 := - sum_{r>=1} t_r row r  (hypothesis-free)."""
    M = symmat(name, dim)
    for j in range(dim):
        acc = T.ZERO
        for r in range(1, dim):
            acc = acc + tvec[r - 1] * M[r, j]
        M[0, j] = -acc
    return M


def fixed_row_matrix(name, dim, tvec):
    """dim x dim symbolic matrix E with v.E = v for v = (1, t...): row 0 := v - sum t_r row r."""
    E = symmat(name, dim)
    v = [T.ONE] + list(tvec)
    for j in range(dim):
        acc = T.ZERO
        for r in range(1, dim):
            acc = acc + tvec[r - 1] * E[r, j]
        E[0, j] = v[j] - acc
    return E


def vdot(tvec, M):
    """v . M for v = (1, t...)"""
    M = np.asarray(M, dtype=object)
    v = [T.ONE] + list(tvec)
    out = []
    for j in range(M.shape[1]):
        acc = T.ZERO
        for r in range(M.shape[0]):
            acc = acc + v[r] * M[r, j]
        out.append(acc)
    return out


def abstract_stages(code, stages, rng, digits=50):
    """Lemma extraction for nested compositions (keeps each normal-form query small whatever the code's way of writing an expression).

    stages: [(S_j, y_j)] in order, S_j a fresh variable, y_j the specification of the j-th intermediate value written over the inputs and S_(j-1).
    For each stage, the sub-terms of `code` whose 50-digit fingerprint at a random point equals that of y_j are candidates; the first one PROVED equal to y_j by
    the exact normal form is replaced by S_j (congruence: equals may be substituted for equals).  Returns the abstracted code term; nothing is assumed -- if no
    sub-term can be proved equal the term is returned unchanged and the caller's obligation decides (possibly slowly)."""
    from fractions import Fraction as Q
    from pyvc import terms as T, poly as P

    code = T.lift(code)
    env = {}
    names = set(T.free_vars(code))
    for _, y in stages:
        names |= set(T.free_vars(T.lift(y)))
    stage_names = {T._varname(S) for S, _ in stages}
    for v in sorted(names - stage_names):
        env[v] = Q(rng.randint(100, 900), 1000)
    for S, y in stages:
        try:
            val = T.evalmp(T.lift(y), env, digits)
        except Exception:  # noqa: BLE001
            return code
        env[T._varname(S)] = val
        seen, stack, cands = set(), [code.n], []
        while stack:
            n = stack.pop()
            if n in seen:
                continue
            seen.add(n)
            stack.extend(T.children(n))
            if T._nodes[n][0] in ("c", "v"):
                continue
            try:
                v = T.evalmp(T.Sym(n), env, digits)
            except Exception:  # noqa: BLE001
                continue
            if abs(v - val) <= abs(val) * 10 ** (-(digits - 10)) + 10 ** (-(digits - 5)):
                cands.append(n)
        for n in sorted(cands, key=lambda n_: -T.dag_size(T.Sym(n_))):
            try:
                ok, _ = P.prove_zero(T.Sym(n) - T.lift(y), P.NFContext())
            except Exception:  # noqa: BLE001
                ok = False
            if ok:
                code = T.subst(code, {}, nodes={n: S})
                break
    return code


def expand_stages(expr, stages):
    """put the definitions of the lemma variables back (latest first): used on the specification side for stages no sub-term of the code was matched with"""
    from pyvc import terms as T

    expr = T.lift(expr)
    for S, y in reversed(stages):
        if T._varname(S) in T.free_vars(expr):
            expr = T.subst(expr, {T._varname(S): T.lift(y)})
    return expr
