"""Ghost file system for the IO contracts (C38, C39).

The real functions of eko.io (EKO.close / dump / __exit__, Builder, Inventory.__setitem__, InternalPaths.bootstrap ...) run unmodified; the objects they
reach the file system through -- pathlib.Path, tarfile, shutil, tempfile, builtin open -- are replaced by the classes below, whose *assumed call contracts*
are the usual POSIX ones:
  * every operation that touches the disk first passes a fault point (it may raise OSError there and then has had no effect), then takes effect atomically;
  * tarfile.open(p, "w") truncates/creates p at once (an *incomplete* archive), TarFile.add appends, closing the TarFile makes the archive complete;
    leaving the `with` block by an exception closes the file but leaves it incomplete;
  * Path.replace / rename is atomic; unlink removes; write_text / open(.., "w"|"wb") create or truncate, then write on close.
File contents are abstract tokens, so a statement proved here holds for every content.
"""
import io


class Fault(OSError):
    pass


class Interrupt(KeyboardInterrupt):
    """an interruption of the process (Ctrl-C, a signal handler raising SystemExit ...): not an Exception subclass"""


INCOMPLETE = "<incomplete archive>"


class FS:
    def __init__(self):
        self.files = {}       # path -> content token
        self.dirs = {"/", "/tmp", "/out"}
        self.count = 0
        self.fail_at = None
        self.fault_class = Fault
        self.log = []         # (operation, path) of every disk-changing operation that took effect
        self.tmp_n = 0

    # -- fault points ------------------------------------------------------------------------------------
    def tick(self, op, path):
        self.count += 1
        if self.fail_at is not None and self.count == self.fail_at:
            raise self.fault_class(f"injected {'fault' if self.fault_class is Fault else 'interruption'} at file-system operation #{self.count}: {op} {path}")

    def effect(self, op, path):
        self.log.append((op, str(path)))

    def snapshot(self, root):
        root = str(root).rstrip("/")
        return tuple(sorted((p[len(root):], c) for p, c in self.files.items() if p.startswith(root + "/")))

    def clone_state(self):
        return dict(self.files), set(self.dirs)


class GPath:
    def __init__(self, fs, path):
        self.fs, self.p = fs, str(path) if str(path) == "/" else str(path).rstrip("/")

    # pure path algebra
    def __truediv__(self, other):
        return GPath(self.fs, self.p.rstrip("/") + "/" + str(other))

    def __str__(self):
        return self.p

    __fspath__ = __str__

    def __repr__(self):
        return f"GPath({self.p!r})"

    def __eq__(self, o):
        return isinstance(o, GPath) and o.p == self.p

    def __hash__(self):
        return hash(self.p)

    @property
    def name(self):
        return self.p.rsplit("/", 1)[-1]

    @property
    def parent(self):
        return GPath(self.fs, self.p.rsplit("/", 1)[0] or "/")

    @property
    def suffix(self):
        n = self.name
        return n[n.rindex("."):] if "." in n.strip(".") else ""

    @property
    def suffixes(self):
        n = self.name.lstrip(".")
        return ["." + s for s in n.split(".")[1:]]

    @property
    def stem(self):
        n = self.name
        return n[: n.rindex(".")] if "." in n.strip(".") else n

    def with_name(self, name):
        return self.parent / name

    def with_suffix(self, suffix):
        return self.parent / (self.stem + suffix)

    def resolve(self):
        return self

    def absolute(self):
        return self

    # queries (no fault points: reads do not change the disk)
    def exists(self):
        return self.p in self.fs.files or self.p in self.fs.dirs

    def is_file(self):
        return self.p in self.fs.files

    def is_dir(self):
        return self.p in self.fs.dirs

    def iterdir(self):
        pre = self.p.rstrip("/") + "/"
        names = {p[len(pre):].split("/", 1)[0] for p in list(self.fs.files) + list(self.fs.dirs) if p.startswith(pre) and p != pre}
        return [GPath(self.fs, pre + n) for n in sorted(names)]

    def read_text(self, encoding=None):
        if self.p not in self.fs.files:
            raise FileNotFoundError(self.p)
        return self.fs.files[self.p]

    # disk-changing operations
    def write_text(self, text, encoding=None):
        self.fs.tick("write_text", self.p)
        if self.parent.p not in self.fs.dirs:
            raise FileNotFoundError(self.p)
        self.fs.files[self.p] = text
        self.fs.effect("write_text", self.p)

    def mkdir(self, parents=False, exist_ok=False):
        self.fs.tick("mkdir", self.p)
        if self.p in self.fs.dirs:
            if exist_ok:
                return
            raise FileExistsError(self.p)
        self.fs.dirs.add(self.p)
        self.fs.effect("mkdir", self.p)

    def rmdir(self):
        self.fs.tick("rmdir", self.p)
        self.fs.dirs.discard(self.p)
        self.fs.effect("rmdir", self.p)

    def unlink(self, missing_ok=False):
        self.fs.tick("unlink", self.p)
        if self.p not in self.fs.files:
            if missing_ok:
                return
            raise FileNotFoundError(self.p)
        del self.fs.files[self.p]
        self.fs.effect("unlink", self.p)

    def replace(self, target):
        self.fs.tick("replace", self.p)
        if self.p not in self.fs.files:
            raise FileNotFoundError(self.p)
        self.fs.files[str(target)] = self.fs.files.pop(self.p)
        self.fs.effect("replace", str(target))
        return GPath(self.fs, str(target))

    rename = replace

    def open(self, mode="r", **kw):
        return ghost_open(self.fs)(self, mode, **kw)


class _GhostFile(io.BytesIO):
    def __init__(self, fs, path, text):
        super().__init__()
        self.fs_, self.path_, self.text_ = fs, path, text

    def write(self, data):
        return super().write(data if isinstance(data, (bytes, bytearray)) else str(data).encode())

    def close(self):
        if not self.closed:
            self.fs_.files[self.path_] = ("text:" if self.text_ else "bytes:") + super().getvalue().decode(errors="replace")
        super().close()


def ghost_open(fs):
    def _open(path, mode="r", **kw):
        p = str(path)
        if "w" in mode:
            fs.tick("open-for-writing", p)
            if GPath(fs, p).parent.p not in fs.dirs:
                raise FileNotFoundError(p)
            fs.files[p] = INCOMPLETE
            fs.effect("open-for-writing", p)
            return _GhostFile(fs, p, "b" not in mode)
        if p not in fs.files:
            raise FileNotFoundError(p)
        c = fs.files[p]
        return io.BytesIO(c.encode()) if "b" in mode else io.StringIO(c)
    return _open


class _GhostTar:
    def __init__(self, fs, archive, mode):
        self.fs, self.archive, self.mode, self.members = fs, str(archive), mode, []

    def __enter__(self):
        return self

    def add(self, path, arcname=None):
        self.fs.tick("tar.add", self.archive)
        if str(path) not in self.fs.dirs:
            raise FileNotFoundError(str(path))
        self.members.append(self.fs.snapshot(path))
        self.fs.effect("tar.add", self.archive)

    def __exit__(self, et, ev, tb):
        if et is None:
            self.fs.tick("tar.close", self.archive)
            self.fs.files[self.archive] = ("TAR", tuple(self.members))
            self.fs.effect("tar.close", self.archive)
        return False

    def getmembers(self):
        return []

    def extractall(self, path, members=None, numeric_owner=False):
        self.fs.tick("tar.extractall", str(path))
        content = self.fs.files[self.archive]
        self.fs.dirs.add(str(path))
        if isinstance(content, tuple):
            for snap in content[1]:
                for rel, c in snap:
                    self.fs.files[str(path) + rel] = c
        self.fs.effect("tar.extractall", str(path))


class GhostTarfile:
    def __init__(self, fs):
        self.fs = fs

    def open(self, archive, mode="r"):
        archive = str(archive)
        if "w" in mode:
            self.fs.tick("tar.open-for-writing", archive)
            self.fs.files[archive] = INCOMPLETE
            self.fs.effect("tar.open-for-writing", archive)
        elif archive not in self.fs.files:
            raise FileNotFoundError(archive)
        return _GhostTar(self.fs, archive, mode)


class GhostShutil:
    def __init__(self, fs):
        self.fs = fs

    def rmtree(self, path, ignore_errors=False):
        p = str(path)
        self.fs.tick("rmtree", p)
        for f in [f for f in self.fs.files if f.startswith(p + "/")]:
            del self.fs.files[f]
        for d in [d for d in self.fs.dirs if d == p or d.startswith(p + "/")]:
            self.fs.dirs.discard(d)
        self.fs.effect("rmtree", p)

    def copytree(self, src, dst):
        s, d = str(src), str(dst)
        self.fs.tick("copytree", d)
        self.fs.dirs.add(d)
        for f, c in list(self.fs.files.items()):
            if f.startswith(s + "/"):
                self.fs.files[d + f[len(s):]] = c
        for x in list(self.fs.dirs):
            if x.startswith(s + "/"):
                self.fs.dirs.add(d + x[len(s):])
        self.fs.effect("copytree", d)

    def move(self, src, dst):
        return GPath(self.fs, str(src)).replace(dst)


class GhostTempfile:
    def __init__(self, fs):
        self.fs = fs

    def mkdtemp(self, prefix="tmp", dir=None):
        self.fs.tick("mkdtemp", prefix)
        self.fs.tmp_n += 1
        p = f"{dir or '/tmp'}/{prefix}{self.fs.tmp_n}"
        self.fs.dirs.add(p)
        self.fs.effect("mkdtemp", p)
        return p

    def NamedTemporaryFile(self, *a, **k):
        raise NotImplementedError("ghost tempfile: NamedTemporaryFile")


class GhostOs:
    """the few os functions an implementation may use for atomic replacement"""

    def __init__(self, fs, real):
        self.fs, self.real = fs, real
        self.path = real.path
        self.PathLike = real.PathLike

    def replace(self, src, dst):
        GPath(self.fs, str(src)).replace(str(dst))

    rename = replace

    def remove(self, p):
        GPath(self.fs, str(p)).unlink()

    unlink = remove

    def fspath(self, p):
        return str(p)

    def __getattr__(self, k):
        return getattr(self.real, k)


def install(fs, struct_mod, inventory_mod, metadata_mod):
    """patch the module-level names through which eko.io reaches the disk; returns an undo function"""
    saved = []

    def setm(mod, name, val):
        saved.append((mod, name, getattr(mod, name, _MISSING)))
        setattr(mod, name, val)

    setm(struct_mod, "tarfile", GhostTarfile(fs))
    setm(struct_mod, "shutil", GhostShutil(fs))
    setm(struct_mod, "tempfile", GhostTempfile(fs))
    setm(struct_mod, "Path", lambda p: p if isinstance(p, GPath) else GPath(fs, p))
    if hasattr(struct_mod, "os"):
        setm(struct_mod, "os", GhostOs(fs, struct_mod.os))
    setm(inventory_mod, "open", ghost_open(fs))
    setm(metadata_mod, "open", ghost_open(fs))

    def undo():
        for mod, name, val in reversed(saved):
            if val is _MISSING:
                delattr(mod, name)
            else:
                setattr(mod, name, val)
    return undo


_MISSING = object()
