"""Contract of ekore.harmonics.polygamma.cern_polygamma used by the ekore contracts (C24, C25).

cern_polygamma(z, k) is replaced by the mathematical polygamma function psi^(k)(z) in a *normalised* form, which makes the functional identities of the
harmonic sums decidable by the polynomial normal form:
  * symbolic argument z = e + d (d the rational constant part, e without constant part): reduced with the recurrence
        psi^(k)(z + 1) = psi^(k)(z) + (-1)^k k! / z^(k+1)
    to the canonical atom polygamma_k(e + r), r in (0, 1];
  * concrete positive integer / half-integer argument: the closed forms
        psi(n)        = -gamma_E + H_(n-1),              psi^(k)(n)     = (-1)^(k+1) k! (zeta(k+1) - H_(n-1)^(k+1))
        psi(n + 1/2)  = -gamma_E - 2 ln 2 + sum_(j<=n) 2/(2j-1),
        psi^(k)(n+1/2)= (-1)^(k+1) k! ((2^(k+1) - 1) zeta(k+1) - 2^(k+1) sum_(j<=n) 1/(2j-1)^(k+1))
    in the atoms euler_gamma, ln(2), zeta2..zeta7 (the same atoms the repository constants become).
Trusted: these textbook identities (Abramowitz-Stegun 6.3, 6.4); that the *numerical* cern_polygamma agrees with psi^(k) is a floating-point statement (not claimed).
"""
import sys
from fractions import Fraction as Q
from math import factorial

from pyvc import terms as T


def _const_part(z):
    """(e, d): z = e + d with d rational and e free of a constant term, for z polynomial in its variables"""
    vs = sorted(T.free_vars(z))
    d = T.subst(z, {v: 0 for v in vs})
    if not (isinstance(d, T.Sym) and d.is_const()):
        return z, Q(0)
    d = d.const()
    return z - d, d


def polygamma(z, k):
    k = int(k)
    if isinstance(z, T.Sym) and z.is_const():
        z = z.const()
    if isinstance(z, (int, Q)):
        z = Q(z)
        if z <= 0 or z.denominator not in (1, 2):
            return T.app(f"polygamma{k}", T.lift(z))
        if z.denominator == 1:
            n = int(z)
            if k == 0:
                return -T.app("euler_gamma") + sum((Q(1, j) for j in range(1, n)), Q(0))
            h = sum((Q(1, j ** (k + 1)) for j in range(1, n)), Q(0))
            return (-1) ** (k + 1) * factorial(k) * (T.app(f"zeta{k + 1}") - h)
        n = int(z - Q(1, 2))
        if k == 0:
            return -T.app("euler_gamma") - 2 * T.app("ln", T.lift(Q(2))) + sum((Q(2, 2 * j - 1) for j in range(1, n + 1)), Q(0))
        h = sum((Q(1, (2 * j - 1) ** (k + 1)) for j in range(1, n + 1)), Q(0))
        return (-1) ** (k + 1) * factorial(k) * ((2 ** (k + 1) - 1) * T.app(f"zeta{k + 1}") - 2 ** (k + 1) * h)
    z = T.lift(z)
    e, d = _const_part(z)
    # shift d into (0, 1]
    m = 0
    while d - m > 1:
        m += 1
    while d - m <= 0:
        m -= 1
    r = d - m
    base = T.app(f"polygamma{k}", e + r)
    c = (-1) ** k * factorial(k)
    if m > 0:      # psi(w + m) = psi(w) + c * sum_{i<m} 1/(w+i)^(k+1)
        for i in range(m):
            base = base + c / (e + r + i) ** (k + 1)
    elif m < 0:    # psi(w - |m|) = psi(w) - c * sum_{i=1..|m|} 1/(w-i)^(k+1)
        for i in range(1, -m + 1):
            base = base - c / (e + r - i) ** (k + 1)
    return base


def install():
    """replace cern_polygamma in every loaded ekore module; returns the undo function"""
    import importlib
    pg = importlib.import_module("ekore.harmonics.polygamma")
    importlib.import_module("ekore.harmonics")
    real = pg.cern_polygamma
    patched = []
    for name, mod in list(sys.modules.items()):
        if name.startswith("ekore") and getattr(mod, "cern_polygamma", None) is real:
            patched.append(mod)
            mod.cern_polygamma = polygamma

    def undo():
        for mod in patched:
            mod.cern_polygamma = real
    return undo
