import pathlib, sys, numpy as np, copy
from ekobox.cards import example
from eko.runner.managed import solve
from eko.io.struct import EKO
from eko.io.types import ScaleVariationsMethod
from eko.quantities.heavy_quarks import QuarkMassRef
from eko.interpolation import XGrid
import eko
def run(mu2s, nf, xif, mod):
    th = example.theory(); op = example.operator()
    th.order=(2,0); th.xif = xif
    op.init=(1.65,4)
    op.mugrid=[(float(np.sqrt(m)),nf) for m in mu2s]
    op.xgrid=XGrid([1e-2,0.1,0.5,1.0])
    op.configs.scvar_method=mod
    op.configs.interpolation_polynomial_degree=1
    p=pathlib.Path("o.tar")
    if p.exists(): p.unlink()
    solve(th,op,p)
    out={}
    with EKO.read(p) as e:
        for (m,n),o in e.items():
            out[m]=o.operator.copy()
    p.unlink()
    return out
th = example.theory()
mb2 = th.heavy.masses.b.value**2*th.heavy.matching_ratios.b**2
print("mb2",mb2)
for mod in (ScaleVariationsMethod.EXPANDED,):
    r = run([mb2, mb2*(1-1e-6), mb2*(1-1e-7)], 4, 2.0, mod)
    ks=sorted(r)
    for k in ks: print(k, np.abs(r[k]).max())
    print("diff on-wall vs 1e-7 inside:", np.abs(r[ks[-1]]-r[ks[-2]]).max(), " 1e-7 vs 1e-6 inside:", np.abs(r[ks[0]]-r[ks[1]]).max())
