import numpy as np, importlib
from eko.couplings import Couplings
from eko.quantities.couplings import CouplingsInfo, CouplingEvolutionMethod
from eko.quantities.heavy_quarks import QuarkMassScheme
from eko.evolution_operator import Operator
from eko.io.types import ScaleVariationsMethod as SVM
from eko import scale_variations as sv
from eko.kernels import EvoMethods
qk = importlib.import_module("eko.evolution_operator.quad_ker")

class KB:
    def __init__(self, **kw):
        self.is_singlet = self.is_QEDsinglet = self.is_QEDvalence = False
        self.n = 2.7 + 0.3j
        self.__dict__.update(kw)

def kernel(order, modsv, xif2, alphas, running=True, thr=False, iters=4):
    ci = CouplingsInfo.from_dict(dict(alphas=alphas, alphaem=0.007496, ref=(91.2, 5), em_running=running))
    masses = [2.0, 4.5**2, 173.0**2]
    ratios = np.array([1.0, 1.0, 1.0]) * (xif2 if modsv is SVM.EXPONENTIATED else 1.0)
    c = Couplings(ci, order, CouplingEvolutionMethod.EXACT, masses, QuarkMassScheme.POLE, ratios)
    op = object.__new__(Operator)
    op.config = dict(order=order, ModSV=modsv, xif2=xif2, ev_op_iterations=iters)
    man = type("M", (), {})(); man.couplings = c
    op.managers, op.nf, op.q2_from, op.q2_to, op.is_threshold, op.order = man, 5, 30.0**2, 80.0**2, thr, order
    op.alphaem_running = running
    op.a = op.compute_a()
    as_list, a_half = op.compute_aem_list()
    mode = sv.sv_mode(modsv)
    L = np.log(xif2)
    out = {}
    if order[1] == 0:
        out["ns"] = qk.quad_ker_qcd(KB(), order, 10101, 0, EvoMethods.ITERATE_EXACT, as_list[-1], as_list[0], 5, L, iters, (3,0), mode, thr, False, False, (0,)*7, False)
        out["s"] = qk.quad_ker_qcd(KB(is_singlet=True), order, 100, 21, EvoMethods.ITERATE_EXACT, as_list[-1], as_list[0], 5, L, iters, (3,0), mode, thr, False, False, (0,)*7, False)
    else:
        args = (EvoMethods.ITERATE_EXACT, as_list, op.q2_from, op.q2_to, a_half, running, 5, L, iters, (3,0), mode, thr, (0,)*7, False)
        out["ns"] = qk.quad_ker_qed(KB(), order, 10102, 0, *args)
        out["s"] = qk.quad_ker_qed(KB(is_QEDsinglet=True), order, 100, 21, *args)
        out["v"] = qk.quad_ker_qed(KB(is_QEDvalence=True), order, 10200, 10200, *args)
    return out

for order in ((2,0),(3,0),(2,1),(3,1),(3,2)):
    for modsv in (SVM.EXPANDED, SVM.EXPONENTIATED):
        for running in ((True,False) if order[1] else (True,)):
            rows = {}
            for lam in (1/8,1/16,1/32,1/64):
                c0 = kernel(order, None, 1.0, 0.118*lam, running)
                c1 = kernel(order, modsv, 4.0, 0.118*lam, running)
                for k in c0:
                    rows.setdefault(k, []).append(abs(c1[k]-c0[k])/max(abs(c0[k]),1e-3))
            for k,v in rows.items():
                slope = np.log2(v[0]/v[-1])/3
                print(order, modsv.value, "running" if running else "fixed", k, "rel diff", ["%.2e"%x for x in v], "slope %.2f"%slope, "" if slope>order[0]-0.3 else "<-- below n")
