"""F28: time-like NNLO valence anomalous dimension has the ns- part with the wrong sign.
run: NUMBA_DISABLE_JIT=1 /venv/bin/python findings/F28_timelike_nsv_demo.py     (exit 1 = defect present)"""
import sys

import numpy as np

import ekore.anomalous_dimensions.unpolarized.time_like as tl
import ekore.anomalous_dimensions.unpolarized.space_like as sl

bad = []
for nf in (3, 4, 5):
    for N in (10.0, 100.0, 2.0**17):
        nsm, nsv = (tl.gamma_ns((3, 0), m, complex(N), nf)[2].real for m in (10201, 10200))
        ssm, ssv = (sl.gamma_ns((3, 0), m, complex(N), nf, (0,) * 7, False)[2].real for m in (10201, 10200))
        # valence - minus is the d_abc d^abc sea part, which decays for large N (space-like: yes)
        print(f"nf={nf} N={N:g}: time-like ns- {nsm:+.4f} nsV {nsv:+.4f} | space-like ns- {ssm:+.4f} nsV {ssv:+.4f}")
        if abs(nsv - nsm) > 0.05 * abs(nsm):
            bad.append((nf, N))
    f = lambda n: tl.gamma_ns((3, 0), 10200, complex(n), nf)[2].real
    print(f"   d gamma_nsV / d ln N at N=2^17: {(f(2.0**18) - f(2.0**17)) / np.log(2):.4f}   (A_3 = {1174.898 - 183.187 * nf - 64 / 81 * nf**2:.4f})")
print("DEFECT: time-like NNLO gamma_nsv ~ -gamma_nsm" if bad else "ok")
sys.exit(1 if bad else 0)
