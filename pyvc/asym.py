"""Asymptotic-expansion domain: a value of the term IR expanded for one real variable N -> +infinity.

    value  =  sum_{i < prec}  eps^i  sum_j  L^j  c_ij   +  O(eps^prec L^*),        eps = 1/N,  L = ln N

with c_ij sparse polynomials (pyvc.poly) over generators free of N (rational numbers, euler_gamma, zeta_k, ln 2, other variables such as nf).  The
expansion is computed compositionally from the term the REAL code produced: +, *, /, integer powers are exact operations on truncated series with
tracked precision; the only analytic input is the contract of the special functions (Abramowitz-Stegun 6.3.18, 6.4.11), for z = a N + b, a > 0:

    psi(z)      ~  ln z - 1/(2z) - sum_{n>=1} B_2n / (2n z^2n)
    psi^(k)(z)  ~  (-1)^(k+1) [ (k-1)!/z^k + k!/(2 z^(k+1)) + sum_{n>=1} B_2n (2n+k-1)!/((2n)! z^(2n+k)) ]
    ln z         =  L + ln a + ln(1 + b/(a N))

Zero tests on coefficients are exact polynomial identities; a series whose precision does not reach the requested order raises Unsupported
(never a wrong coefficient).  Trusted: the two asymptotic series above (textbook), valid for N -> +infinity along the real axis.
"""
from fractions import Fraction as Q
from math import factorial

from . import poly as P
from . import terms as T
from .terms import Unsupported

K0 = 10  # working precision (powers of eps kept for exact inputs)


def _bernoulli(m):
    B = [Q(1)]
    for n in range(1, m + 1):
        B.append(-sum(Q(factorial(n + 1), factorial(k) * factorial(n + 1 - k)) * B[k] for k in range(n)) / (n + 1))
    return B


_B = _bernoulli(2 * K0 + 4)


def _minp(a, b):
    if a is None:
        return b
    if b is None:
        return a
    return min(a, b)


class Asym:
    __slots__ = ("c", "prec")

    def __init__(self, c=None, prec=None):
        self.prec = prec
        self.c = {k: v for k, v in (c or {}).items() if v and (prec is None or k[0] < prec)}

    # ---- structure
    def val(self):
        """lower bound of the eps-valuation (exact for the stored part)"""
        if self.c:
            return min(i for i, _ in self.c)
        return self.prec if self.prec is not None else 10**6

    def is_exact_zero(self):
        return not self.c and self.prec is None

    def is_const(self):
        return self.prec is None and all(k == (0, 0) for k in self.c)

    def const_poly(self):
        return self.c.get((0, 0), {})

    def rational(self):
        """the rational number this is, or None"""
        if not self.is_const():
            return None
        p = self.const_poly()
        if not p:
            return Q(0)
        if list(p) == [()]:
            return p[()]
        return None

    def coeff(self, i, j):
        if self.prec is not None and i >= self.prec:
            raise Unsupported(f"asymptotic expansion known only below eps^{self.prec}, eps^{i} requested")
        return self.c.get((i, j), {})

    def lpowers(self, i):
        return sorted(j for (ii, j) in self.c if ii == i)

    # ---- ring operations
    def __add__(self, o):
        prec = _minp(self.prec, o.prec)
        c = dict(self.c)
        for k, v in o.c.items():
            c[k] = P.p_add(c[k], v) if k in c else v
        return Asym(c, prec)

    def __neg__(self):
        return Asym({k: P.p_neg(v) for k, v in self.c.items()}, self.prec)

    def __sub__(self, o):
        return self + (-o)

    def scale(self, q):
        return Asym({k: P.p_scale(v, Q(q)) for k, v in self.c.items()}, self.prec)

    def __mul__(self, o):
        if self.is_exact_zero() or o.is_exact_zero():
            return Asym()
        pa = None if self.prec is None else self.prec + o.val()
        pb = None if o.prec is None else o.prec + self.val()
        prec = _minp(pa, pb)
        c = {}
        for (i1, j1), v1 in self.c.items():
            for (i2, j2), v2 in o.c.items():
                i = i1 + i2
                if prec is not None and i >= prec:
                    continue
                k = (i, j1 + j2)
                pr = P.p_mul(v1, v2)
                c[k] = P.p_add(c[k], pr) if k in c else pr
        return Asym(c, prec)

    def shift(self, m):
        """multiply by eps^m"""
        return Asym({(i + m, j): v for (i, j), v in self.c.items()}, None if self.prec is None else self.prec + m)

    def _leading(self):
        """(v, c0): the value is c0 eps^v (1 + u), c0 a non-zero rational, u = O(eps)"""
        if not self.c:
            raise Unsupported("asymptotic expansion: leading term of a series that vanishes to the known order")
        v = self.val()
        lead = {j: p for (i, j), p in self.c.items() if i == v}
        if set(lead) != {0} or list(lead[0]) != [()]:
            raise Unsupported("asymptotic expansion: the leading term of a divisor / logarithm argument is not a rational multiple of a power of N")
        return v, lead[0][()]

    def _unit_part(self):
        v, c0 = self._leading()
        u = self.shift(-v).scale(1 / c0) - ONE
        if u.is_exact_zero():
            return v, c0, u
        if u.prec is None:
            u = Asym(u.c, K0 + 1)
        if u.c and u.val() < 1:
            raise Unsupported("asymptotic expansion: unit part does not start at eps^1")
        return v, c0, u

    def inv(self):
        v, c0, u = self._unit_part()
        if u.is_exact_zero():
            return Asym({(-v, 0): P.p_const(1 / c0)})
        # 1/(1+u) = sum (-u)^n, u = O(eps)
        tot, pw = Asym({(0, 0): P.p_const(1)}, u.prec), Asym({(0, 0): P.p_const(1)}, None)
        for n in range(1, (u.prec or K0) + 2):
            pw = pw * (-u)
            if not pw.c:
                break
            tot = tot + pw
        return tot.shift(-v).scale(1 / c0)

    def log(self):
        v, c0, u = self._unit_part()
        if c0 <= 0:
            raise Unsupported("asymptotic expansion: logarithm of a quantity that is negative for large N")
        tot, pw = Asym({}, u.prec), Asym({(0, 0): P.p_const(1)}, None)
        for n in range(1, (u.prec or K0) + 2):
            pw = pw * u
            if not pw.c:
                break
            tot = tot + pw.scale(Q((-1) ** (n + 1), n))
        if v:
            tot = tot + Asym({(0, 1): P.p_const(-v)})
        if c0 != 1:
            tot = tot + Asym({(0, 0): _const_poly(T.app("ln", T.const(c0)))})
        return tot

    def pow(self, k):
        if k == 0:
            return ONE
        base = self if k > 0 else self.inv()
        r = None
        for _ in range(abs(k)):
            r = base if r is None else r * base
        return r


ONE = Asym({(0, 0): P.p_const(1)})


def _const_poly(sym):
    r = P.to_rf(sym)
    if r.den:
        raise Unsupported("asymptotic expansion: N-free coefficient with a symbolic denominator")
    return r.num


def _polygamma(k, z):
    lin = {kk for kk in z.c}
    if z.prec is not None or not lin <= {(-1, 0), (0, 0)} or (-1, 0) not in z.c:
        raise Unsupported("asymptotic contract of polygamma needs an argument a N + b")
    v, a = z._leading()
    if a <= 0:
        raise Unsupported("asymptotic contract of polygamma needs a > 0")
    w = z.inv()  # 1/z, O(eps)
    wp = {0: ONE}

    def wpow(m):
        if m not in wp:
            wp[m] = wpow(m - 1) * w
        return wp[m]

    top = K0
    if k == 0:
        tot = z.log() - w.scale(Q(1, 2))
        n = 1
        while 2 * n <= top:
            tot = tot - wpow(2 * n).scale(_B[2 * n] / (2 * n))
            n += 1
        return Asym(tot.c, _minp(tot.prec, top + 1))
    tot = wpow(k).scale(factorial(k - 1)) + wpow(k + 1).scale(Q(factorial(k), 2))
    n = 1
    while 2 * n + k <= top:
        tot = tot + wpow(2 * n + k).scale(_B[2 * n] * Q(factorial(2 * n + k - 1), factorial(2 * n)))
        n += 1
    tot = tot.scale((-1) ** (k + 1))
    return Asym(tot.c, _minp(tot.prec, top + 1))


def expand(sym, var="N"):
    """Asym of a term of the IR in the variable `var` -> +infinity"""
    memo = {}
    nodes = T._nodes

    def go(n):
        r = memo.get(n)
        if r is not None:
            return r
        t = nodes[n]
        op = t[0]
        if op == "c":
            r = Asym({(0, 0): P.p_const(t[1])})
        elif op == "v":
            r = Asym({(-1, 0): P.p_const(1)}) if t[1] == var else Asym({(0, 0): _const_poly(T.Sym(n))})
        elif op == "+":
            r = go(t[1]) + go(t[2])
        elif op == "*":
            r = go(t[1]) * go(t[2])
        elif op == "/":
            r = go(t[1]) * go(t[2]).inv()
        elif op == "neg":
            r = -go(t[1])
        elif op == "^":
            r = go(t[1]).pow(int(t[2]))
        elif op == "app":
            f, args = t[1], [go(a) for a in t[2]]
            if all(a.is_const() for a in args):
                r = Asym({(0, 0): _const_poly(T.Sym(n))})
            elif f.startswith("polygamma") and f[9:].isdigit() and len(args) == 1:
                r = _polygamma(int(f[9:]), args[0])
            elif f == "ln" and len(args) == 1:
                r = args[0].log()
            else:
                raise Unsupported(f"asymptotic expansion: no contract for {f} of an N-dependent argument")
        else:
            raise Unsupported(f"asymptotic expansion: {op}")
        memo[n] = r
        return r

    return go(T.lift(sym).n)
