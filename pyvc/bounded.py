"""Bounded stand-ins: run a native script of /verif/bounded (plain CPython of the overlay venv, no import hook, the real package from the repo source under
check) and turn its '@@OBL@@ {json}' lines into obligations.  Labelled bounded everywhere; never counted as proved."""
import json
import os
import subprocess
import tempfile

VERIF = os.path.dirname(os.path.dirname(os.path.abspath(__file__)))


def run_native(chk, script, backend, timeout=1500, env_extra=None):
    from . import hook

    env = dict(os.environ)
    env["PYTHONPATH"] = hook.REPO_SRC[0]
    env["NUMBA_DISABLE_JIT"] = "1"
    env["VERIF_SEED"] = str(chk.seed)
    env.pop("PYVC_REPO_SRC", None)
    env.update(env_extra or {})
    py = os.path.join(VERIF, ".venv", "bin", "python")
    out = subprocess.run([py, os.path.join(VERIF, "bounded", script)], capture_output=True, text=True, timeout=timeout, env=env, cwd=tempfile.gettempdir())
    from .replay import script as _script
    rp = _script(f'''
def replay():
    """re-run the bounded native script on the tree under test and report the run-time contracts that fail"""
    import runpy, io, contextlib
    buf = io.StringIO()
    with contextlib.redirect_stdout(buf):
        runpy.run_path({os.path.join(VERIF, "bounded", script)!r}, run_name="__main__")
    bad = [json.loads(l[7:]) for l in buf.getvalue().splitlines() if l.startswith("@@OBL@@")]
    bad = [o for o in bad if not o["ok"]]
    return bool(bad), "; ".join(o["name"] + ": " + o["detail"][:160] for o in bad[:3]) or "all run-time contracts hold"
''', kind="bounded_native_rerun")
    if getattr(chk, "level", "proof") == "exploration":
        # nothing of a purely bounded check goes through the symbolic engine: its assumptions A1-A5 do not apply; these do
        chk.assumptions[:] = ["native run: the real package is executed by CPython with IEEE floating point (NUMBA_DISABLE_JIT=1: the interpreted definitions, not the compiled ones)",
                              "bounded: the statement holds for the enumerated inputs only; the input set is written down in the docstring of bounded/" + script]
    n = 0
    for line in out.stdout.splitlines():
        if line.startswith("@@OBL@@"):
            o = json.loads(line[7:])
            n += 1
            chk.ground(o["name"], o["ok"], fn=o.get("fn") or None, goal=o.get("goal") or "run-time contract holds on this input", detail=o.get("detail"), backend=backend, replay=rp)
    if out.returncode != 0 or n == 0:
        chk.error("bounded-runner", f"native script {script} exit {out.returncode}, {n} obligations; stderr tail: {out.stderr[-600:]}")
    return n
