"""./vc command line."""
from __future__ import annotations

import argparse
import importlib
import json
import os
import sys
import traceback

VERIF = os.path.dirname(os.path.dirname(os.path.abspath(__file__)))


def run_check(pid, tier, seed, repo_src=None, update_ledger=False):
    from . import hook, core
    from .terms import Unsupported
    from .rt import FloatDomainError

    hook.install(repo_src or os.environ.get("PYVC_REPO_SRC") or "/repo/src")
    sys.path.insert(0, VERIF)
    chk = None
    try:
        mod = importlib.import_module(f"contracts.{pid}")
        chk = core.Check(pid, tier, seed, level=getattr(mod, "LEVEL", "proof"))
        mod.run(chk)
    except FloatDomainError as e:
        tb = traceback.extract_tb(e.__traceback__)
        where = next((f"{f.filename.split('/src/')[-1]}:{f.lineno} in {f.name}" for f in reversed(tb) if "/src/eko" in f.filename), "repository code")
        if chk is None:
            print(f"CHECKER-ERROR property={pid} {e}")
            return 3
        chk.fail(f"{pid}.float_domain", f"{e} [{where}]", fn=where, goal="real-typed sqrt / log stay inside their domain (no nan)")
        return chk.finish()
    except Unsupported as e:
        traceback.print_exc()
        print(f"CHECKER-ERROR property={pid} unsupported construct: {e}")
        if chk is not None:
            chk.error("checker", f"unsupported: {e}")
            return chk.finish()   # violations found before the unsupported construct are still reported (exit 1)
        return 3
    except Exception as e:  # harness failure: never a VIOLATION
        traceback.print_exc()
        print(f"CHECKER-ERROR property={pid} harness exception {type(e).__name__}: {e}")
        if chk is not None:
            chk.error("checker", f"harness exception {type(e).__name__}: {e}")
            return chk.finish()   # violations recorded before the harness failure are still reported (exit 1), else exit 3
        return 3
    rc = chk.finish()
    if update_ledger:
        p = os.path.join(VERIF, "baseline", "obligations.json")
        os.makedirs(os.path.dirname(p), exist_ok=True)
        led = core.load_ledger()
        led.setdefault(pid, {})[tier] = sorted(o["name"] for o in chk.obls)
        with open(p, "w") as f:
            json.dump(led, f, indent=0, sort_keys=True)
        print(f"ledger updated: {pid}/{tier}: {len(chk.obls)} obligations")
    return rc


def main(argv=None):
    ap = argparse.ArgumentParser(prog="vc")
    sub = ap.add_subparsers(dest="cmd", required=True)
    c = sub.add_parser("check")
    c.add_argument("pid")
    c.add_argument("--tier", default=os.environ.get("VERIF_TIER", "quick"), choices=["quick", "thorough"])
    c.add_argument("--repo-src", default=None)
    c.add_argument("--update-ledger", action="store_true")
    st = sub.add_parser("selftest")
    st.add_argument("pids", nargs="*")
    r = sub.add_parser("replay")
    r.add_argument("path")
    args = ap.parse_args(argv)
    if args.cmd == "check":
        seed = int(os.environ.get("VERIF_SEED", "0") or 0)
        return run_check(args.pid, args.tier, seed, args.repo_src, args.update_ledger)
    if args.cmd == "selftest":
        from . import selftest

        return selftest.main(args.pids)
    if args.cmd == "replay":
        from . import replay

        return replay.main([args.path])


if __name__ == "__main__":
    sys.exit(main())
