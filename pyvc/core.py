"""Obligation bookkeeping, verdicts, evidence, ledger, known findings, replay files, exit codes."""
from __future__ import annotations

import json
import os
import random
import sys
import time
import traceback
from fractions import Fraction

from . import terms as T
from . import poly as P
from . import smt
from .terms import Sym, Unsupported

VERIF = os.path.dirname(os.path.dirname(os.path.abspath(__file__)))
OUT = os.environ.get("PYVC_OUT_DIR") or VERIF

GLOBAL_ASSUMPTIONS = {
    "A1": "A1 real arithmetic: Python float/complex arithmetic is treated as exact arithmetic over R/C (no rounding, overflow, NaN)",
    "A2": "A2 complex lifting: rational-function identities proved over Q(generators) hold over C wherever denominators do not vanish",
    "A3": "A3 integer powers are repeated products; x**0 == 1",
    "A4": "A4 branching: bool() of a symbolic comparison forks the path; both sides explored when satisfiable (z3)",
    "A5": "A5 library contracts: numpy/scipy/math functions are modelled by the shims in pyvc/vnp.py",
}



def _from_engine(obj):
    mod = getattr(obj, "__module__", None) or getattr(type(obj), "__module__", "") or ""
    return mod == "pyvc" or mod.startswith("pyvc.") or mod.startswith("pyvc_")


def engine_gap(exc):
    """reason why an exception is an artefact of the engine's stand-ins rather than a behaviour of the code, or None"""
    import re as _re

    from . import terms as _T
    from . import vnp as _vnp

    if isinstance(exc, _T.Unsupported):
        return "unsupported construct"
    if isinstance(exc, AttributeError) and getattr(exc, "obj", None) is not None and _from_engine(exc.obj) and not isinstance(exc.obj, _T.Sym):
        return f"the stand-in {getattr(exc.obj, '__name__', type(exc.obj).__name__)} of the engine has no attribute {getattr(exc, 'name', '?')!r}"
    if isinstance(exc, (TypeError, AttributeError)):
        # an operation the ghost / stand-in objects of the contracts do not provide: the class is named in the message and one of its instances is a local of the
        # repository frame that raised
        tb, last = exc.__traceback__, None
        while tb is not None:
            tb, last = tb.tb_next, tb
        if last is not None:
            for v in list(last.tb_frame.f_locals.values()):
                cls = type(v)
                mod = getattr(cls, "__module__", "") or ""
                if (mod.startswith("contracts") or _from_engine(cls)) and not isinstance(v, _T.Sym) and _re.search(r"\b%s\b" % _re.escape(cls.__name__), str(exc)):
                    return f"the ghost object {cls.__name__} of the checker does not provide the operation the code asks for"
    if isinstance(exc, TypeError):
        m = _re.match(r"(?:\w+\.)*(\w+)\(\) (got an unexpected keyword argument|takes|missing|got multiple values)", str(exc))
        if m and callable(getattr(_vnp, m.group(1), None)) and _from_engine(getattr(_vnp, m.group(1))):
            return f"the stand-in {m.group(1)} of the engine has a narrower signature than the library function"
    return None

class Check:
    def __init__(self, pid, tier="quick", seed=0, level="proof"):
        self.pid = pid
        self.tier = tier
        self.seed = seed
        self.level = level
        self.obls = []
        self.trusted = []
        self.assumptions = []
        self.functions = []
        self.bounded_parts = []
        self.not_covered = []
        self.configs = 0
        self.extra = {}
        self.t0 = time.time()
        self.rng = random.Random(seed)
        self.errors = []
        self.backend_time = {}
        self._nf_spent = 0.0      # normal-form seconds spent by THIS process (budget is per process)
        self._names = set()

    # -- declarations ---------------------------------------------------------------------------------
    def under_contract(self, *fns):
        for f in fns:
            if f not in self.functions:
                self.functions.append(f)

    def trust(self, *items):
        for s in items:
            if s not in self.trusted:
                self.trusted.append(s)

    def assume(self, *items):
        for s in items:
            if s not in self.assumptions:
                self.assumptions.append(s)

    def uncovered(self, *items):
        for s in items:
            if s not in self.not_covered:
                self.not_covered.append(s)

    # -- recording ------------------------------------------------------------------------------------
    def record(self, name, verdict, backend, secs, fn=None, goal=None, detail=None, witness=None, replay=None, kind="proof"):
        if name in self._names:
            k = 2
            while f"{name}#{k}" in self._names:
                k += 1
            name = f"{name}#{k}"
        self._names.add(name)
        o = dict(name=name, verdict=verdict, backend=backend, secs=round(secs, 4), fn=fn, goal=goal, detail=detail,
                 witness=witness, replay=replay, kind=kind)
        self.obls.append(o)
        self.backend_time[backend] = self.backend_time.get(backend, 0.0) + secs
        if os.environ.get("PYVC_VERBOSE"):
            print(f"  [{verdict:12s}] {name} ({backend}, {secs:.3f}s)" + (f" :: {detail}" if detail and verdict != "discharged" else ""))
        return o

    # -- identity obligations (poly-NF) ---------------------------------------------------------------
    def eq(self, name, lhs, rhs=0, *, fn=None, goal=None, assumptions=(), replay=None, ranges=None, log_additive=False):
        """obligation: lhs == rhs identically (under positivity assumptions used only for ln-splitting)."""
        t0 = time.time()
        if isinstance(lhs, Sym) and isinstance(rhs, Sym) and lhs.n == rhs.n:
            return self.record(name, "discharged", "syntactic-identity", 0.0, fn, goal, replay=replay)
        d = T.lift(lhs) - T.lift(rhs) if not _is_zero(rhs) else T.lift(lhs)
        # 1. numeric falsification at high precision (a refutation with a witness; never a proof)
        wit = falsify(d, self.rng, ranges, assumptions=assumptions)
        if wit is not None:
            return self.record(name, "refuted", "mp-falsify", time.time() - t0, fn, goal,
                               detail=f"lhs - rhs = {wit['residual']} (relative {wit['relative']}) at {wit['env']}", witness=wit, replay=replay)
        # 2. exact proof (within the per-obligation limit and the per-check budget)
        if self._nf_spent > NF_BUDGET[0]:
            return self.record(name, "undischarged", "poly-NF", 0.0, fn, goal, f"per-check normal-form budget of {NF_BUDGET[0]} s exhausted", replay=replay)
        try:
            ctx = P.NFContext(assumptions, prover=smt.prove if assumptions else None)
            ctx.log_additive = log_additive
            with time_limit(NF_TIMEOUT[0]):
                ok, res = P.prove_zero(d, ctx)
        except TimeoutError:
            self._nf_spent += time.time() - t0
            return self.record(name, "undischarged", "poly-NF", time.time() - t0, fn, goal, f"normal form not reached within {NF_TIMEOUT[0]} s", replay=replay)
            for law in ctx.laws_used:
                self.trust("atom law: " + law)
        except Unsupported as e:
            return self.record(name, "error", "poly-NF", time.time() - t0, fn, goal, f"checker: {e}")
        except ZeroDivisionError as e:
            return self.record(name, "refuted", "poly-NF", time.time() - t0, fn, goal, f"exact zero division: {e}", replay=replay)
        secs = time.time() - t0
        self._nf_spent += secs
        if ok:
            return self.record(name, "discharged", "poly-NF", secs, fn, goal, replay=replay)
        wit = find_witness(d, self.rng, ranges)
        return self.record(name, "refuted", "poly-NF", secs, fn, goal,
                           detail="non-zero normal form: " + repr(res)[:400], witness=wit, replay=replay)

    def eq_array(self, name, A, B, **kw):
        import numpy as np

        A = np.asarray(A, dtype=object)
        B = np.asarray(B, dtype=object)
        if A.shape != B.shape:
            return [self.record(name, "refuted", "shape", 0.0, kw.get("fn"), kw.get("goal"), f"shape {A.shape} != {B.shape}", replay=kw.get("replay"))]
        out = []
        for idx in np.ndindex(A.shape):
            out.append(self.eq(f"{name}[{','.join(map(str, idx))}]", A[idx], B[idx], **kw))
        return out

    def eq_block(self, name, A, B, **kw):
        """one obligation for a whole array equality (all entries must be proved); the first failing entry is reported"""
        import numpy as np

        A = np.asarray(A, dtype=object)
        B = np.asarray(B, dtype=object)
        if A.shape != B.shape:
            return self.record(name, "refuted", "shape", 0.0, kw.get("fn"), kw.get("goal"), f"shape {A.shape} != {B.shape}", replay=kw.get("replay"))
        t0 = time.time()
        sub = Check(self.pid, self.tier, self.seed, self.level)
        sub.rng = self.rng
        n = 0
        for idx in np.ndindex(A.shape):
            n += 1
            o = sub.eq(f"{name}[{','.join(map(str, idx))}]", A[idx], B[idx], **kw)
            if o["verdict"] != "discharged":
                self._nf_spent += sub._nf_spent
                return self.record(o["name"], o["verdict"], o["backend"], time.time() - t0, o.get("fn"), o.get("goal"), o.get("detail"), o.get("witness"), o.get("replay"))
        self._nf_spent += sub._nf_spent
        for s_ in sub.trusted:
            self.trust(s_)
        backends = {o["backend"] for o in sub.obls}
        return self.record(name, "discharged", "+".join(sorted(backends)) or "syntactic-identity", time.time() - t0, kw.get("fn"),
                           (kw.get("goal") or "") + f"  [{n} entries]", replay=kw.get("replay"))

    # -- SMT obligations ------------------------------------------------------------------------------
    def smt(self, name, assumptions, goal_sym, *, fn=None, goal=None, replay=None, timeout_ms=None):
        t0 = time.time()
        try:
            if isinstance(goal_sym, bool):
                goal_sym = T.TRUE if goal_sym else T.FALSE
            r, m = smt.check(list(assumptions), goal_sym, timeout_ms)
        except Unsupported as e:
            return self.record(name, "error", "z3", time.time() - t0, fn, goal, f"checker: {e}")
        secs = time.time() - t0
        if r == "unsat":
            return self.record(name, "discharged", "z3", secs, fn, goal or repr(goal_sym)[:300], replay=replay)
        if r == "sat":
            return self.record(name, "refuted", "z3", secs, fn, goal or repr(goal_sym)[:300], detail="counter-model",
                               witness={k: _js(v) for k, v in m.items()}, replay=replay)
        return self.record(name, "undischarged", "z3+cvc5", secs, fn, goal or repr(goal_sym)[:300], detail=f"unknown: {m}", replay=replay)

    def ground(self, name, ok, *, fn=None, goal=None, detail=None, replay=None, backend="exact-eval"):
        """obligation decided by exact evaluation of a ground (variable-free) fact."""
        return self.record(name, "discharged" if ok else "refuted", backend, 0.0, fn, goal, None if ok else detail, replay=replay)

    def fail(self, name, detail, *, fn=None, goal=None, replay=None, backend="symbolic-execution", witness=None):
        return self.record(name, "refuted", backend, 0.0, fn, goal, detail, replay=replay, witness=witness)

    def error(self, name, detail):
        return self.record(name, "error", "checker", 0.0, None, None, detail)

    def raised(self, name, exc, **kw):
        """An exception escaped repository code executed by the engine.  A limit of the engine (an unsupported construct; an attribute, keyword or
        method the numpy / scipy / math stand-ins of pyvc do not provide) leaves the obligation undecided; anything else is a refuted obligation."""
        why = engine_gap(exc)
        if why:
            return self.error(name, f"undecided, {why}: {type(exc).__name__}: {exc}")
        return self.fail(name, f"{type(exc).__name__}: {exc}", **kw)

    def parallel(self, tasks, worker, jobs=None):
        """Run worker(child_check, task) for every task in forked worker processes (fork: the transformed modules and
        all contract state are inherited) and merge the recorded obligations in task order."""
        import multiprocessing as mp

        jobs = jobs or int(os.environ.get("PYVC_JOBS", "0")) or min(16, os.cpu_count() or 4)
        tasks = list(tasks)
        if jobs <= 1 or len(tasks) <= 1:
            for t in tasks:
                worker(self, t)
            return
        ctx = mp.get_context("fork")
        parent = self

        def run(idx):
            from . import vnp

            child = Check(parent.pid, parent.tier, parent.seed + idx + 1, parent.level)
            try:
                worker(child, tasks[idx])
            except Unsupported as e:
                child.error(f"checker[{idx}]", f"unsupported: {e}")
            except Exception as e:
                child.error(f"checker[{idx}]", f"harness exception {type(e).__name__}: {e}\n{traceback.format_exc()[-600:]}")
            for o in child.obls:
                if callable(o.get("replay")):
                    try:
                        o["replay"] = o["replay"](o.get("witness"))
                    except Exception:
                        o["replay"] = None
            return (idx, child.obls, child.trusted, child.assumptions, child.functions, child.bounded_parts, child.not_covered,
                    child.configs, child.extra, child.backend_time, sorted(vnp.USED), dict(smt.STATS))

        call = _ParallelCall(run)   # must exist before the workers are forked
        with ctx.Pool(jobs) as pool:
            results = pool.map(call, range(len(tasks)), chunksize=1)
        from . import vnp

        for (idx, obls, trusted, assum, fns, bounded, notcov, configs, extra, btime, used, stats) in sorted(results):
            for o in obls:
                if o["name"] in self._names:
                    k = 2
                    while f"{o['name']}#{k}" in self._names:
                        k += 1
                    o["name"] = f"{o['name']}#{k}"
                self._names.add(o["name"])
                self.obls.append(o)
            self.trust(*trusted)
            self.assume(*assum)
            self.under_contract(*fns)
            for b in bounded:
                if b not in self.bounded_parts:
                    self.bounded_parts.append(b)
            self.uncovered(*notcov)
            self.configs += configs
            for k, v in extra.items():
                if isinstance(v, (int, float)) and not isinstance(v, bool):
                    self.extra[k] = self.extra.get(k, 0) + v
                else:
                    self.extra.setdefault(k, v)
            for k, v in btime.items():
                self.backend_time[k] = self.backend_time.get(k, 0.0) + v
            vnp.USED.update(used)
            for k, v in stats.items():
                smt.STATS[k] = smt.STATS.get(k, 0) + v

    def run_paths(self, name, thunk, assumptions=(), fn=None, replay=None, goal="no unexpected exception"):
        """Execute repository code under path exploration (A4).  Returns [(tag, pc, value)] for the feasible paths that
        return normally; an exception escaping the code on a feasible path is recorded as a failed obligation."""
        from .explore import explore

        out = []
        paths = explore(thunk, list(assumptions))
        for k, pr in enumerate(paths):
            tag = name if len(paths) == 1 else f"{name}.path{k}"
            if pr.exc is not None:
                self.raised(f"{tag}.no_exception", pr.exc, fn=fn, goal=goal, replay=replay)      # a limit of the engine is undecided, never a violation
                continue
            out.append((tag, pr.pc, pr.value))
        self.extra["paths_explored"] = self.extra.get("paths_explored", 0) + len(paths)
        return out

    # -- finish ---------------------------------------------------------------------------------------
    def finish(self):
        from . import hook, vnp

        wall = time.time() - self.t0
        kf = load_known_findings()
        known = [k for k in kf if k.get("property") == self.pid and k.get("status", "known") == "known"]
        violations, known_hits, errors = [], [], []
        for o in self.obls:
            if o["verdict"] == "discharged":
                continue
            if o["verdict"] == "error":
                errors.append(o)
                continue
            hit = next((k for k in known if _kf_match(k, o)), None)
            if hit:
                known_hits.append((hit, o))
            else:
                violations.append(o)
        # ledger
        ledger = load_ledger().get(self.pid, {}).get(self.tier)
        names = sorted(o["name"] for o in self.obls)
        ledger_msg = None
        if ledger is not None:
            import re as _re
            # an obligation generated once per path of a function that gained a branch ("name.path<k>.rest") covers the ledger entry "name.rest"
            # ... and the other way round when a refactoring merges the branches: the ledger entries "name.path<k>.rest" are covered by "name.rest"
            strip = lambda n: _re.sub(r"\.path\d+(?=\.|\[|$)", "", n)  # noqa: E731
            covered = set(names) | {strip(n) for n in names}
            missing = sorted(n for n in set(ledger) - covered if strip(n) not in covered)
            if missing:
                ledger_msg = f"{len(missing)} obligations of the ledger were not generated, e.g. {missing[:3]}"
        n_obl = len(self.obls)
        n_dis = sum(1 for o in self.obls if o["verdict"] == "discharged")
        # replay files
        os.makedirs(os.path.join(OUT, "replays"), exist_ok=True)
        lines = []
        for hit, o in known_hits:
            pass
        seen_kf = set()
        for hit, o in known_hits:
            key = hit.get("id") or hit.get("what")
            if key in seen_kf:
                continue
            seen_kf.add(key)
            lines.append(f"KNOWN-FINDING: property={self.pid} {hit.get('what')}")
        exit_code = 0
        reported = 0
        replay_cache = {}
        for o in violations:
            path = os.path.join(OUT, "replays", f"{self.pid}_{_safe(o['name'])}.json")
            rep = dict(property=self.pid, obligation=o["name"], function=o.get("fn"), verdict=o["verdict"], backend=o["backend"],
                       goal=o.get("goal"), verifier_output=o.get("detail"), witness=o.get("witness"), replay=o.get("replay"),
                       tier=self.tier, repo_src=hook.REPO_SRC[0])
            reproduced = None
            if callable(o.get("replay")):
                try:
                    o["replay"] = o["replay"](o.get("witness"))
                except Exception as e:
                    o["replay"] = None
                    rep["native_observation"] = f"replay generator failed: {e!r}"
                rep["replay"] = o["replay"]
            if o.get("replay"):
                try:
                    from .replay import run_replay

                    key = hash(o["replay"].get("script"))
                    if key not in replay_cache:
                        replay_cache[key] = run_replay(o["replay"]) if len(replay_cache) < 12 else (None, "replay skipped: more than 12 distinct replay scripts in one run")
                    reproduced, rdetail = replay_cache[key]
                    rep["native_observation"] = rdetail
                    rep["reproduced"] = reproduced
                except Exception as e:  # replay machinery failure must not hide the violation
                    rep["native_observation"] = f"replay failed to run: {e!r}"
            with open(path, "w") as f:
                json.dump(rep, f, indent=1, default=_js)
            suffix = "" if reproduced else " no-failing-input-found"
            if reported < 25:
                lines.append(f"VIOLATION property={self.pid} replay={path}{suffix}")
                lines.append(f"  obligation {o['name']} [{o['verdict']} by {o['backend']}] {str(o.get('detail'))[:300]}")
            reported += 1
            exit_code = 1
        if reported > 25:
            lines.append(f"  ... and {reported-25} more failed obligations (see evidence file)")
        # replay-oracle sanity (thorough tier / PYVC_REPLAY_SANITY): replays attached to *discharged* obligations must not
        # "reproduce" anything on the tree they were proved on -- otherwise the native oracle itself is wrong.
        self.extra["replay_oracles_validated"] = 0
        if (self.tier == "thorough" or os.environ.get("PYVC_REPLAY_SANITY")) and exit_code == 0:
            from .replay import run_replay

            seen = set()
            # oracles that are also attached to a recorded known finding are expected to reproduce it: they are exempt
            for _, ko in known_hits:
                krp = ko.get("replay")
                if callable(krp):
                    try:
                        krp = krp(ko.get("witness"))
                    except Exception:
                        krp = None
                if isinstance(krp, dict) and krp.get("script"):
                    seen.add(hash(krp.get("script")))
            exempt = len(seen)
            for o in self.obls:
                rp = o.get("replay")
                if o["verdict"] != "discharged" or not rp:
                    continue
                if callable(rp):
                    try:
                        rp = rp(None)
                    except Exception:
                        continue
                key = hash(rp.get("script"))
                if key in seen or len(seen) - exempt >= int(os.environ.get("PYVC_REPLAY_SANITY_MAX", "24")):
                    continue
                seen.add(key)
                try:
                    ok, detail = run_replay(rp)
                except Exception as e:
                    ok, detail = None, repr(e)
                if ok:
                    errors.append(dict(name=o["name"], detail=f"replay oracle disagrees with a discharged obligation: {detail}"))
                elif ok is None:
                    errors.append(dict(name=o["name"], detail=f"replay oracle could not run: {detail}"))
            self.extra["replay_oracles_validated"] = len(seen) - exempt
        if errors and exit_code == 0:
            exit_code = 3
            for o in errors[:10]:
                lines.append(f"CHECKER-ERROR property={self.pid} obligation={o['name']} {o.get('detail')}")
        if ledger_msg and exit_code == 0:
            exit_code = 3
            lines.append(f"CHECKER-ERROR property={self.pid} {ledger_msg}")
        if n_obl == 0 and exit_code == 0:
            exit_code = 3
            lines.append(f"CHECKER-ERROR property={self.pid} zero obligations generated")
        # evidence
        samples = []
        step = max(1, n_obl // 6)
        for o in self.obls[::step][:8]:
            samples.append({k: o[k] for k in ("name", "fn", "goal", "verdict", "backend", "secs") if o.get(k) is not None})
        by_backend = {}
        for o in self.obls:
            by_backend[o["backend"]] = by_backend.get(o["backend"], 0) + 1
        trusted = list(self.trusted) + sorted("shim contract: " + u for u in vnp.USED)
        cov = dict(
            obligations=n_obl - len(known_hits),   # obligations claimed: those failing exactly as a listed known finding are reported separately
            known_finding_obligations=len(known_hits),
            discharged=n_dis,
            checker_cmd=f"./vc check {self.pid} --tier {self.tier}",
            trusted_base=trusted,
            samples=samples,
            functions_under_contract=self.functions,
            obligations_by_backend=by_backend,
            solver_seconds={k: round(v, 3) for k, v in self.backend_time.items()},
            z3_stats=dict(smt.STATS),
            refuted=sum(1 for o in self.obls if o["verdict"] == "refuted"),
            undischarged=sum(1 for o in self.obls if o["verdict"] == "undischarged"),
            checker_errors=len(errors),
            known_findings_reported=[h.get("what") for h, _ in known_hits],
            failed_obligations=[dict(name=o["name"], verdict=o["verdict"], detail=str(o.get("detail"))[:300]) for o in self.obls if o["verdict"] != "discharged"][:50],
            bounded_parts=self.bounded_parts,
            not_covered_clauses=self.not_covered,
            configs_enumerated=self.configs,
            transform=dict(modules=len(hook.STATS["modules"]), float_literals=hook.STATS["float_literals"],
                           divisions=hook.STATS["divisions"], powers=hook.STATS["powers"], functions=hook.STATS["functions"],
                           repo_src=hook.REPO_SRC[0]),
            exhaustive=bool(self.extra.get("exhaustive", False)),
        )
        cov.update({k: v for k, v in self.extra.items() if k not in cov})
        if self.level != "proof":
            cov.setdefault("evaluations", n_obl)
            cov.setdefault("distinct_nontrivial", n_obl)
            cov.setdefault("rule", self.extra.get("rule", "one evaluation per obligation"))
        ev = dict(
            property_id=self.pid, tier=self.tier, seed=self.seed, level=self.level, coverage=cov,
            assumptions=([] if self.level == "exploration" else [GLOBAL_ASSUMPTIONS[k] for k in ("A1", "A2", "A3", "A4", "A5")]) + self.assumptions,
            wall_s=round(wall, 3), violations=len(violations),
        )
        os.makedirs(os.path.join(OUT, "evidence"), exist_ok=True)
        with open(os.path.join(OUT, "evidence", f"{self.pid}.json"), "w") as f:
            json.dump(ev, f, indent=1, default=_js)
        for ln in lines:
            print(ln)
        print(f"{self.pid} [{self.tier}] obligations={n_obl} discharged={n_dis} known-findings={len(known_hits)} "
              f"violations={len(violations)} errors={len(errors)} wall={wall:.1f}s exit={exit_code}")
        return exit_code


NF_TIMEOUT = [int(os.environ.get("PYVC_NF_TIMEOUT", "240"))]   # CPU seconds per obligation
NF_BUDGET = [int(os.environ.get("PYVC_NF_BUDGET", "1200"))]


class time_limit:
    """CPU-time limit of this process (ITIMER_PROF, main thread only): independent of the load on the other cores, so a verdict
    does not flip to 'undischarged' because 16 checks run side by side."""

    def __init__(self, secs):
        self.secs = secs

    def __enter__(self):
        import signal

        def handler(signum, frame):
            raise TimeoutError()

        self.old = signal.signal(signal.SIGPROF, handler)
        signal.setitimer(signal.ITIMER_PROF, self.secs)

    def __exit__(self, *a):
        import signal

        signal.setitimer(signal.ITIMER_PROF, 0)
        signal.signal(signal.SIGPROF, self.old)
        return False


def falsify(expr, rng, ranges=None, points=3, digits=60, rel=1e-25, assumptions=()):
    """Try to show expr != 0 by evaluation at rational points satisfying the assumptions (60 digits).  Returns a witness
    or None.  A point counts only if the residual exceeds `rel` times the largest summand (so rounding cannot fake it).
    Points: random in the given ranges (rejected when an assumption evaluates to false), then a z3 model of the assumptions."""
    assumptions = [a for a in assumptions if isinstance(a, Sym)]
    vs = sorted(T.free_vars(expr, *assumptions))
    ranges = ranges or {}
    cands = []
    for _ in range(points * (8 if assumptions else 1)):
        env = {}
        for v in vs:
            lo, hi = ranges.get(v, ranges.get("*", (0.1, 2.0)))
            if isinstance(lo, int) and isinstance(hi, int):
                env[v] = Fraction(rng.randint(lo, hi))
            else:
                env[v] = Fraction(round(rng.uniform(lo, hi) * 10**6), 10**6)
        if assumptions:
            try:
                if not all(bool(T.evalmp(a, env, 30)) for a in assumptions):
                    continue
            except Exception:
                continue
        cands.append(env)
        if len(cands) >= points:
            break
    if assumptions and not cands:
        try:
            r, m = smt.check(assumptions, None, 3000)
            if r == "sat":
                env = {}
                for v in vs:
                    val = m.get(v, Fraction(1, 2))
                    env[v] = val if isinstance(val, Fraction) else Fraction(1, 2)
                cands.append(env)
        except Exception:
            pass
    for env in cands:
        try:
            val, scale = T.magnitude(expr, env, digits)
        except (ZeroDivisionError, ValueError, OverflowError, Unsupported, TypeError):
            continue
        except Exception:
            continue
        if abs(val) > rel * scale:
            import mpmath as mp

            return dict(env={k: float(v) for k, v in env.items()}, residual=mp.nstr(val, 12), relative=mp.nstr(abs(val) / scale, 5))
    return None


class _ParallelCall:
    """picklable-by-fork callable wrapper (the closure itself lives in the forked child's memory)"""
    _fn = None

    def __init__(self, fn):
        _ParallelCall._fn = fn

    def __call__(self, idx):
        return _ParallelCall._fn(idx)


def _is_zero(x):
    return isinstance(x, (int, Fraction)) and x == 0


def _safe(s):
    return "".join(c if c.isalnum() or c in "-_." else "_" for c in s)[:120]


def _js(v):
    if isinstance(v, Fraction):
        return float(v) if v.denominator != 1 else int(v)
    if isinstance(v, Sym):
        return repr(v)
    if isinstance(v, complex):
        return [v.real, v.imag]
    try:
        import numpy as np

        if isinstance(v, np.ndarray):
            return v.tolist()
        if isinstance(v, np.generic):
            return v.item()
    except ImportError:  # pragma: no cover
        pass
    return repr(v)


def _kf_match(k, o):
    pat = k.get("obligation")
    if pat is None:
        return False
    import fnmatch

    if any(ch in pat for ch in "*?"):
        return fnmatch.fnmatchcase(o["name"], pat.replace("[", "[[]"))
    return o["name"] == pat


def load_known_findings():
    p = os.path.join(VERIF, "known_findings.json")
    if not os.path.exists(p):
        return []
    with open(p) as f:
        return json.load(f).get("findings", [])


def load_ledger():
    p = os.path.join(VERIF, "baseline", "obligations.json")
    if not os.path.exists(p):
        return {}
    with open(p) as f:
        return json.load(f)


def find_witness(expr, rng, ranges=None, tries=40):
    """a rational point (in the given physical ranges) at which expr evaluates to something non-zero."""
    vs = sorted(T.free_vars(expr))
    ranges = ranges or {}
    best = None
    for _ in range(tries):
        env = {}
        for v in vs:
            lo, hi = ranges.get(v, ranges.get("*", (0.1, 2.0)))
            if isinstance(lo, int) and isinstance(hi, int):
                env[v] = rng.randint(lo, hi)
            else:
                env[v] = round(rng.uniform(lo, hi), 6)
        try:
            val = T.evalf(expr, env)
        except (ZeroDivisionError, ValueError, OverflowError, Unsupported):
            continue
        if isinstance(val, complex) and abs(val) > 1e-9:
            best = dict(env=env, residual=[val.real, val.imag])
            break
    return best
