"""Path-exhaustive symbolic execution by re-execution (A4).

``explore(fn, assumptions)`` runs ``fn`` repeatedly; every ``bool()`` of a symbolic condition asks z3
which branches are feasible under assumptions + path condition, follows one and schedules the other.
Decisions are replayed from a recorded prefix, so forks inside native code (dataclass __eq__,
list.__contains__, max/min, sorted) behave the same way as forks in repository code.
"""
from __future__ import annotations

from . import terms as T
from . import smt
from .terms import Sym, PathAbort, Unsupported


class PathResult:
    def __init__(self, value, exc, pc, decisions, tb=None):
        self.value = value
        self.exc = exc
        self.pc = pc  # list of Sym bool
        self.decisions = decisions
        self.tb = tb

    def __repr__(self):
        return f"<path pc={self.pc} value={self.value!r} exc={self.exc!r}>"


class _State:
    def __init__(self, prefix, assumptions, timeout_ms):
        self.prefix = prefix
        self.assumptions = assumptions
        self.taken = []
        self.pc = []
        self.known = {}
        self.alts = []
        self.timeout_ms = timeout_ms

    def decide(self, b: Sym):
        k = self.known.get(b.n)
        if k is not None:
            return k
        i = len(self.taken)
        if i < len(self.prefix):
            val = self.prefix[i]
        else:
            base = self.assumptions + self.pc
            rt, _ = smt.check(base + [b], None, self.timeout_ms)
            rf, _ = smt.check(base + [T.bnot(b)], None, self.timeout_ms)
            ft, ff = rt != "unsat", rf != "unsat"
            if ft and ff:
                val = True
                self.alts.append(self.taken + [False])
            elif ft:
                val = True
            elif ff:
                val = False
            else:
                raise PathAbort()
        self.taken.append(val)
        self.known[b.n] = val
        self.known[T.bnot(b).n] = not val
        self.pc.append(b if val else T.bnot(b))
        return val


def explore(fn, assumptions=(), max_paths=4096, timeout_ms=5000, catch=(Exception,)):
    """Returns the list of PathResult of every feasible path of fn()."""
    import traceback

    assumptions = [a for a in assumptions if not (isinstance(a, bool) and a)]
    assumptions = [a if isinstance(a, Sym) else T._b(a) for a in assumptions]
    results = []
    stack = [[]]
    while stack:
        prefix = stack.pop()
        st = _State(prefix, list(assumptions), timeout_ms)
        prev = T._decider[0]
        T._decider[0] = st.decide
        value = exc = tb = None
        try:
            value = fn()
        except PathAbort:
            continue
        except Unsupported:
            raise
        except catch as e:  # an exception escaping the code under verification is a path outcome
            exc = e
            tb = traceback.format_exc()
        finally:
            T._decider[0] = prev
        results.append(PathResult(value, exc, st.pc, st.taken, tb))
        stack.extend(st.alts)
        if len(results) + len(stack) > max_paths:
            raise Unsupported(f"path explosion: more than {max_paths} paths")
    return results


def current_pc():
    """path condition of the exploration in progress (list of Sym), or [] outside an exploration"""
    d = T._decider[0]
    st = getattr(d, "__self__", None)
    return list(st.pc) if st is not None else []
