"""D-free: non-commutative polynomials over commutative pyvc scalars in abstract matrix symbols.

An element is {word: coeff}; a word is a tuple of symbol names; () is the identity "1".  Scalars (Fraction,
Sym) are central.  Equality of normal forms is an identity in the free algebra, hence an identity for square
matrices of every size.  Optional rewrite rules (e.g. projector algebra) are applied to words on creation.
"""
from __future__ import annotations

from fractions import Fraction

from . import terms as T
from .terms import Sym, Unsupported


def _is_exact_zero(c):
    if isinstance(c, (int, Fraction)):
        return c == 0
    if isinstance(c, Sym):
        return c.is_const() and c.const() == 0
    return False


class Rules:
    """word rewrite rules: {(a, b): element-as-dict}  e.g. ('ep','ep') -> {('ep',): 1}, ('ep','em') -> {}"""

    def __init__(self, pair_rules=None, inverses=None):
        self.pair = pair_rules or {}
        self.inv = inverses or {}  # symbol -> inverse symbol ( x * xinv = 1 )


ACTIVE = [Rules()]


class Free:
    _vc_domain = "free"
    __slots__ = ("t",)

    def __init__(self, terms=None):
        self.t = {}
        if terms:
            for w, c in terms.items():
                if not _is_exact_zero(c):
                    self.t[w] = c

    @staticmethod
    def sym(name):
        return Free({(name,): Fraction(1)})

    @staticmethod
    def one():
        return Free({(): Fraction(1)})

    @staticmethod
    def zero():
        return Free({})

    def is_exact_zero(self):
        return not self.t

    def __repr__(self):
        if not self.t:
            return "0"
        return " + ".join(f"({c})*{'.'.join(w) if w else '1'}" for w, c in sorted(self.t.items(), key=lambda kv: (len(kv[0]), kv[0])))

    def _lift(self, o):
        if isinstance(o, Free):
            return o
        if isinstance(o, float):
            o = T.to_q(o)
        if isinstance(o, (int, Fraction, Sym)) and not isinstance(o, bool):
            return Free({(): o})
        return NotImplemented

    def __add__(self, o):
        o = self._lift(o)
        if o is NotImplemented:
            return NotImplemented
        r = dict(self.t)
        for w, c in o.t.items():
            if w in r:
                v = r[w] + c
                if _is_exact_zero(v):
                    del r[w]
                else:
                    r[w] = v
            else:
                r[w] = c
        return Free(r)

    __radd__ = __add__

    def __neg__(self):
        return Free({w: -c for w, c in self.t.items()})

    def __pos__(self):
        return self

    def __sub__(self, o):
        o = self._lift(o)
        if o is NotImplemented:
            return NotImplemented
        return self + (-o)

    def __rsub__(self, o):
        o = self._lift(o)
        if o is NotImplemented:
            return NotImplemented
        return o + (-self)

    def __mul__(self, o):
        if isinstance(o, float):
            o = T.to_q(o)
        if isinstance(o, (int, Fraction, Sym)) and not isinstance(o, bool):
            return Free({w: c * o for w, c in self.t.items()})
        if not isinstance(o, Free):
            return NotImplemented
        acc = Free()
        for w1, c1 in self.t.items():
            for w2, c2 in o.t.items():
                for w, k in _concat(w1, w2).items():
                    c = c1 * c2 * k
                    if w in acc.t:
                        v = acc.t[w] + c
                        if _is_exact_zero(v):
                            del acc.t[w]
                        else:
                            acc.t[w] = v
                    elif not _is_exact_zero(c):
                        acc.t[w] = c
        return acc

    def __rmul__(self, o):
        if isinstance(o, float):
            o = T.to_q(o)
        if isinstance(o, (int, Fraction, Sym)) and not isinstance(o, bool):
            return Free({w: o * c for w, c in self.t.items()})
        return NotImplemented

    __matmul__ = __mul__

    def __truediv__(self, o):
        if isinstance(o, float):
            o = T.to_q(o)
        if isinstance(o, (int, Fraction, Sym)) and not isinstance(o, bool):
            return Free({w: (Fraction(c) if isinstance(c, int) else c) / o for w, c in self.t.items()})
        return NotImplemented

    def __pow__(self, k):
        if not isinstance(k, int) or k < 0:
            raise Unsupported("power of a free-algebra element")
        r = Free.one()
        for _ in range(k):
            r = r * self
        return r

    def __bool__(self):
        raise Unsupported("truth value of a free-algebra element")

    def coeff(self, word):
        return self.t.get(tuple(word), Fraction(0))

    def words(self):
        return set(self.t)


def _concat(w1, w2):
    """product of two words as {word: rational} after applying the active rewrite rules at the junction."""
    rules = ACTIVE[0]
    if not w1 or not w2 or (not rules.pair and not rules.inv):
        return {w1 + w2: Fraction(1)}
    a, b = w1[-1], w2[0]
    if rules.inv.get(a) == b or rules.inv.get(b) == a:
        return _concat(w1[:-1], w2[1:])
    rep = rules.pair.get((a, b))
    if rep is None:
        return {w1 + w2: Fraction(1)}
    out = {}
    for mid, k in rep.items():
        # w1[:-1] . mid . w2[1:]  (re-apply rules at the new junctions)
        left = _concat(w1[:-1], mid) if mid else {w1[:-1]: Fraction(1)}
        for lw, lk in left.items():
            for rw, rk in _concat(lw, w2[1:]).items():
                out[rw] = out.get(rw, 0) + k * lk * rk
    return {w: c for w, c in out.items() if c}


def free_eq_obligations(chk, name, a, b, **kw):
    """a == b in the free algebra: ONE obligation (all word coefficients must be proved equal); the first failing word is reported.
    The obligation name does not depend on which words happen to survive structural cancellation."""
    import time

    a = a if isinstance(a, Free) else Free({(): a})
    b = b if isinstance(b, Free) else Free({(): b})
    from .core import Check

    sub = Check(chk.pid, chk.tier, chk.seed, chk.level)
    sub.rng = chk.rng
    t0 = time.time()
    words = sorted(a.words() | b.words(), key=lambda w: (len(w), w))
    for w in words:
        o = sub.eq(f"{name}<{'.'.join(w) if w else '1'}>", a.coeff(w), b.coeff(w), **kw)
        if o["verdict"] != "discharged":
            chk._nf_spent += sub._nf_spent
            return [chk.record(o["name"], o["verdict"], o["backend"], time.time() - t0, o.get("fn"), o.get("goal"), o.get("detail"), o.get("witness"), o.get("replay"))]
    chk._nf_spent += sub._nf_spent
    for s_ in sub.trusted:
        chk.trust(s_)
    return [chk.record(name, "discharged", "poly-NF" if words else "syntactic-identity", time.time() - t0, kw.get("fn"), (kw.get("goal") or "") + f"  [{len(words)} words]", replay=kw.get("replay"))]
