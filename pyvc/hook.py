"""Import hook: serves eko / ekore / ekobox from <repo>/src, AST-transformed (T1-T3, T6 of DESIGN.md).

What the transform changes (and nothing else):
  T1  float literal c        -> _vcQ("<repr(c)>")  exact rational;  complex literal bj -> _vcI() * _vcQ(b)
  T1' a / b , a ** b         -> _vcdiv(a, b), _vcpow(a, b)  (exact on ints / rationals; defer to operands otherwise)
      a /= b , a **= b       -> a = _vcdiv(a, b) ...
  T2  import numba [as nb]   -> pyvc.vnb   (njit / jitclass are identity decorators)
  T3  import numpy [as np]   -> pyvc.vnp.np_shim ; import math -> math_shim ; scipy.special -> sp_shim ;
      the names float / complex / int / abs / round in the module are bound to the shims in pyvc.rt
  T6  logger.<level>(...)    calls are left in place but the module-level ``logger`` is a no-op object
Statistics of every transformation are collected in STATS for the evidence files.
"""
from __future__ import annotations

import ast
import importlib.abc
import importlib.machinery
import importlib.util
import os
import sys

REPO_SRC = [os.environ.get("PYVC_REPO_SRC", "/repo/src")]

# modules executed over exact / symbolic numbers.  Everything else under eko*/ is imported untransformed.
EXACT_PREFIXES = [
    "eko.beta", "eko.gamma", "eko.constants", "eko.kernels", "eko.scale_variations", "eko.couplings",
    "eko.matchings", "eko.basis_rotation", "eko.member", "eko.evolution_operator", "eko.interpolation",
    "eko.msbar_masses", "eko.mellin", "ekore", "ekobox.apply", "ekobox.utils", "ekobox.genpdf.flavors",
    "eko.io.manipulate", "eko.runner.operators", "eko.runner.recipes", "eko.runner.parts", "eko.quantities",
    "eko.io.items",
]
NO_TRANSFORM: set = set()

STATS = dict(modules=[], float_literals=0, divisions=0, powers=0, imports_rebound=0, functions=0)

# T4: loops that *can* be cut by an invariant (module, function qualname, ordinal of the for-statement in source order).
# The cut is taken only while a contract has registered a LoopSpec in ACTIVE_CUTS; otherwise the loop runs as written.
CUTTABLE = {
    ("eko.kernels.singlet", "eko_iterate", 0),
    ("eko.kernels.singlet", "eko_perturbative", 0),
    ("eko.kernels.singlet_qed", "eko_iterate", 1),
    ("eko.kernels.non_singlet_qed", "exact", 0),
    ("eko.kernels.singlet", "u_vec", 0),
    ("eko.kernels.singlet", "u_vec", 1),
    ("eko.kernels.singlet", "sum_u", 0),
    ("eko.kernels.singlet", "r_vec", 0),
    ("eko.kernels.singlet", "r_vec", 1),
    ("eko.kernels.singlet", "r_vec", 2),
    ("eko.interpolation", "InterpolatorDispatcher.__init__", 0),
    ("eko.interpolation", "InterpolatorDispatcher.__init__", 1),
}
# Loops that are found by what they iterate over rather than by their position: the outermost for-loop of the function whose iterable mentions the named
# PARAMETER of the function (part of the function's interface, unlike the position of the loop or the names of its locals).  Key: (module, function, "iter:<parameter>").
ANCHORED = {
    ("eko.kernels.singlet_qed", "eko_iterate"): "ev_op_iterations",
    ("eko.kernels.non_singlet_qed", "exact"): "ev_op_iterations",
}
ACTIVE_CUTS: dict = {}


class Poison:
    """value of a loop-assigned name that the loop contract does not describe: any use is a checker error."""

    def __init__(self, name):
        self._n = name

    def _bad(self, *a, **k):
        from .terms import Unsupported

        raise Unsupported(f"loop cut: variable {self._n!r} is assigned in the loop but not described by the loop contract")

    __add__ = __radd__ = __mul__ = __rmul__ = __sub__ = __rsub__ = __truediv__ = __rtruediv__ = __getitem__ = __call__ = __bool__ = __matmul__ = __rmatmul__ = _bad


def _vclen(x):
    f = getattr(x, "__vclen__", None)
    return f() if f is not None else len(x)


def _vc_loop(keys):
    for key in keys:
        sp = ACTIVE_CUTS.get(key)
        if sp is not None:
            return sp
    return None


class LoopSpec:
    """Invariant cut of one loop.  Subclass / instantiate with callables:
       fresh(phase) -> {name: value}   values of the loop-carried names satisfying the invariant *by construction*
                                       (phase 'iter': arbitrary iteration; 'exit': after the loop)
       target()     -> value bound to the loop target in the arbitrary iteration
       entry(env, iterable)  : obligations 'invariant holds on entry'
       preserved(env)        : obligations 'invariant holds after the body'
    """

    def __init__(self, fresh, target, entry, preserved, prefix=None):
        self.fresh, self.target, self._entry, self._preserved, self._prefix = fresh, target, entry, preserved, prefix
        self.entered = 0
        self.carried = ()        # names assigned in the loop (set by the transformed code before the loop is entered)
        self.selfref = ()        # those of them that some statement of the body updates from their own previous value
        self.live_in = ()        # the carried names that are bound before the loop

    def prefix(self, lazy_iter, env):
        """concrete iterations peeled off before the cut (default: none); lazy_iter() evaluates the loop's iterable"""
        if self._prefix is None:
            return ()
        return self._prefix(lazy_iter, dict(env))

    def entry(self, env, iterable):
        self.entered += 1
        self.live_in = tuple(n for n in self.carried if n in env)
        self._entry(dict(env), iterable)

    def accumulator(self):
        """the name of THE accumulator of the loop, whatever the code calls it: the only name that is bound before the loop and updated in the body from its own
        previous value (e = step @ e, res *= step)"""
        from .terms import Unsupported

        acc = [n for n in self.live_in if n in self.selfref]
        if len(acc) != 1:
            raise Unsupported(f"loop contract written for one accumulator, the loop has {acc}")
        return acc[0]

    def havoc(self, names, phase="iter"):
        vals = self.fresh(phase)
        return tuple(vals[n] if n in vals else Poison(n) for n in names)

    def preserved(self, env):
        self._preserved(dict(env))

    def exit(self, names):
        return self.havoc(names, "exit")


PRELUDE = (
    "from pyvc.rt import _vcQ, _vcdiv, _vcpow, imag_unit as _vcI, vfloat as float, vcomplex as complex, "
    "vint as int, vround as round\n"
    "from pyvc.hook import _vc_loop, _vclen\n"
)


def is_exact(name):
    if name in NO_TRANSFORM:
        return False
    return any(name == p or name.startswith(p + ".") for p in EXACT_PREFIXES)


class _Tr(ast.NodeTransformer):
    def __init__(self, modname=""):
        self.n_float = self.n_div = self.n_pow = self.n_imp = self.n_fun = 0
        self.modname = modname
        self.qual = []
        self.loop_ord = []
        self.fn_args = []
        self.loop_depth = []
        self.cuts = []

    def visit_ClassDef(self, node):
        self.qual.append(node.name)
        self.generic_visit(node)
        self.qual.pop()
        return node

    def visit_FunctionDef(self, node):
        self.n_fun += 1
        self.qual.append(node.name)
        self.loop_ord.append(0)
        self.fn_args.append({a.arg for a in node.args.args + node.args.kwonlyargs})
        self.loop_depth.append(0)
        self.generic_visit(node)
        self.loop_depth.pop()
        self.fn_args.pop()
        self.loop_ord.pop()
        self.qual.pop()
        return node

    def visit_For(self, node):
        if not self.loop_ord:
            self.generic_visit(node)
            return node
        ordinal = self.loop_ord[-1]
        self.loop_ord[-1] += 1
        key = (self.modname, ".".join(self.qual), ordinal)
        depth = self.loop_depth[-1]
        self.loop_depth[-1] += 1
        self.generic_visit(node)
        self.loop_depth[-1] -= 1
        keys = [key] if key in CUTTABLE else []
        anchor = ANCHORED.get((self.modname, ".".join(self.qual)))
        if anchor and depth == 0 and anchor in self.fn_args[-1] and any(isinstance(n, ast.Name) and n.id == anchor for n in ast.walk(node.iter)):
            keys.append((self.modname, ".".join(self.qual), "iter:" + anchor))
        if not keys:
            return node
        for n in ast.walk(node):
            if isinstance(n, (ast.Break, ast.Continue, ast.Return)) or node.orelse:
                raise RuntimeError(f"loop {key} cannot be cut (break/continue/return/else)")
        names = []
        for n in ast.walk(node):
            if isinstance(n, ast.Name) and isinstance(n.ctx, ast.Store) and n.id not in names:
                names.append(n.id)
        tgt_names = [n.id for n in ast.walk(node.target) if isinstance(n, ast.Name)]
        carried = [n for n in names if n not in tgt_names]
        self.cuts.append(key)
        L = "_vc_L%d" % len(self.cuts)
        keyexpr = ast.Tuple([ast.Tuple([ast.Constant(k) for k in kk], ast.Load()) for kk in keys], ast.Load())
        import copy

        # names updated from their own previous value somewhere in the body (x = f(x), x op= ...): the candidates for accumulators
        selfref = []
        for n in ast.walk(node):
            if isinstance(n, ast.AugAssign) and isinstance(n.target, ast.Name):
                tg, val = [n.target.id], None
            elif isinstance(n, ast.Assign):
                tg, val = [t.id for t in n.targets if isinstance(t, ast.Name)], n.value
            else:
                continue
            for t in tg:
                if t in carried and t not in selfref and (val is None or any(isinstance(m, ast.Name) and m.id == t for m in ast.walk(val))):
                    selfref.append(t)
        selfref_names = f"({', '.join(repr(c) for c in selfref)},)" if selfref else "()"
        carried_tuple = f"({', '.join(carried)},)" if carried else None
        carried_names = f"({', '.join(repr(c) for c in carried)},)" if carried else "()"
        src = f"""
{L} = _vc_loop(None)
if {L} is None:
    pass
else:
    {L}.carried = {carried_names}
    {L}.selfref = {selfref_names}
    for _vc_T in {L}.prefix(lambda: None, locals()):
        pass
    {L}.entry(locals(), None)
    {carried_tuple or '_vc_dummy'} = {L}.havoc({carried_names})
    _vc_T2 = {L}.target()
    pass
    {L}.preserved(locals())
    {carried_tuple or '_vc_dummy'} = {L}.exit({carried_names})
"""
        tmpl = ast.parse(src).body
        assign, iff = tmpl
        assign.value.args = [keyexpr]
        iff.body = [node]
        carried_set, selfref_set, pre_for, entry_call, havoc_assign, tgt_assign0, _pass, preserved_call, exit_assign = iff.orelse
        pre_for.iter.args[0].body = copy.deepcopy(node.iter)          # lambda: ITER (lazy)
        pre_for.target = copy.deepcopy(node.target)
        pre_for.body = [copy.deepcopy(b) for b in node.body]
        tgt_assign = ast.Assign([copy.deepcopy(node.target)], tgt_assign0.value)
        body = [copy.deepcopy(b) for b in node.body]
        iff.orelse = [carried_set, selfref_set, pre_for, entry_call, havoc_assign, tgt_assign] + body + [preserved_call, exit_assign]
        return [ast.copy_location(assign, node), ast.copy_location(iff, node)]

    def visit_Call(self, node):
        self.generic_visit(node)
        # len(x) -> _vclen(x): objects with a symbolic length answer through __vclen__ (Python's len() insists on an int)
        if isinstance(node.func, ast.Name) and node.func.id == "len" and len(node.args) == 1 and not node.keywords:
            return ast.copy_location(ast.Call(ast.Name("_vclen", ast.Load()), node.args, []), node)
        return node

    def visit_Constant(self, node):
        v = node.value
        if isinstance(v, float):
            self.n_float += 1
            return ast.copy_location(
                ast.Call(ast.Name("_vcQ", ast.Load()), [ast.Constant(repr(v))], []), node
            )
        if isinstance(v, complex):
            self.n_float += 1
            call = ast.BinOp(
                ast.Call(ast.Name("_vcI", ast.Load()), [], []),
                ast.Mult(),
                ast.Call(ast.Name("_vcQ", ast.Load()), [ast.Constant(repr(v.imag))], []),
            )
            return ast.copy_location(call, node)
        return node

    def visit_BinOp(self, node):
        self.generic_visit(node)
        if isinstance(node.op, ast.Div):
            self.n_div += 1
            return ast.copy_location(ast.Call(ast.Name("_vcdiv", ast.Load()), [node.left, node.right], []), node)
        if isinstance(node.op, ast.Pow):
            self.n_pow += 1
            return ast.copy_location(ast.Call(ast.Name("_vcpow", ast.Load()), [node.left, node.right], []), node)
        return node

    def visit_AugAssign(self, node):
        self.generic_visit(node)
        if isinstance(node.op, (ast.Div, ast.Pow)):
            fn = "_vcdiv" if isinstance(node.op, ast.Div) else "_vcpow"
            if isinstance(node.op, ast.Div):
                self.n_div += 1
            else:
                self.n_pow += 1
            import copy

            load = copy.deepcopy(node.target)
            for n in ast.walk(load):
                if hasattr(n, "ctx"):
                    n.ctx = ast.Load()
            return ast.copy_location(
                ast.Assign([node.target], ast.Call(ast.Name(fn, ast.Load()), [load, node.value], [])), node
            )
        return node

    def visit_Import(self, node):
        out = []
        for a in node.names:
            tgt = a.asname or a.name.split(".")[0]
            if a.name == "numpy":
                self.n_imp += 1
                out.append(ast.ImportFrom("pyvc.vnp", [ast.alias("np_shim", tgt)], 0))
            elif a.name == "numba":
                self.n_imp += 1
                out.append(ast.ImportFrom("pyvc", [ast.alias("vnb", tgt)], 0))
            elif a.name == "math":
                self.n_imp += 1
                out.append(ast.ImportFrom("pyvc.vnp", [ast.alias("math_shim", tgt)], 0))
            elif a.name == "scipy.special":
                self.n_imp += 1
                out.append(ast.ImportFrom("pyvc.vnp", [ast.alias("sp_shim", a.asname or "scipy_special")], 0))
            else:
                out.append(ast.Import([a]))
        return [ast.copy_location(o, node) for o in out]

    def visit_ImportFrom(self, node):
        if node.level == 0 and node.module == "scipy.special":
            self.n_imp += 1
            return ast.copy_location(ast.ImportFrom("pyvc.vnp", node.names, 0), node)
        if node.level == 0 and node.module == "math":
            self.n_imp += 1
            names = []
            for a in node.names:
                names.append(ast.alias({"nan": "NAN", "inf": "INF", "atan": "arctan"}.get(a.name, a.name), a.asname or a.name))
            return ast.copy_location(ast.ImportFrom("pyvc.vnp", names, 0), node)
        if node.level == 0 and node.module == "numba":
            self.n_imp += 1
            return ast.copy_location(ast.ImportFrom("pyvc.vnb", node.names, 0), node)
        return node


def transform_source(src, filename, name=""):
    tree = ast.parse(src, filename)
    tr = _Tr(name)
    tree = tr.visit(tree)
    # insert the prelude after the docstring and __future__ imports
    pre = ast.parse(PRELUDE).body
    i = 0
    body = tree.body
    if body and isinstance(body[0], ast.Expr) and isinstance(getattr(body[0], "value", None), ast.Constant) and isinstance(body[0].value.value, str):
        i = 1
    while i < len(body) and isinstance(body[i], ast.ImportFrom) and body[i].module == "__future__":
        i += 1
    tree.body = body[:i] + pre + body[i:]
    ast.fix_missing_locations(tree)
    STATS["float_literals"] += tr.n_float
    STATS["divisions"] += tr.n_div
    STATS["powers"] += tr.n_pow
    STATS["imports_rebound"] += tr.n_imp
    STATS["functions"] += tr.n_fun
    STATS["modules"].append(name)
    STATS.setdefault("cuttable_loops", []).extend(tr.cuts)
    return tree


class _Loader(importlib.machinery.SourceFileLoader):
    def source_to_code(self, data, path, *, _optimize=-1):
        src = data.decode("utf-8") if isinstance(data, (bytes, bytearray)) else data
        tree = transform_source(src, path, self.name)
        return compile(tree, path, "exec", dont_inherit=True, optimize=_optimize)

    # never use or write .pyc for transformed code
    def get_code(self, fullname):
        data = self.get_data(self.get_filename(fullname))
        return self.source_to_code(data, self.get_filename(fullname))


class _PlainLoader(importlib.machinery.SourceFileLoader):
    """untransformed, but still read from REPO_SRC and without bytecode caching."""

    def get_code(self, fullname):
        path = self.get_filename(fullname)
        return compile(self.get_data(path), path, "exec", dont_inherit=True)


class Finder(importlib.abc.MetaPathFinder):
    TOPS = ("eko", "ekore", "ekobox", "ekomark")

    def find_spec(self, fullname, path=None, target=None):
        top = fullname.split(".")[0]
        if top not in self.TOPS:
            return None
        rel = fullname.replace(".", "/")
        base = os.path.join(REPO_SRC[0], rel)
        if os.path.isdir(base) and os.path.isfile(os.path.join(base, "__init__.py")):
            fn = os.path.join(base, "__init__.py")
            pkg = True
        elif os.path.isfile(base + ".py"):
            fn = base + ".py"
            pkg = False
        else:
            return None
        cls = _Loader if is_exact(fullname) else _PlainLoader
        loader = cls(fullname, fn)
        return importlib.util.spec_from_file_location(
            fullname, fn, loader=loader, submodule_search_locations=[base] if pkg else None
        )


_installed = [False]


def install(repo_src=None):
    if repo_src:
        REPO_SRC[0] = repo_src
    if _installed[0]:
        return
    os.environ.setdefault("NUMBA_DISABLE_JIT", "1")
    sys.dont_write_bytecode = True
    for m in list(sys.modules):
        if m.split(".")[0] in Finder.TOPS:
            raise RuntimeError(f"{m} imported before the pyvc hook was installed")
    sys.meta_path.insert(0, Finder())
    _installed[0] = True
