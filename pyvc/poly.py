"""Exact polynomial / rational-function normal form back end ("poly-NF").

A value of the term IR is converted to  num / prod(den_i ^ e_i)  where num and the den_i are sparse
polynomials with rational coefficients over *generators*: the free variables and the purified
transcendental atoms.  Two rational functions are equal iff  num_a * (L/den_a) - num_b * (L/den_b)  is the
zero polynomial (L = lcm of the factored denominators) -- no gcd is ever needed, and the test is complete
for identities in the fraction field Q(generators).  Atom relations (sqrt(t)^2 = t, root(t,3)^3 = t,
I^2 = -1) are applied as rewrite rules on the final numerator; exponentials are combined per monomial
(exp(u) exp(v) = exp(u+v), an identity over C without side conditions); logarithms of products are split
only when every factor is proved positive from the current assumptions (z3).

Soundness: "zero" answers are proofs (every step is a ring identity or a declared atom law); "non-zero"
answers are only candidates for refutation (atoms could be related in ways the rules do not know).
"""
from __future__ import annotations

from fractions import Fraction
import itertools

from . import terms as T
from .terms import Sym, Unsupported

Q = Fraction

# ----------------------------------------------------------------------------------------------------
# generators
# ----------------------------------------------------------------------------------------------------
GENS: list = []  # gid -> dict(kind='var'|'atom', name=..., f=..., args=(RatFunc,...), node=...)
_var_gid: dict = {}


def gen_var(name):
    g = _var_gid.get(name)
    if g is None:
        g = len(GENS)
        GENS.append(dict(kind="var", name=name))
        _var_gid[name] = g
    return g


def gen_name(g):
    d = GENS[g]
    if d["kind"] == "var":
        return d["name"]
    return d["name"]


# ----------------------------------------------------------------------------------------------------
# sparse polynomials: dict {mono: Fraction}, mono = tuple of (gid, exp) sorted by gid
# ----------------------------------------------------------------------------------------------------
def p_const(c):
    c = Q(c)
    return {(): c} if c else {}


def p_gen(g, k=1):
    return {((g, k),): Q(1)}


def p_add(a, b):
    if len(a) < len(b):
        a, b = b, a
    r = dict(a)
    for m, c in b.items():
        v = r.get(m)
        if v is None:
            r[m] = c
        else:
            v = v + c
            if v:
                r[m] = v
            else:
                del r[m]
    return r


def p_neg(a):
    return {m: -c for m, c in a.items()}


def p_sub(a, b):
    return p_add(a, p_neg(b))


def p_scale(a, c):
    if not c:
        return {}
    if c == 1:
        return a
    return {m: v * c for m, v in a.items()}


def m_mul(m1, m2):
    if not m1:
        return m2
    if not m2:
        return m1
    r = []
    i = j = 0
    n1, n2 = len(m1), len(m2)
    while i < n1 and j < n2:
        g1, e1 = m1[i]
        g2, e2 = m2[j]
        if g1 == g2:
            r.append((g1, e1 + e2))
            i += 1
            j += 1
        elif g1 < g2:
            r.append(m1[i])
            i += 1
        else:
            r.append(m2[j])
            j += 1
    r.extend(m1[i:])
    r.extend(m2[j:])
    return tuple(r)


MAX_TERMS = [400000]


def p_mul(a, b):
    if not a or not b:
        return {}
    if len(a) < len(b):
        a, b = b, a
    if len(b) == 1:
        ((m2, c2),) = b.items()
        if not m2:
            return p_scale(a, c2)
        return {m_mul(m1, m2): c1 * c2 for m1, c1 in a.items()}
    if len(a) * len(b) > 50 * MAX_TERMS[0]:
        raise Unsupported(f"polynomial product too large ({len(a)} x {len(b)} terms)")
    r = {}
    for m2, c2 in b.items():
        for m1, c1 in a.items():
            m = m_mul(m1, m2)
            v = r.get(m)
            if v is None:
                r[m] = c1 * c2
            else:
                v = v + c1 * c2
                if v:
                    r[m] = v
                else:
                    del r[m]
    return r


def p_pow(a, k):
    r = p_const(1)
    base = a
    while k:
        if k & 1:
            r = p_mul(r, base)
        k >>= 1
        if k:
            base = p_mul(base, base)
    return r


def p_key(a):
    return tuple(sorted(a.items()))


def p_gens(a):
    s = set()
    for m in a:
        for g, _ in m:
            s.add(g)
    return s


def p_str(a, limit=12):
    if not a:
        return "0"
    out = []
    for m, c in sorted(a.items())[:limit]:
        mon = "*".join(gen_name(g) + (f"^{e}" if e != 1 else "") for g, e in m)
        out.append(f"{c}" + (f"*{mon}" if mon else ""))
    s = " + ".join(out)
    if len(a) > limit:
        s += f" + … ({len(a)} terms)"
    return s


def p_split(a):
    """a = c * mono * prim, prim primitive with positive leading coefficient (first in sorted order).

    Returns (c, mono, prim).  For the zero polynomial raises.
    """
    if not a:
        raise ZeroDivisionError("split of zero polynomial")
    # monomial content
    monos = list(a.keys())
    common = dict(monos[0])
    for m in monos[1:]:
        d = dict(m)
        for g in list(common):
            e = d.get(g)
            if e is None:
                del common[g]
            elif e < common[g]:
                common[g] = e
        if not common:
            break
    mono = tuple(sorted(common.items()))
    if mono:
        def strip(m):
            out = []
            for g, e in m:
                e2 = e - common.get(g, 0)
                if e2:
                    out.append((g, e2))
            return tuple(out)
        a = {strip(m): c for m, c in a.items()}
    # rational content: make coefficients coprime integers, leading positive
    lead = a[min(a.keys())]
    from math import gcd

    num_g = 0
    den_l = 1
    for c in a.values():
        num_g = gcd(num_g, c.numerator)
        den_l = den_l * c.denominator // gcd(den_l, c.denominator)
    cont = Q(num_g, den_l)
    if lead < 0:
        cont = -cont
    prim = {m: c / cont for m, c in a.items()}
    return cont, mono, prim


# ----------------------------------------------------------------------------------------------------
# rational functions with factored denominators
# ----------------------------------------------------------------------------------------------------
class RF:
    """num / prod(f^e for (key -> (f, e)) in den).  den factors are primitive polys or single generators."""

    __slots__ = ("num", "den")

    def __init__(self, num, den=None):
        self.num = num
        self.den = den or {}

    def is_zero(self):
        return not self.num

    def is_const(self):
        return not self.den and (not self.num or list(self.num.keys()) == [()])

    def const(self):
        return self.num.get((), Q(0))

    def __repr__(self):
        s = p_str(self.num)
        if self.den:
            s = f"({s}) / " + " ".join(f"[{p_str(f)}]^{e}" for f, e in self.den.values())
        return s


def rf_const(c):
    return RF(p_const(c))


def _den_lcm(d1, d2):
    L = dict(d1)
    for k, (f, e) in d2.items():
        if k in L:
            if L[k][1] < e:
                L[k] = (f, e)
        else:
            L[k] = (f, e)
    return L


def _den_cofactor(L, d):
    """polynomial  prod f^(L_e - d_e)"""
    r = p_const(1)
    for k, (f, e) in L.items():
        e0 = d[k][1] if k in d else 0
        if e > e0:
            r = p_mul(r, p_pow(f, e - e0))
    return r


def _cheap_cancel(num, den):
    """cancel den factors that visibly divide num (single generators; num proportional to a factor)."""
    if not den or not num:
        return (num, {} if not num else den)
    den = dict(den)
    changed = True
    while changed and den:
        changed = False
        for k, (f, e) in list(den.items()):
            if len(f) == 1:
                ((m, _),) = f.items()
                if len(m) == 1:
                    g, _one = m[0]
                    # min exponent of g over num
                    mn = None
                    for mono in num:
                        ee = 0
                        for gg, x in mono:
                            if gg == g:
                                ee = x
                                break
                        mn = ee if mn is None else min(mn, ee)
                        if mn == 0:
                            break
                    if mn:
                        c = min(mn, e)
                        num2 = {}
                        for mono, co in num.items():
                            mm = tuple((gg, x - c) if gg == g else (gg, x) for gg, x in mono)
                            mm = tuple(p for p in mm if p[1])
                            num2[mm] = co
                        num = num2
                        if e - c:
                            den[k] = (f, e - c)
                        else:
                            del den[k]
                        changed = True
                    continue
            # polynomial factor: try exact division when sizes make it plausible
            if len(num) >= len(f):
                qt = p_divexact(num, f)
                if qt is not None:
                    num = qt
                    if e - 1:
                        den[k] = (f, e - 1)
                    else:
                        del den[k]
                    changed = True
    return num, den


def _m_div(m1, m2):
    """m1 / m2 or None"""
    d = dict(m1)
    for g, e in m2:
        x = d.get(g, 0) - e
        if x < 0:
            return None
        if x:
            d[g] = x
        else:
            del d[g]
    return tuple(sorted(d.items()))


def p_divexact(a, b):
    """a / b if b divides a exactly (multivariate division w.r.t. lex order on generators), else None."""
    if not b:
        return None
    if len(b) == 1:
        ((mb, cb),) = b.items()
        out = {}
        for m, c in a.items():
            q = _m_div(m, mb)
            if q is None:
                return None
            out[q] = c / cb
        return out
    # pure lexicographic order by generator id (admissible)
    def lm(p):
        # largest in lex order where smaller gid is more significant and higher exponent is larger
        best = None
        bk = None
        for m in p:
            k = _lex(m)
            if bk is None or k > bk:
                best, bk = m, k
        return best

    lb = lm(b)
    cb = b[lb]
    rem = dict(a)
    quo = {}
    steps = 0
    while rem:
        steps += 1
        if steps > 20000:
            return None
        la = lm(rem)
        q = _m_div(la, lb)
        if q is None:
            return None
        c = rem[la] / cb
        quo[q] = quo.get(q, 0) + c
        rem = p_sub(rem, p_mul({q: c}, b))
    return {m: c for m, c in quo.items() if c}


_MAXG = 10**6


def _lex(m):
    # dense-ish comparison key: list of (gid asc) -> we need a total admissible order:
    # compare by generator id ascending; a monomial containing a smaller gid with higher exponent is larger.
    # Represent as tuple of (-gid, exp) sorted by gid ascending then compare lexicographically after
    # aligning: use the trick of mapping to tuple of (gid, exp) and comparing via custom function is slow;
    # instead use: sorted list of (gid, exp); monomial order = lex on exponent vector (e_g0, e_g1, ...).
    # Emulate by tuple of pairs (−gid, e): for two monomials, the first differing generator decides.
    return _LexKey(m)


class _LexKey:
    __slots__ = ("m",)

    def __init__(self, m):
        self.m = m

    def __gt__(self, o):
        a, b = self.m, o.m
        i = j = 0
        while i < len(a) and j < len(b):
            ga, ea = a[i]
            gb, eb = b[j]
            if ga == gb:
                if ea != eb:
                    return ea > eb
                i += 1
                j += 1
            elif ga < gb:
                return True  # a has positive exponent on a more significant generator
            else:
                return False
        return i < len(a)


def rf_make(num, den):
    num, den = _cheap_cancel(num, den)
    return RF(num, den)


def rf_add(a, b):
    if not a.num:
        return b
    if not b.num:
        return a
    if a.den == b.den or (not a.den and not b.den):
        return rf_make(p_add(a.num, b.num), a.den)
    L = _den_lcm(a.den, b.den)
    n = p_add(p_mul(a.num, _den_cofactor(L, a.den)), p_mul(b.num, _den_cofactor(L, b.den)))
    return rf_make(n, L)


def rf_neg(a):
    return RF(p_neg(a.num), a.den)


def rf_mul(a, b):
    if not a.num or not b.num:
        return RF({})
    den = dict(a.den)
    for k, (f, e) in b.den.items():
        if k in den:
            den[k] = (f, den[k][1] + e)
        else:
            den[k] = (f, e)
    return rf_make(p_mul(a.num, b.num), den)


def rf_inv(a):
    if not a.num:
        raise ZeroDivisionError("division by a term that is identically zero")
    c, mono, prim = p_split(a.num)
    num = p_const(1 / c)
    for f, e in a.den.values():
        num = p_mul(num, p_pow(f, e))
    den = {}
    for g, e in mono:
        info = GENS[g]
        if info["kind"] == "atom" and info["f"] == "exp":
            # 1/exp(t)^e = exp(-t)^e
            g2 = atom_gen("exp", (rf_neg(info["args"][0]),))
            num = p_mul(num, p_gen(g2, e))
        else:
            f = p_gen(g)
            den[p_key(f)] = (f, e)
    if list(prim.keys()) != [()]:
        den[p_key(prim)] = (prim, 1)
    else:
        num = p_scale(num, 1 / prim[()])
    return rf_make(num, den)


def rf_pow(a, k):
    if k == 0:
        return rf_const(1)
    if k < 0:
        return rf_pow(rf_inv(a), -k)
    return RF(p_pow(a.num, k), {key: (f, e * k) for key, (f, e) in a.den.items()})


def rf_sub(a, b):
    return rf_add(a, rf_neg(b))


def rf_eq(a, b):
    return is_zero_rf(rf_sub(a, b))


# ----------------------------------------------------------------------------------------------------
# atoms
# ----------------------------------------------------------------------------------------------------
_atoms: dict = {}  # fname -> list of gids


def atom_gen(f, args, label=None):
    """generator for the atom f(args) ; args are RFs (compared by exact identity test)."""
    for g in _atoms.get(f, ()):
        a2 = GENS[g]["args"]
        if len(a2) == len(args) and all(_rf_same(x, y) for x, y in zip(a2, args)):
            return g
    g = len(GENS)
    nm = label or f"{f}#{g}"
    GENS.append(dict(kind="atom", f=f, args=tuple(args), name=nm))
    _atoms.setdefault(f, []).append(g)
    return g


def _rf_same(x, y):
    if x is y:
        return True
    if x.den == y.den:
        return x.num == y.num
    d = rf_sub(x, y)
    return not reduce_relations(d.num)


# relations:  generator g with g^k = RF  (k = 2 for sqrt and I, q for root(t,q))
def relation_of(g):
    info = GENS[g]
    if info["kind"] != "atom":
        return None
    f = info["f"]
    if f == "sqrt":
        return 2, info["args"][0]
    if f == "root":
        q = info["args"][1]
        return int(q.const()), info["args"][0]
    if f == "I":
        return 2, rf_const(-1)
    if f == "sign":
        return 2, rf_const(1)
    return None


def reduce_relations(num):
    """Reduce a numerator polynomial modulo the atom relations (clearing the relation's denominators).

    Returns a polynomial that is zero iff (sufficient) the input vanishes given the relations.
    """
    if not num:
        return num
    for _ in range(64):
        target = None
        for m in num:
            for g, e in m:
                rel = relation_of(g)
                if rel is not None and e >= rel[0]:
                    target = (g, rel)
                    break
            if target:
                break
        if target is None:
            return num
        g, (k, rhs) = target
        # num = sum_j P_j g^j ; replace g^j by rhs^(j//k) g^(j%k); multiply through by den(rhs)^maxpow
        parts = {}
        for m, c in num.items():
            e = 0
            rest = []
            for gg, x in m:
                if gg == g:
                    e = x
                else:
                    rest.append((gg, x))
            parts.setdefault(e, {})[tuple(rest)] = c
        maxq = max(e // k for e in parts)
        rden = p_const(1)
        for f, e in rhs.den.values():
            rden = p_mul(rden, p_pow(f, e))
        out = {}
        for e, pj in parts.items():
            qn, rr = divmod(e, k)
            term = p_mul(pj, p_pow(rhs.num, qn))
            term = p_mul(term, p_pow(rden, maxq - qn))
            if rr:
                term = p_mul(term, p_gen(g, rr))
            out = p_add(out, term)
        num = out
        if not num:
            return num
    raise Unsupported("relation reduction did not terminate")


def combine_exps(num):
    """Group the monomials of a numerator by their combined exponential; returns list of polynomials that
    must all vanish (sufficient condition)."""
    has = False
    for m in num:
        for g, _ in m:
            info = GENS[g]
            if info["kind"] == "atom" and info["f"] == "exp":
                has = True
                break
        if has:
            break
    if not has:
        return [num]
    groups = []  # (argRF, poly)
    for m, c in num.items():
        arg = RF({})
        rest = []
        for g, e in m:
            info = GENS[g]
            if info["kind"] == "atom" and info["f"] == "exp":
                arg = rf_add(arg, rf_mul(rf_const(e), info["args"][0]))
            else:
                rest.append((g, e))
        rest = tuple(rest)
        for i, (a2, p2) in enumerate(groups):
            if _rf_same(a2, arg):
                groups[i] = (a2, p_add(p2, {rest: c}))
                break
        else:
            groups.append((arg, {rest: c}))
    return [p for _, p in groups]


def is_zero_rf(r):
    if not r.num:
        return True
    for p in combine_exps(r.num):
        if reduce_relations(p):
            return False
    return True


# ----------------------------------------------------------------------------------------------------
# DAG -> RF
# ----------------------------------------------------------------------------------------------------
class NFContext:
    """Holds the assumptions used for side conditions (positivity for ln-splitting) and the log of the
    atom laws actually used."""

    def __init__(self, assumptions=(), prover=None):
        self.assumptions = list(assumptions)
        self.prover = prover  # callable(list_of_assumption_Syms, goal_Sym) -> bool
        self.memo = {}
        self.laws_used = set()
        self.nonzero_dens = []
        self._pos_cache = {}
        self.log_additive = False  # assume ln(xy) = ln x + ln y without proving positivity (recorded as an assumption)

    def positive(self, sym):
        if self.prover is None:
            return False
        k = sym.n
        r = self._pos_cache.get(k)
        if r is None:
            r = bool(self.prover(self.assumptions, sym > 0))
            self._pos_cache[k] = r
        return r


_PRIMES_CACHE = {}


def _factor_int(n):
    r = {}
    p = 2
    while p * p <= n:
        while n % p == 0:
            r[p] = r.get(p, 0) + 1
            n //= p
        p += 1 if p == 2 else 2
    if n > 1:
        r[n] = r.get(n, 0) + 1
    return r


def poly_to_sym(p):
    """polynomial over generators -> Sym (for positivity queries / reporting)."""
    tot = T.ZERO
    for m, c in p.items():
        t = T.const(c)
        for g, e in m:
            t = T.mul(t, T.power(gen_sym(g), e))
        tot = T.add(tot, t)
    return tot


def gen_sym(g):
    info = GENS[g]
    if info["kind"] == "var":
        return T.var(info["name"], info.get("sort", "real"))
    if "node" in info:
        return Sym(info["node"])
    return T.app(info["f"], *[rf_to_sym(a) for a in info["args"]])


def rf_to_sym(r):
    s = poly_to_sym(r.num)
    for f, e in r.den.values():
        s = T.div(s, T.power(poly_to_sym(f), e))
    return s


def to_rf(x, ctx: NFContext | None = None):
    ctx = ctx or NFContext()
    x = T.lift(x)
    if x is NotImplemented:
        raise Unsupported("to_rf of a non-number")
    memo = ctx.memo

    def go(n):
        r = memo.get(n)
        if r is not None:
            return r
        t = T.node(n)
        op = t[0]
        if op == "c":
            r = rf_const(t[1])
        elif op == "v":
            g = gen_var(t[1])
            GENS[g]["sort"] = t[2]
            r = RF(p_gen(g))
        elif op == "+":
            r = rf_add(go(t[1]), go(t[2]))
        elif op == "neg":
            r = rf_neg(go(t[1]))
        elif op == "*":
            r = rf_mul(go(t[1]), go(t[2]))
        elif op == "/":
            r = rf_mul(go(t[1]), rf_inv(go(t[2])))
        elif op == "^":
            r = rf_pow(go(t[1]), t[2])
        elif op == "app":
            r = go_app(n, t[1], t[2])
        elif op == "ite":
            raise Unsupported("ite reached poly-NF (split the obligation per path)")
        else:
            raise Unsupported(f"to_rf: {op}")
        memo[n] = r
        return r

    def go_app(n, f, argn):
        args = [go(a) for a in argn]
        if any(_has_sign(x) for x in args):
            # f(arg(sigma)) = (1+sigma)/2 f(arg(+1)) + (1-sigma)/2 f(arg(-1))   for sigma^2 = 1
            ctx.laws_used.add("f(u(sigma)) = (1+sigma)/2 f(u(1)) + (1-sigma)/2 f(u(-1)) for a sign sigma (sigma^2 = 1)")
            return _split_sign(f, args, ctx)
        if f == "ln":
            return ln_rf(args[0], ctx)
        if f == "exp":
            if args[0].is_zero():
                return rf_const(1)
            return RF(p_gen(atom_gen("exp", (args[0],))))
        if f == "pow":
            base, e = args
            # b^e = exp(e ln b) for b > 0
            if ctx.positive(rf_to_sym(base)):
                ctx.laws_used.add("pow(b,e) = exp(e ln b) for b > 0")
                arg = rf_mul(e, ln_rf(base, ctx))
                if arg.is_zero():
                    return rf_const(1)
                return RF(p_gen(atom_gen("exp", (arg,))))
            return RF(p_gen(atom_gen("pow", tuple(args))))
        if f == "atan" and args[0].is_zero():
            return RF({})
        if f == "sqrt":
            a = args[0]
            if a.is_const():
                r = T.exact_root(a.const(), Q(1, 2)) if a.const() >= 0 else None
                if r is not None:
                    return rf_const(r)
            ctx.laws_used.add("sqrt(t)^2 = t")
            return sqrt_rf(a, ctx)
        if f == "root":
            if args[0].is_const() and args[1].is_const():
                r = T.exact_root(args[0].const(), Q(1, int(args[1].const()))) if args[0].const() >= 0 else None
                if r is not None:
                    return rf_const(r)
            ctx.laws_used.add("root(t,q)^q = t")
        if f == "I":
            ctx.laws_used.add("I^2 = -1")
        return RF(p_gen(atom_gen(f, tuple(args))))

    return go(x.n)


def _sign_gens(r):
    out = set()
    for p in [r.num] + [f for f, _ in r.den.values()]:
        for g in p_gens(p):
            info = GENS[g]
            if info["kind"] == "atom" and info["f"] == "sign":
                out.add(g)
    return out


def _has_sign(r):
    return bool(_sign_gens(r))


def p_subst_gen(p, g, val):
    """substitute generator g := rational constant val in polynomial p"""
    out = {}
    for m, c in p.items():
        e = 0
        rest = []
        for gg, x in m:
            if gg == g:
                e = x
            else:
                rest.append((gg, x))
        c2 = c * (Q(val) ** e)
        if not c2:
            continue
        k = tuple(rest)
        v = out.get(k, 0) + c2
        if v:
            out[k] = v
        else:
            out.pop(k, None)
    return out


def rf_subst_gen(r, g, val):
    num = p_subst_gen(r.num, g, val)
    acc = RF(num)
    for f, e in r.den.values():
        f2 = p_subst_gen(f, g, val)
        if not f2:
            raise ZeroDivisionError("sign substitution makes a denominator vanish")
        acc = rf_mul(acc, rf_pow(rf_inv(RF(f2)), e))
    return acc


def _split_sign(f, args, ctx):
    g = sorted(set().union(*[_sign_gens(a) for a in args]))[0]
    res = RF({})
    for val, weight in ((1, RF(p_add(p_const(Q(1, 2)), p_scale(p_gen(g), Q(1, 2))))), (-1, RF(p_sub(p_const(Q(1, 2)), p_scale(p_gen(g), Q(1, 2)))))):
        a2 = [rf_subst_gen(a, g, val) for a in args]
        if any(_has_sign(x) for x in a2):
            inner = _split_sign(f, a2, ctx)
        else:
            inner = _app_rf(f, a2, ctx)
        res = rf_add(res, rf_mul(weight, inner))
    return res


def _app_rf(f, args, ctx):
    """RF of f(args) for already-normalised arguments (no sign generators inside)."""
    if f == "ln":
        return ln_rf(args[0], ctx)
    if f == "exp":
        if args[0].is_zero():
            return rf_const(1)
        return RF(p_gen(atom_gen("exp", (args[0],))))
    if f == "sqrt":
        return sqrt_rf(args[0], ctx)
    if f == "atan" and args[0].is_zero():
        return RF({})
    return RF(p_gen(atom_gen(f, tuple(args))))


def _to_sympy(p, gens):
    import sympy

    syms = {g: sympy.Symbol(f"g{g}") for g in gens}
    expr = 0
    for m, c in p.items():
        t = sympy.Rational(c.numerator, c.denominator)
        for g, e in m:
            t *= syms[g] ** e
        expr += t
    return expr, syms


def _from_sympy(expr, syms):
    import sympy

    inv = {v: k for k, v in syms.items()}
    if not syms:
        c = sympy.Rational(expr)
        return p_const(Q(int(c.p), int(c.q)))
    poly = sympy.Poly(expr, *syms.values())
    out = {}
    glist = [inv[s_] for s_ in poly.gens]
    for mono, c in poly.terms():
        m = tuple(sorted((g, int(e)) for g, e in zip(glist, mono) if e))
        out[m] = Q(int(c.p), int(c.q))
    return out


_sqf_cache = {}


def p_sqf(p):
    """square-free decomposition: p = c * prod f_i^e_i ; returns (c, [(poly, e)])"""
    import sympy

    key = p_key(p)
    r = _sqf_cache.get(key)
    if r is not None:
        return r
    gens = sorted(p_gens(p))
    if not gens:
        r = (p.get((), Q(0)), [])
    else:
        expr, syms = _to_sympy(p, gens)
        c, facs = sympy.sqf_list(expr, *syms.values())
        c = sympy.Rational(c)
        r = (Q(int(c.p), int(c.q)), [(_from_sympy(f, syms), int(e)) for f, e in facs])
    _sqf_cache[key] = r
    return r


def sqrt_rf(a, ctx):
    """sqrt of a rational function: perfect-square factors are pulled out with a sign atom
    (sqrt(t^2 u) = sigma t sqrt(u), sigma^2 = 1, valid for every complex t, u)."""
    if a.is_zero():
        return RF({})
    # sqrt(n/D) = sigma sqrt(n D)/D ; with D = prod d_i^e_i :  n D = n prod d_i^e_i
    facs = []  # (poly, exponent) of the radicand numerator n * D
    c, sq = p_sqf(a.num)
    for f, e in sq:
        facs.append((f, e))
    for f, e in a.den.values():
        facs.append((f, e))
    outside = RF(p_const(1))
    inside = p_const(1)
    pulled = False
    merged = {}
    for f, e in facs:
        cc, mono, prim = p_split(f)
        c = c * cc ** e
        for g, ge in mono:
            k = p_key(p_gen(g))
            merged[k] = (p_gen(g), merged.get(k, (None, 0))[1] + ge * e)
        if list(prim.keys()) != [()]:
            k = p_key(prim)
            merged[k] = (prim, merged.get(k, (None, 0))[1] + e)
        else:
            c = c * prim[()] ** e
    for k, (f, e) in merged.items():
        if e // 2:
            outside = rf_mul(outside, RF(p_pow(f, e // 2)))
            pulled = True
        if e % 2:
            inside = p_mul(inside, f)
    # rational constant: pull exact square part
    cr = None
    if c > 0:
        cr = T.exact_root(c, Q(1, 2))
    if cr is not None:
        outside = rf_mul(outside, rf_const(cr))
    else:
        inside = p_scale(inside, c)
    den = RF(p_const(1))
    for f, e in a.den.values():
        den = rf_mul(den, RF(p_pow(f, e)))
    res = rf_mul(outside, rf_inv(den))
    if list(inside.keys()) != [()] or inside[()] != 1:
        res = rf_mul(res, RF(p_gen(atom_gen("sqrt", (RF(inside),)))))
    if pulled or a.den:
        ctx.laws_used.add("sqrt(t^2 u) = sigma t sqrt(u) with a sign atom sigma^2 = 1 (both signs covered)")
        sg = atom_gen("sign", (a,))
        res = rf_mul(res, RF(p_gen(sg)))
    return res


def ln_rf(a, ctx):
    """ln of a rational function, split into logs of its factors when they are provably positive."""
    if a.is_zero():
        raise Unsupported("ln(0)")
    if a.is_const() and a.const() == 1:
        return RF({})
    c, mono, prim = p_split(a.num)
    pieces = []  # (RF-polynomial factor as poly, multiplicity)
    if list(prim.keys()) != [()]:
        pieces.append((prim, 1))
    else:
        c = c * prim[()]
    for g, e in mono:
        pieces.append((p_gen(g), e))
    for f, e in a.den.values():
        pieces.append((f, -e))
    if ctx.log_additive and c > 0:
        ok = True
        ctx.laws_used.add("ASSUMED: principal complex logarithm additive on the factors involved (no branch cut crossed)")
    else:
        ok = c > 0 and all(ctx.positive(poly_to_sym(f)) for f, _ in pieces)
    trivial = (c == 1 and len(pieces) == 1 and pieces[0][1] == 1)
    if not ok or trivial:
        return RF(p_gen(atom_gen("ln", (a,))))
    if len(pieces) + (c != 1) > 1:
        ctx.laws_used.add("ln(xy) = ln x + ln y for x,y > 0")
    out = RF({})
    for f, e in pieces:
        g = atom_gen("ln", (RF(f),))
        out = rf_add(out, RF(p_scale(p_gen(g), Q(e))))
    if c != 1:
        for p, e in _factor_int(c.numerator).items():
            g = atom_gen("ln", (rf_const(p),), label=f"ln{p}")
            out = rf_add(out, RF(p_scale(p_gen(g), Q(e))))
        for p, e in _factor_int(c.denominator).items():
            g = atom_gen("ln", (rf_const(p),), label=f"ln{p}")
            out = rf_add(out, RF(p_scale(p_gen(g), Q(-e))))
    return out


# ----------------------------------------------------------------------------------------------------
# public API
# ----------------------------------------------------------------------------------------------------
def prove_zero(expr, ctx=None):
    """True iff expr is proved identically zero.  Returns (bool, residual RF)."""
    r = to_rf(expr, ctx)
    return is_zero_rf(r), r


def prove_equal(a, b, ctx=None):
    ctx = ctx or NFContext()
    ra, rb = to_rf(a, ctx), to_rf(b, ctx)
    d = rf_sub(ra, rb)
    return is_zero_rf(d), d


def residual_vars(r):
    return sorted(gen_name(g) for g in p_gens(r.num))
