"""Replay of a verifier counterexample on the *untransformed* repository code (no import hook).

A replay spec is a dict with key ``script``: Python source that defines ``replay()`` returning
``(reproduced: bool, detail: str)``.  It is executed by /verif/.venv/bin/python in a subprocess with
PYTHONPATH=<repo src> and NUMBA_DISABLE_JIT=1.  Helpers below generate the common scripts.
"""
from __future__ import annotations

import json
import os
import subprocess
import sys
import tempfile

VERIF = os.path.dirname(os.path.dirname(os.path.abspath(__file__)))

HEADER = '''
import json, sys, math, cmath
import numpy as np

def _dec(x):
    if isinstance(x, dict) and "__np__" in x:
        return np.array(_dec(x["__np__"]), dtype=x.get("dtype"))
    if isinstance(x, dict) and "__complex__" in x:
        return complex(*x["__complex__"])
    if isinstance(x, dict) and "__tuple__" in x:
        return tuple(_dec(v) for v in x["__tuple__"])
    if isinstance(x, dict) and "__enum__" in x:
        mod, name, member = x["__enum__"]
        import importlib
        return getattr(getattr(importlib.import_module(mod), name), member)
    if isinstance(x, list):
        return [_dec(v) for v in x]
    return x

def _resolve(target):
    import importlib
    mod, qual = target.split(":")
    obj = importlib.import_module(mod)
    for part in qual.split("."):
        obj = getattr(obj, part)
    return obj

def _close(a, b, rtol, atol=1e-12):
    a = np.asarray(a, dtype=complex); b = np.asarray(b, dtype=complex)
    if a.shape != b.shape:
        return False
    return bool(np.all(np.abs(a - b) <= atol + rtol * np.maximum(np.abs(a), np.abs(b))))
'''


def enc(x):
    """encode an argument for the replay JSON"""
    from fractions import Fraction
    import enum
    import numpy as np

    if isinstance(x, Fraction):
        return float(x) if x.denominator != 1 else int(x)
    if isinstance(x, complex):
        return {"__complex__": [x.real, x.imag]}
    if isinstance(x, np.ndarray):
        return {"__np__": enc(x.tolist()), "dtype": "complex" if x.dtype == object or np.iscomplexobj(x) else str(x.dtype)}
    if isinstance(x, tuple):
        return {"__tuple__": [enc(v) for v in x]}
    if isinstance(x, list):
        return [enc(v) for v in x]
    if isinstance(x, enum.Enum):
        return {"__enum__": [type(x).__module__, type(x).__qualname__, x.name]}
    if isinstance(x, (np.floating, np.integer)):
        return x.item()
    return x


def native_call(target, args, expect, rtol=1e-8, kwargs=None, note="", post=None):
    """Call target(*args) natively; the violation is reproduced iff the result differs from ``expect``
    (the specification evaluated at the same point).  ``post`` is an optional expression applied to the
    result ``r`` before comparing (e.g. "r[0]")."""
    payload = dict(target=target, args=enc(list(args)), kwargs=enc(kwargs or {}), expect=enc(expect), rtol=rtol, note=note)
    body = f'''
P = json.loads({json.dumps(json.dumps(payload))})
def replay():
    f = _resolve(P["target"])
    try:
        r = f(*_dec(P["args"]), **_dec(P["kwargs"]))
    except Exception as e:
        return True, f"native call raised {{type(e).__name__}}: {{e}} (specification expects {{P['expect']}})"
    {('r = ' + post) if post else ''}
    exp = _dec(P["expect"])
    if r is None:
        return True, f"native call returned None; specification expects {{exp}}"
    ok = _close(r, exp, P["rtol"])
    return (not ok), f"native {{P['target']}} -> {{np.asarray(r).tolist()}} ; specification -> {{np.asarray(exp).tolist()}} ; {{P['note']}}"
'''
    return dict(script=HEADER + body, kind="native_call", target=target)


def script(body, kind="script", **meta):
    d = dict(script=HEADER + body, kind=kind)
    d.update(meta)
    return d


def run_replay(spec, repo_src=None, timeout=300):
    from . import hook

    repo_src = repo_src or hook.REPO_SRC[0]
    code = spec["script"] + "\nok, detail = replay()\nprint('@@REPLAY@@' + json.dumps(dict(reproduced=bool(ok), detail=str(detail))))\n"
    with tempfile.NamedTemporaryFile("w", suffix="_replay.py", delete=False) as f:
        f.write(code)
        path = f.name
    env = dict(os.environ)
    env["PYTHONPATH"] = repo_src
    env["NUMBA_DISABLE_JIT"] = "1"
    env.pop("PYVC_REPO_SRC", None)
    py = os.path.join(VERIF, ".venv", "bin", "python")
    try:
        out = subprocess.run([py, path], capture_output=True, text=True, timeout=timeout, env=env, cwd=tempfile.gettempdir())
    finally:
        os.unlink(path)
    for line in out.stdout.splitlines():
        if line.startswith("@@REPLAY@@"):
            d = json.loads(line[len("@@REPLAY@@"):])
            return d["reproduced"], d["detail"]
    return None, "replay script produced no verdict: " + (out.stderr or out.stdout)[-800:]


def main(argv):
    path = argv[0]
    with open(path) as f:
        rep = json.load(f)
    print(f"property={rep['property']} obligation={rep['obligation']} verdict={rep['verdict']} backend={rep['backend']}")
    print(f"verifier output: {rep.get('verifier_output')}")
    if not rep.get("replay"):
        print("no native replay available for this obligation (no-failing-input-found)")
        return 0
    ok, detail = run_replay(rep["replay"], rep.get("repo_src"))
    print(("REPRODUCED: " if ok else "NOT-REPRODUCED: ") + str(detail))
    return 1 if ok else 0
