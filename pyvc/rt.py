"""Runtime helpers injected into AST-transformed repository modules (T1, T3 of DESIGN.md)."""
from __future__ import annotations

import builtins
from fractions import Fraction

import numpy as _np

from . import terms as T
from .terms import Sym, Unsupported, to_q

_EXACT = (int, Fraction)


def _vcQ(text):
    """exact rational from the decimal text of a float literal (T1)."""
    return Fraction(text)


_vcI = None  # set below


def imag_unit():
    return T.app("I")


def norm(x):
    """normalise scalar results: constant Sym -> Fraction; numpy scalars / floats -> exact."""
    if isinstance(x, Sym):
        return x.const() if x.is_const() else x
    if isinstance(x, bool):
        return x
    if isinstance(x, _EXACT):
        return x
    if isinstance(x, (float, _np.floating, _np.integer)):
        return to_q(x)
    if isinstance(x, complex):
        if x.imag == 0:
            return to_q(x.real)
        return to_q(x.real) + imag_unit() * to_q(x.imag)
    return x


def _vcdiv(a, b):
    if isinstance(a, _EXACT) and isinstance(b, _EXACT) and not isinstance(a, bool) and not isinstance(b, bool):
        return Fraction(a) / Fraction(b)
    if isinstance(a, (float, _np.floating, _np.integer)):
        a = to_q(a)
    if isinstance(b, (float, _np.floating, _np.integer)):
        b = to_q(b)
    if isinstance(a, _EXACT) and isinstance(b, _EXACT):
        return Fraction(a) / Fraction(b)
    if isinstance(a, _np.ndarray):
        a = exact_array(a)
    if isinstance(b, _np.ndarray):
        b = exact_array(b)
    if isinstance(a, int) and not isinstance(a, bool):
        a = Fraction(a)
    if isinstance(b, int) and not isinstance(b, bool):
        b = Fraction(b)
    return norm(a / b) if not isinstance(a, _np.ndarray) and not isinstance(b, _np.ndarray) else a / b


def _vcpow(a, b):
    if isinstance(b, (float, _np.floating)):
        b = to_q(b)
    if isinstance(b, Sym) and b.is_const():
        b = b.const()
    if isinstance(b, Fraction) and b.denominator == 1:
        b = int(b)
    if isinstance(a, (float, _np.floating, _np.integer)):
        a = to_q(a)
    if isinstance(a, _np.ndarray):
        if a.dtype != object:
            a = exact_array(a)
        out = _np.empty(a.shape, dtype=object)
        for idx in _np.ndindex(a.shape):
            out[idx] = _vcpow(a[idx], b)
        return out
    if isinstance(a, _EXACT) and not isinstance(a, bool):
        if isinstance(b, int) and not isinstance(b, bool):
            if b < 0:
                return Fraction(a) ** b
            return a**b
        if isinstance(b, Fraction):
            r = T.exact_root(Fraction(a), b)
            if r is not None:
                return r
            return norm(T.power(T.const(a), b))
        if isinstance(b, Sym):
            return norm(T.power(T.const(a), b))
    if isinstance(a, Sym):
        return norm(T.power(a, b))
    # other domains (Series, Free, ...) implement __pow__ themselves
    return a**b


def exact_array(a):
    """numeric ndarray -> object array of exact rationals (ints stay Fractions to keep / exact)."""
    a = _np.asarray(a)
    if a.dtype == object:
        out = _np.empty(a.shape, dtype=object)
        for idx in _np.ndindex(a.shape):
            v = a[idx]
            if isinstance(v, int) and not isinstance(v, bool):
                v = Fraction(v)          # array elements are never Python ints: numpy's elementwise int / int would be inexact
            out[idx] = norm(v) if not isinstance(v, (list, tuple, _np.ndarray)) else v
        return out
    if a.dtype == bool:
        return a
    out = _np.empty(a.shape, dtype=object)
    for idx in _np.ndindex(a.shape):
        v = norm(a[idx].item())
        out[idx] = Fraction(v) if isinstance(v, int) and not isinstance(v, bool) else v
    return out


# -- builtin replacements ------------------------------------------------------------------------------
class _FloatMeta(type):
    def __instancecheck__(cls, x):
        return isinstance(x, (builtins.float, Fraction, Sym)) and not isinstance(x, bool)

    def __call__(cls, x=0):
        if isinstance(x, str):
            return Fraction(x) if x not in ("nan", "inf", "-inf") else builtins.float(x)
        if isinstance(x, _np.ndarray) and x.size == 1:
            x = x.reshape(-1)[0]
        return norm(x)


class vfloat(metaclass=_FloatMeta):
    """float(x): the identity on exact / symbolic numbers (A1)."""


class FloatDomainError(ArithmeticError):
    """a real (float-typed) operation left its domain: numpy would return nan (with a RuntimeWarning) -- raised by the shims for
    CONCRETE arguments only, e.g. np.sqrt / np.log of a negative rational that was not made complex-typed by complex(..)"""


class CQ(Fraction):
    """an exact rational that the code made complex-typed (complex(x)): np.sqrt / np.log of a negative CQ are well defined.
    The tag survives arithmetic with exact numbers."""

    def _w(name):
        f = getattr(Fraction, name)

        def g(self, *a):
            r = f(Fraction(self), *[Fraction(x) if isinstance(x, CQ) else x for x in a])
            return CQ(r) if isinstance(r, Fraction) else r
        g.__name__ = name
        return g

    for _n in ("__add__", "__radd__", "__sub__", "__rsub__", "__mul__", "__rmul__", "__truediv__", "__rtruediv__", "__neg__", "__pos__"):
        locals()[_n] = _w(_n)
    del _n, _w


class _ComplexMeta(type):
    def __instancecheck__(cls, x):
        return isinstance(x, (builtins.complex, builtins.float, Fraction, Sym)) and not isinstance(x, bool)

    def __call__(cls, re=0, im=None):
        re = norm(re)
        if im is None:
            return CQ(re) if isinstance(re, _EXACT) and not isinstance(re, bool) else re
        im = norm(im)
        if isinstance(im, _EXACT) and im == 0:
            return re
        return norm(T.lift(re) + imag_unit() * T.lift(im))


class vcomplex(metaclass=_ComplexMeta):
    """complex(x) = x ; complex(a, b) = a + I b with the atom I (I^2 = -1)."""


class _IntMeta(type):
    def __instancecheck__(cls, x):
        return isinstance(x, builtins.int)

    def __call__(cls, x=0, *a):
        if a:
            return builtins.int(x, *a)
        if isinstance(x, Sym):
            if x.is_const():
                return builtins.int(x.const())
            if x.op == "v" and x.args[1] == "int":
                return x
            raise Unsupported(f"int() of symbolic real {x!r}")
        if isinstance(x, Fraction):
            return builtins.int(x)
        return builtins.int(x)


class vint(metaclass=_IntMeta):
    """int(x)"""


def vabs(x):
    if isinstance(x, Sym):
        return T.app("abs", x)
    return builtins.abs(x)


def vround(x, nd=None):
    if isinstance(x, Sym):
        raise Unsupported("round() of symbolic value")
    return builtins.round(x, nd) if nd is not None else builtins.round(x)
