"""./vc selftest [Cxx ...]: guard against an unsound or vacuous generator.

For every entry of selftest/catalog.py a scratch copy of <repo>/src is made outside /repo and /verif, one
textual edit is applied, the property's check is run against the copy and must exit 1 with a VIOLATION
line (breaking edits) or exit 0 (harmless edits).  The scratch copy is removed afterwards.
"""
from __future__ import annotations

import importlib
import os
import shutil
import subprocess
import sys
import tempfile

VERIF = os.path.dirname(os.path.dirname(os.path.abspath(__file__)))


def apply_edit(root, rel, old, new, count=1):
    p = os.path.join(root, rel)
    s = open(p).read()
    if s.count(old) < 1:
        raise RuntimeError(f"selftest: pattern not found in {rel}: {old!r}")
    if count == 1 and s.count(old) != 1:
        raise RuntimeError(f"selftest: pattern not unique in {rel} ({s.count(old)} hits): {old!r}")
    s = s.replace(old, new) if count != 1 else s.replace(old, new, 1)
    open(p, "w").write(s)


def run_one(pid, edits, repo_src, tier="quick"):
    tmp = tempfile.mkdtemp(prefix="eko-vc-selftest-")
    try:
        dst = os.path.join(tmp, "src")
        shutil.copytree(repo_src, dst, ignore=shutil.ignore_patterns("__pycache__", "*.pyc"))
        for rel, old, new, *cnt in edits:
            apply_edit(dst, rel, old, new, *cnt)
        env = dict(os.environ)
        env["PYVC_OUT_DIR"] = tmp
        env.setdefault("PYVC_NF_BUDGET", "300")
        env.setdefault("PYVC_NF_TIMEOUT", "120")
        out = subprocess.run([os.path.join(VERIF, "vc"), "check", pid, "--tier", tier, "--repo-src", dst],
                             capture_output=True, text=True, env=env, timeout=int(os.environ.get("PYVC_SELFTEST_TIMEOUT", "1500")))
        return out.returncode, out.stdout + out.stderr
    except subprocess.TimeoutExpired:
        return 98, "selftest: check timed out"
    finally:
        shutil.rmtree(tmp, ignore_errors=True)


def main(argv):
    sys.path.insert(0, VERIF)
    cat = importlib.import_module("selftest.catalog")
    want = set(argv)
    repo_src = os.environ.get("PYVC_REPO_SRC", "/repo/src")
    bad = 0
    total = 0
    jobs = []
    for entry in cat.CATALOG:
        if want and entry["pid"] not in want:
            continue
        jobs.append(entry)
    from concurrent.futures import ThreadPoolExecutor

    def work(entry):
        try:
            return entry, run_one(entry["pid"], entry["edits"], repo_src, entry.get("tier", "quick"))
        except RuntimeError as e:
            return entry, (99, str(e))

    with ThreadPoolExecutor(max_workers=int(os.environ.get("PYVC_JOBS", "8"))) as ex:
        for entry, (rc, out) in ex.map(work, jobs):
            total += 1
            exp = 0 if entry.get("harmless") else 1
            ok = rc == exp
            if ok and exp == 1 and entry.get("expect"):
                ok = entry["expect"] in out
            vl = [l for l in out.splitlines() if l.startswith("VIOLATION")]
            repro = any("no-failing-input-found" not in l for l in vl)
            print(f"{'ok  ' if ok else 'FAIL'} {entry['pid']} {entry['name']}: exit={rc} expected={exp}"
                  + ("" if exp == 0 else f" replayed={'yes' if repro else 'no'}"))
            if not ok:
                bad += 1
                print("     " + "\n     ".join(out.strip().splitlines()[-6:]))
    print(f"selftest: {total - bad}/{total} as expected")
    return 0 if bad == 0 else 1
